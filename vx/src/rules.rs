//! The closed catalogue of rewrite rules (DESIGN.md §2.1).  Every rule is a structural
//! match on the syn AST; anything that matches no rule is left untouched (Verus then
//! rejects it, which the driver reports as "unsupported construct", exit 2).

use quote::ToTokens;
use serde::Serialize;
use std::collections::HashSet;
use syn::spanned::Spanned;
use syn::visit_mut::{self, VisitMut};
use syn::*;

#[derive(Serialize, Clone)]
pub struct RewriteLog {
    pub rule: String,
    pub line: usize,
    pub before: String,
    pub after: String,
}

pub struct Rewriter {
    pub enabled: HashSet<String>,
    pub log: Vec<RewriteLog>,
    pub dropped: Vec<String>,
    pub errors: Vec<String>,
    counters: std::collections::BTreeMap<String, usize>,
    pub index_map: std::collections::BTreeMap<String, String>,
    /// R-binop: "<ident><op>" (left operand's variable, possibly behind `&`) -> function
    pub binop_map: std::collections::BTreeMap<String, String>,
    /// R-const: constant name -> function
    pub const_map: std::collections::BTreeMap<String, String>,
}

fn txt<T: ToTokens>(t: &T) -> String {
    let s = t.to_token_stream().to_string();
    let mut out = String::new();
    let mut ws = false;
    for c in s.chars() {
        if c.is_whitespace() {
            if !ws {
                out.push(' ');
            }
            ws = true;
        } else {
            out.push(c);
            ws = false;
        }
    }
    if out.len() > 400 {
        let mut cut = 400;
        while !out.is_char_boundary(cut) {
            cut -= 1;
        }
        out.truncate(cut);
        out.push_str(" …");
    }
    out
}

fn strip_paren(e: &Expr) -> &Expr {
    match e {
        Expr::Paren(p) => strip_paren(&p.expr),
        Expr::Group(g) => strip_paren(&g.expr),
        _ => e,
    }
}

/// A "place" expression: a path or a chain of field accesses / derefs on one; evaluating it
/// twice is the same as evaluating it once.
fn is_place(e: &Expr) -> bool {
    match strip_paren(e) {
        Expr::Path(_) => true,
        Expr::Field(f) => is_place(&f.base),
        Expr::Unary(u) => matches!(u.op, UnOp::Deref(_)) && is_place(&u.expr),
        Expr::Reference(r) => is_place(&r.expr),
        _ => false,
    }
}

fn closure_body_stmts(body: &Expr) -> (Vec<Stmt>, Option<Expr>) {
    // returns (statements, tail expression)
    match body {
        Expr::Block(b) if b.label.is_none() && b.attrs.is_empty() => {
            let mut stmts = b.block.stmts.clone();
            let tail = match stmts.last() {
                Some(Stmt::Expr(_, None)) => {
                    if let Some(Stmt::Expr(e, None)) = stmts.pop() {
                        Some(e)
                    } else {
                        None
                    }
                }
                _ => None,
            };
            (stmts, tail)
        }
        other => (vec![], Some(other.clone())),
    }
}

fn pat_inner(p: &Pat) -> &Pat {
    match p {
        Pat::Type(pt) => pat_inner(&pt.pat),
        Pat::Paren(pp) => pat_inner(&pp.pat),
        _ => p,
    }
}

/// `let <pat> = <elem>` for an element obtained by `.iter()` (shared ref), `.iter_mut()` or by value.
/// A `&p` pattern (R-refpat) copies the element out.
fn bind_elem(p: &Pat, place: &Expr, idx: &Ident, mode: &str, used_refpat: &mut bool) -> Stmt {
    let p = pat_inner(p);
    if let Pat::Reference(r) = p {
        let inner = &r.pat;
        *used_refpat = true;
        return parse_quote!( let #inner = #place[#idx]; );
    }
    match mode {
        "iter_mut" => parse_quote!( let #p = &mut #place[#idx]; ),
        _ => parse_quote!( let #p = &#place[#idx]; ),
    }
}

impl Rewriter {
    pub fn new(enabled: HashSet<String>) -> Self {
        Rewriter { enabled, log: vec![], dropped: vec![], errors: vec![], counters: Default::default(), index_map: Default::default(), binop_map: Default::default(), const_map: Default::default() }
    }
    fn on(&self, r: &str) -> bool {
        self.enabled.contains(r)
    }
    fn fresh(&mut self, base: &str) -> Ident {
        let c = self.counters.entry(base.to_string()).or_insert(0);
        *c += 1;
        Ident::new(&format!("__vx_{}{}", base, *c), proc_macro2::Span::call_site())
    }
    fn unchain_hoist(&mut self, slot: &mut Expr, pre: &mut Vec<Stmt>) {
        if matches!(*slot, Expr::MethodCall(_) | Expr::Call(_)) {
            let t = self.fresh("c");
            let recv = slot.clone();
            let line = recv.span().start().line;
            let st: Stmt = parse_quote!( let #t = #recv; );
            self.record("R-unchain", line, &recv, &st);
            pre.push(st);
            *slot = parse_quote!( #t );
        }
    }
    /// names the values that are evaluated FIRST in `e` (method receivers, left operands), innermost first,
    /// so the order of evaluation is unchanged
    fn unchain(&mut self, e: &mut Expr, pre: &mut Vec<Stmt>) {
        match e {
            Expr::MethodCall(mc) => {
                self.unchain(&mut mc.receiver, pre);
                self.unchain_hoist(&mut mc.receiver, pre);
            }
            Expr::Paren(p) => self.unchain(&mut p.expr, pre),
            Expr::Binary(b) if !matches!(b.op, BinOp::And(_) | BinOp::Or(_)) => {
                self.unchain(&mut b.left, pre);
                self.unchain_hoist(&mut b.left, pre);
            }
            _ => {}
        }
    }
    fn record<A: ToTokens, B: ToTokens>(&mut self, rule: &str, line: usize, before: &A, after: &B) {
        self.log.push(RewriteLog { rule: rule.to_string(), line, before: txt(before), after: txt(after) });
    }

    // ---- iterator sources --------------------------------------------------------------
    /// Describe an iterator-producing receiver: returns (kind, base expr)
    /// kind ∈ {"range", "into_iter", "iter", "iter_mut"}
    fn iter_source<'a>(&self, recv: &'a Expr) -> Option<(&'static str, &'a Expr)> {
        let r = strip_paren(recv);
        if let Expr::Range(_) = r {
            return Some(("range", r));
        }
        if let Expr::MethodCall(mc) = r {
            if mc.args.is_empty() {
                let m = mc.method.to_string();
                let base = strip_paren(&mc.receiver);
                match m.as_str() {
                    "into_iter" => {
                        if let Expr::Range(_) = base {
                            return Some(("range", base));
                        }
                        return Some(("into_iter", &mc.receiver));
                    }
                    "iter" => return Some(("iter", &mc.receiver)),
                    "iter_mut" => return Some(("iter_mut", &mc.receiver)),
                    _ => {}
                }
            }
        }
        None
    }

    /// Build `for <pat> in <source> { <body> }` for a source description; the element pattern is
    /// bound inside the loop for the by-reference kinds.  Returns (prelude statements, loop expr).
    fn build_loop(&mut self, kind: &str, base: &Expr, pat: &Pat, body: Vec<Stmt>, line: usize) -> (Vec<Stmt>, Expr) {
        match kind {
            "range" | "into_iter" => {
                let p = pat_inner(pat);
                if let Pat::Wild(_) = p {
                    // `_` gets a name so that loop invariants can mention the position (never used by the body)
                    let i = self.fresh("i");
                    (vec![], parse_quote!( for #i in #base { #(#body)* } ))
                } else {
                    (vec![], parse_quote!( for #p in #base { #(#body)* } ))
                }
            }
            _ => {
                let idx = self.fresh("k");
                let mut pre = vec![];
                let place: Expr = if is_place(base) {
                    strip_paren(base).clone()
                } else {
                    let r = self.fresh("recv");
                    pre.push(parse_quote!( let #r = #base; ));
                    parse_quote!( #r )
                };
                let mut used = false;
                let bind = bind_elem(pat, &place, &idx, kind, &mut used);
                if used {
                    self.record("R-refpat", line, pat, &bind);
                }
                (pre, parse_quote!( for #idx in 0..#place.len() { #bind #(#body)* } ))
            }
        }
    }

    // ---- R-foreach ---------------------------------------------------------------------
    fn r_foreach(&mut self, e: &Expr) -> Option<Expr> {
        let Expr::MethodCall(mc) = e else { return None };
        if mc.method != "for_each" || mc.args.len() != 1 {
            return None;
        }
        let Expr::Closure(cl) = &mc.args[0] else { return None };
        if cl.inputs.len() != 1 {
            return None;
        }
        let (kind, base) = self.iter_source(&mc.receiver)?;
        if kind != "range" {
            return None;
        }
        let (mut stmts, tail) = closure_body_stmts(&cl.body);
        if let Some(t) = tail {
            stmts.push(Stmt::Expr(t, Some(Default::default())));
        }
        let line = e.span().start().line;
        let (pre, lp) = self.build_loop(kind, base, &cl.inputs[0], stmts, line);
        let out: Expr = if pre.is_empty() { lp } else { parse_quote!({ #(#pre)* #lp }) };
        Some(out)
    }

    // ---- R-enum / R-zip on for loops ----------------------------------------------------
    fn r_forloop(&mut self, e: &Expr) -> Option<(String, Expr)> {
        let Expr::ForLoop(fl) = e else { return None };
        if fl.label.is_some() {
            return None;
        }
        if self.on("R-wild") {
            // `for _ in a..b`: the unused wildcard gets a name so that invariants can mention the position
            if let (Pat::Wild(_), Expr::Range(_)) = (pat_inner(&fl.pat), strip_paren(&fl.expr)) {
                let i = self.fresh("i");
                let mut n = fl.clone();
                n.pat = Box::new(parse_quote!( #i ));
                return Some(("R-wild".into(), Expr::ForLoop(n)));
            }
        }
        if self.on("R-formut") {
            if let Pat::Ident(pi) = pat_inner(&fl.pat) {
                if pi.mutability.is_some() && pi.by_ref.is_none() && pi.subpat.is_none() {
                    // `for mut x in E { body }`: the binding is a fresh mutable local per element
                    let x = pi.ident.clone();
                    let x0 = self.fresh("m");
                    let body: Vec<Stmt> = fl.body.stmts.clone();
                    let src = &fl.expr;
                    let lp: Expr = parse_quote!( for #x0 in #src { let mut #x = #x0; #(#body)* } );
                    return Some(("R-formut".into(), lp));
                }
            }
        }
        let it = strip_paren(&fl.expr);
        let Expr::MethodCall(mc) = it else { return None };
        let line = e.span().start().line;
        let body: Vec<Stmt> = fl.body.stmts.clone();
        if mc.method == "iter" && mc.args.is_empty() && self.on("R-iterref") && is_place(&mc.receiver) {
            // `for pat in X.iter()` over a slice/Vec: index loop in order (slice iteration order)
            let place = strip_paren(&mc.receiver).clone();
            let idx = self.fresh("k");
            let mut used = false;
            let bind = bind_elem(&fl.pat, &place, &idx, "iter", &mut used);
            if used {
                self.record("R-refpat", line, &fl.pat, &bind);
            }
            let lp: Expr = parse_quote!( for #idx in 0..#place.len() { #bind #(#body)* } );
            return Some(("R-iterref".into(), lp));
        }
        if mc.method == "enumerate" && mc.args.is_empty() && self.on("R-axisfor") {
            // `for (i, x) in A.axis_iter(Axis(k)).enumerate()`: ndarray yields `A.index_axis(Axis(k), i)` for i in 0..A.len_of(Axis(k))
            if let Expr::MethodCall(ax) = strip_paren(&mc.receiver) {
                if ax.method == "axis_iter" && ax.args.len() == 1 && is_place(&ax.receiver) {
                    let Pat::Tuple(pt) = pat_inner(&fl.pat) else { return None };
                    if pt.elems.len() != 2 {
                        return None;
                    }
                    let Pat::Ident(pi) = pat_inner(&pt.elems[0]) else { return None };
                    if pi.by_ref.is_some() || pi.subpat.is_some() {
                        return None;
                    }
                    let idx = pi.ident.clone();
                    let xp = pat_inner(&pt.elems[1]);
                    let base = strip_paren(&ax.receiver);
                    let axis = &ax.args[0];
                    let lp: Expr = parse_quote!( for #idx in 0..#base.len_of(#axis) { let #xp = #base.index_axis(#axis, #idx); #(#body)* } );
                    return Some(("R-axisfor".into(), lp));
                }
            }
        }
        if mc.method == "enumerate" && mc.args.is_empty() && self.on("R-enum") {
            let (kind, base) = self.iter_source(&mc.receiver)?;
            let Pat::Tuple(pt) = pat_inner(&fl.pat) else { return None };
            if pt.elems.len() != 2 {
                return None;
            }
            if kind == "into_iter" {
                // consuming enumerate: a counter next to the by-value loop (definition of `enumerate`);
                // refused if the body could skip the increment
                let Pat::Ident(pi) = pat_inner(&pt.elems[0]) else { return None };
                if pi.by_ref.is_some() || pi.subpat.is_some() {
                    return None;
                }
                let body_txt = txt(&fl.body);
                if body_txt.contains("continue") {
                    return None;
                }
                let idx = pi.ident.clone();
                let xp = pat_inner(&pt.elems[1]);
                let lp: Expr = parse_quote!({ let mut #idx: usize = 0; for #xp in #base { #(#body)* #idx += 1; } });
                return Some(("R-enum".into(), lp));
            }
            if kind != "iter" && kind != "iter_mut" {
                return None;
            }
            let ipat = pat_inner(&pt.elems[0]);
            let idx: Ident = match ipat {
                Pat::Ident(pi) if pi.by_ref.is_none() && pi.subpat.is_none() => pi.ident.clone(),
                Pat::Wild(_) => self.fresh("i"),
                _ => return None,
            };
            let mut pre: Vec<Stmt> = vec![];
            let place: Expr = if is_place(base) {
                strip_paren(base).clone()
            } else {
                let r = self.fresh("recv");
                pre.push(parse_quote!( let #r = #base; ));
                parse_quote!( #r )
            };
            let mut used = false;
            let bind = bind_elem(&pt.elems[1], &place, &idx, kind, &mut used);
            if used {
                self.record("R-refpat", line, &pt.elems[1], &bind);
            }
            let lp: Expr = parse_quote!( for #idx in 0..#place.len() { #bind #(#body)* } );
            let out: Expr = if pre.is_empty() { lp } else { parse_quote!({ #(#pre)* #lp }) };
            return Some(("R-enum".into(), out));
        }
        if mc.method == "zip" && mc.args.len() == 1 && self.on("R-zip") {
            let (k1, b1) = self.iter_source(&mc.receiver)?;
            if k1 != "iter" {
                return None;
            }
            // second operand: `y.iter()` or a place of slice/Vec type (IntoIterator for &[T])
            let arg = strip_paren(&mc.args[0]);
            let b2: &Expr = match self.iter_source(arg) {
                Some(("iter", b)) => b,
                Some(_) => return None,
                None => {
                    if is_place(arg) {
                        arg
                    } else {
                        return None;
                    }
                }
            };
            if !is_place(b1) || !is_place(b2) {
                return None;
            }
            let Pat::Tuple(pt) = pat_inner(&fl.pat) else { return None };
            if pt.elems.len() != 2 {
                return None;
            }
            let idx = self.fresh("k");
            let p1 = strip_paren(b1).clone();
            let p2 = strip_paren(b2).clone();
            let mut used = false;
            let bind1 = bind_elem(&pt.elems[0], &p1, &idx, "iter", &mut used);
            let bind2 = bind_elem(&pt.elems[1], &p2, &idx, "iter", &mut used);
            if used {
                self.record("R-refpat", line, &fl.pat, &quote::quote!( #bind1 #bind2 ));
            }
            let lp: Expr = parse_quote!( for #idx in 0..vx_min(#p1.len(), #p2.len()) { #bind1 #bind2 #(#body)* } );
            return Some(("R-zip".into(), lp));
        }
        None
    }

    // ---- R-mapcollect / R-flatten -------------------------------------------------------
    fn r_collect(&mut self, e: &Expr) -> Option<(String, Expr)> {
        let Expr::MethodCall(mc) = e else { return None };
        if mc.method != "collect" || !mc.args.is_empty() {
            return None;
        }
        let line = e.span().start().line;
        let out_ty: Option<Type> = mc.turbofish.as_ref().and_then(|t| {
            if t.args.len() == 1 {
                if let GenericArgument::Type(ty) = &t.args[0] {
                    return Some(ty.clone());
                }
            }
            None
        });
        let inner = strip_paren(&mc.receiver);
        let Expr::MethodCall(m2) = inner else { return None };
        if m2.method == "map" && m2.args.len() == 1 && self.on("R-mapcollect") {
            let Expr::Closure(cl) = &m2.args[0] else { return None };
            if cl.inputs.len() != 1 {
                return None;
            }
            let (kind, base) = self.iter_source(&m2.receiver)?;
            let out = self.fresh("out");
            let (mut stmts, tail) = closure_body_stmts(&cl.body);
            let tail = tail?;
            stmts.push(parse_quote!( #out.push(#tail); ));
            let (pre, lp) = self.build_loop(kind, base, &cl.inputs[0], stmts, line);
            let decl: Stmt = match out_ty {
                Some(t) => parse_quote!( let mut #out: #t = Vec::new(); ),
                None => parse_quote!( let mut #out = Vec::new(); ),
            };
            let res: Expr = parse_quote!({ #(#pre)* #decl #lp #out });
            return Some(("R-mapcollect".into(), res));
        }
        if m2.method == "flatten" && m2.args.is_empty() && self.on("R-flatten") {
            let (kind, base) = self.iter_source(&m2.receiver)?;
            if kind != "into_iter" {
                return None;
            }
            let out = self.fresh("out");
            let row = self.fresh("row");
            let x = self.fresh("x");
            let decl: Stmt = match out_ty {
                Some(t) => parse_quote!( let mut #out: #t = Vec::new(); ),
                None => parse_quote!( let mut #out = Vec::new(); ),
            };
            let res: Expr = parse_quote!({ #decl for #row in #base { for #x in #row { #out.push(#x); } } #out });
            return Some(("R-flatten".into(), res));
        }
        None
    }

    // ---- R-threads -----------------------------------------------------------------------------------------
    /// (a) `thread::spawn(move || { .. })`: the closure body is DROPPED from the verified text (a reporter thread that
    ///     shares only the channel receivers it moved in with the rest of the function); the handle is an opaque value
    ///     whose `join()` may return anything.  What the thread does — in particular whether it terminates — is not decided.
    fn r_thread_spawn(&mut self, e: &Expr) -> Option<Expr> {
        let Expr::Call(c) = e else { return None };
        let f = txt(&c.func).replace(' ', "");
        if !(f == "thread::spawn" || f == "std::thread::spawn") || c.args.len() != 1 {
            return None;
        }
        let Expr::Closure(cl) = &c.args[0] else { return None };
        if cl.capture.is_none() || !cl.inputs.is_empty() {
            return None;
        }
        let first = cl.body.span().start().line;
        let last = cl.body.span().end().line;
        self.dropped.push(format!("body of the `move` closure handed to thread::spawn at lines {}-{} (reporter thread: console UI and polling of the statistics channels; termination not decided)", first, last));
        Some(parse_quote!( vx_thread_spawned() ))
    }
    /// (b) `thread::scope(|s| { let hs: Vec<_> = A.iter_mut().zip(B).map(|(x, y)| { s.spawn(|| BODY) }).collect();
    ///      hs.into_iter().map(|h| { h.join().expect(..) }).collect() })`
    ///     -> the in-order map `BODY` over the pairs (ASSUMED, like R-par: scoped threads whose closures touch only their own
    ///     element and sender compute what the sequential map computes; a panic in BODY is a panic of the whole expression)
    fn r_thread_scope(&mut self, e: &Expr) -> Option<Expr> {
        let Expr::Call(c) = e else { return None };
        let f = txt(&c.func).replace(' ', "");
        if !(f == "thread::scope" || f == "std::thread::scope") || c.args.len() != 1 {
            return None;
        }
        let Expr::Closure(cl) = &c.args[0] else { return None };
        if cl.inputs.len() != 1 {
            return None;
        }
        let Pat::Ident(sp) = pat_inner(&cl.inputs[0]) else { return None };
        let sname = sp.ident.to_string();
        let Expr::Block(b) = &*cl.body else { return None };
        let stmts = &b.block.stmts;
        if stmts.len() != 2 {
            return None;
        }
        // statement 1: let hs: .. = A.iter_mut().zip(B).map(|(x, y)| { s.spawn(|| BODY) }).collect();
        let Stmt::Local(l) = &stmts[0] else { return None };
        let Pat::Ident(hp) = pat_inner(&l.pat) else { return None };
        let hname = hp.ident.to_string();
        let init = &l.init.as_ref()?.expr;
        let Expr::MethodCall(coll) = strip_paren(init) else { return None };
        if coll.method != "collect" { return None; }
        let Expr::MethodCall(mp) = strip_paren(&coll.receiver) else { return None };
        if mp.method != "map" || mp.args.len() != 1 { return None; }
        let Expr::Closure(mcl) = &mp.args[0] else { return None };
        if mcl.inputs.len() != 1 { return None; }
        let Pat::Tuple(pt) = pat_inner(&mcl.inputs[0]) else { return None };
        if pt.elems.len() != 2 { return None; }
        let (xp, yp) = (pat_inner(&pt.elems[0]).clone(), pat_inner(&pt.elems[1]).clone());
        let Expr::MethodCall(zp) = strip_paren(&mp.receiver) else { return None };
        if zp.method != "zip" || zp.args.len() != 1 { return None; }
        let Expr::MethodCall(im) = strip_paren(&zp.receiver) else { return None };
        if im.method != "iter_mut" || !im.args.is_empty() || !is_place(&im.receiver) { return None; }
        let a = strip_paren(&im.receiver).clone();
        let bsrc = strip_paren(&zp.args[0]).clone();
        if !matches!(bsrc, Expr::Path(_)) { return None; }
        // closure body: { s.spawn(|| BODY) }
        let (ms, mt) = closure_body_stmts(&mcl.body);
        if !ms.is_empty() { return None; }
        let Expr::MethodCall(spn) = strip_paren(mt.as_ref()?) else { return None };
        if spn.method != "spawn" || spn.args.len() != 1 || txt(&spn.receiver) != sname { return None; }
        let Expr::Closure(wcl) = &spn.args[0] else { return None };
        if !wcl.inputs.is_empty() { return None; }
        let (mut wstmts, wtail) = closure_body_stmts(&wcl.body);
        let wtail = wtail?;
        // statement 2 (tail): hs.into_iter().map(|h| { h.join().expect(..) }).collect()
        let Stmt::Expr(tail, None) = &stmts[1] else { return None };
        let tt = txt(tail).replace(' ', "");
        if !(tt.starts_with(&format!("{}.into_iter().map(|", hname)) && tt.contains(".join().expect(") && tt.ends_with(".collect()")) {
            return None;
        }
        let out = self.fresh("out");
        let q = self.fresh("q");
        let k = self.fresh("k");
        wstmts.push(parse_quote!( #out.push(#wtail); ));
        Some(parse_quote!({
            let mut #out = Vec::new();
            let mut #q = #bsrc;
            for #k in 0..vx_min(#a.len(), #q.len()) {
                let #xp = &mut #a[#k];
                let #yp = vx_pop_front(&mut #q);
                #(#wstmts)*
            }
            #out
        }))
    }

    // ---- R-extendmap: V.extend(SRC.map(|p| e)) / V.extend(W) -> pushes in iteration order --------------
    fn r_extendmap(&mut self, e: &Expr) -> Option<Expr> {
        let Expr::MethodCall(mc) = e else { return None };
        if mc.method != "extend" || mc.args.len() != 1 || !is_place(&mc.receiver) {
            return None;
        }
        let v = strip_paren(&mc.receiver).clone();
        let line = e.span().start().line;
        let arg = strip_paren(&mc.args[0]);
        if let Expr::MethodCall(m2) = arg {
            if m2.method == "map" && m2.args.len() == 1 {
                let Expr::Closure(cl) = &m2.args[0] else { return None };
                if cl.inputs.len() != 1 {
                    return None;
                }
                let (kind, base) = self.iter_source(&m2.receiver)?;
                let (mut stmts, tail) = closure_body_stmts(&cl.body);
                let tail = tail?;
                stmts.push(parse_quote!( #v.push(#tail); ));
                let (pre, lp) = self.build_loop(kind, base, &cl.inputs[0], stmts, line);
                return Some(parse_quote!({ #(#pre)* #lp }));
            }
            return None;
        }
        if is_place(arg) && matches!(arg, Expr::Path(_)) {
            // `V.extend(W)` with W a Vec moved in: its elements are pushed in order
            let x = self.fresh("x");
            return Some(parse_quote!({ for #x in #arg { #v.push(#x); } }));
        }
        None
    }
    // ---- R-subslice: `X[a..b]` on a slice/Vec -> `vx_subslice(&X, a, b)` (panics unless a <= b <= len) ------
    fn r_subslice(&mut self, e: &Expr) -> Option<Expr> {
        if let Expr::Reference(r) = e {
            // `&vx_subslice(..)` (after the inner rewrite) is the slice reference itself
            if r.mutability.is_none() {
                if let Expr::Call(c) = strip_paren(&r.expr) {
                    if txt(&c.func) == "vx_subslice" {
                        return Some(strip_paren(&r.expr).clone());
                    }
                }
            }
            return None;
        }
        let Expr::Index(ix) = e else { return None };
        let Expr::Range(rg) = strip_paren(&ix.index) else { return None };
        if !matches!(rg.limits, RangeLimits::HalfOpen(_)) {
            return None;
        }
        let (Some(a), Some(b)) = (&rg.start, &rg.end) else { return None };
        let base = &ix.expr;
        Some(parse_quote!( vx_subslice(&#base, #a, #b) ))
    }

    // ---- R-fold: X.iter().cloned().fold(init, |acc, x| e) / X.iter().fold(..) -----------
    fn r_fold(&mut self, e: &Expr) -> Option<Expr> {
        let Expr::MethodCall(mc) = e else { return None };
        if mc.method != "fold" || mc.args.len() != 2 {
            return None;
        }
        let Expr::Closure(cl) = &mc.args[1] else { return None };
        if cl.inputs.len() != 2 {
            return None;
        }
        let Pat::Ident(acc) = pat_inner(&cl.inputs[0]) else { return None };
        let acc = acc.ident.clone();
        let xpat = pat_inner(&cl.inputs[1]).clone();
        let init = &mc.args[0];
        // receiver: X.iter().cloned() | X.iter().copied() | X.iter()
        let mut recv = strip_paren(&mc.receiver);
        let mut cloned = false;
        if let Expr::MethodCall(m) = recv {
            if (m.method == "cloned" || m.method == "copied") && m.args.is_empty() {
                cloned = true;
                recv = strip_paren(&m.receiver);
            }
        }
        let (kind, base) = self.iter_source(recv)?;
        if kind != "iter" || !is_place(base) {
            return None;
        }
        let place = strip_paren(base).clone();
        let idx = self.fresh("k");
        let (stmts, tail) = closure_body_stmts(&cl.body);
        let tail = tail?;
        let bind: Stmt = if cloned { parse_quote!( let #xpat = #place[#idx].clone(); ) } else { parse_quote!( let #xpat = &#place[#idx]; ) };
        let res: Expr = parse_quote!({
            let mut #acc = #init;
            for #idx in 0..#place.len() { #bind #(#stmts)* #acc = #tail; }
            #acc
        });
        Some(res)
    }

    // ---- R-fold (general): X.into_iter().fold(init, |ACC_PAT, X_PAT| body) -----------------
    /// `it.fold(init, f)` is `let mut acc = init; for x in it { acc = f(acc, x); } acc`; the closure's
    /// parameter patterns become `let` patterns.
    fn r_fold_general(&mut self, e: &Expr) -> Option<Expr> {
        let Expr::MethodCall(mc) = e else { return None };
        if mc.method != "fold" || mc.args.len() != 2 {
            return None;
        }
        let Expr::Closure(cl) = &mc.args[1] else { return None };
        if cl.inputs.len() != 2 {
            return None;
        }
        let (kind, base) = self.iter_source(&mc.receiver)?;
        if kind != "into_iter" && kind != "range" {
            return None;
        }
        let accp = pat_inner(&cl.inputs[0]).clone();
        let xp = pat_inner(&cl.inputs[1]).clone();
        let init = &mc.args[0];
        let acc = self.fresh("acc");
        let x = self.fresh("x");
        let (stmts, tail) = closure_body_stmts(&cl.body);
        let tail = tail?;
        let res: Expr = parse_quote!({
            let mut #acc = #init;
            for #x in #base {
                let #accp = #acc;
                let #xp = #x;
                #(#stmts)*
                #acc = #tail;
            }
            #acc
        });
        Some(res)
    }

    // ---- R-mapsum: X.iter().map(|v| e).sum::<T>() ------------------------------------------
    fn r_mapsum(&mut self, e: &Expr) -> Option<Expr> {
        let Expr::MethodCall(mc) = e else { return None };
        if mc.method != "sum" || !mc.args.is_empty() {
            return None;
        }
        let Expr::MethodCall(m2) = strip_paren(&mc.receiver) else { return None };
        if m2.method != "map" || m2.args.len() != 1 {
            return None;
        }
        let Expr::Closure(cl) = &m2.args[0] else { return None };
        if cl.inputs.len() != 1 {
            return None;
        }
        let (kind, base) = self.iter_source(&m2.receiver)?;
        if kind != "iter" || !is_place(base) {
            return None;
        }
        let place = strip_paren(base).clone();
        let acc = self.fresh("sum");
        let idx = self.fresh("k");
        let vp = pat_inner(&cl.inputs[0]).clone();
        let (stmts, tail) = closure_body_stmts(&cl.body);
        let tail = tail?;
        // element access goes through the unit's index function if the place is listed in the index map
        let elem: Expr = match &place {
            Expr::Path(pth) if pth.path.get_ident().map(|i| self.index_map.contains_key(&i.to_string())).unwrap_or(false) => {
                let f = Ident::new(&self.index_map[&pth.path.get_ident().unwrap().to_string()], proc_macro2::Span::call_site());
                parse_quote!( #f(&#place, #idx) )
            }
            _ => parse_quote!( &#place[#idx] ),
        };
        let res: Expr = parse_quote!({
            let mut #acc = vx_sum_zero();
            for #idx in 0..#place.len() {
                let #vp = #elem;
                #(#stmts)*
                #acc = #acc + #tail;
            }
            #acc
        });
        Some(res)
    }

    // ---- R-sortby: recv.sort_by(f) -> slice_sort_by(recv, f) --------------------------------
    fn r_sortby(&mut self, e: &Expr) -> Option<Expr> {
        let Expr::MethodCall(mc) = e else { return None };
        if mc.method != "sort_by" || mc.args.len() != 1 {
            return None;
        }
        let r = &mc.receiver;
        let f = &mc.args[0];
        // the comparator gets a name (closure construction has no effect) so that ghost code can mention it
        let c = self.fresh("cmp");
        Some(parse_quote!({ let #c = #f; slice_sort_by(#r, #c); }))
    }

    // ---- R-index: X[i] on a foreign container named in the unit's index map -----------------
    fn r_index(&mut self, e: &Expr) -> Option<Expr> {
        let Expr::Index(ix) = e else { return None };
        let id = txt(strip_paren(&ix.expr)).replace(' ', "");
        let f = self.index_map.get(&id)?.clone();
        let base = &ix.expr;
        let i = &ix.index;
        if let Some(name) = f.strip_prefix('*') {
            // `X[i]` is `*Index::index(&X, i)`: the stub returns the reference
            let f = Ident::new(name, proc_macro2::Span::call_site());
            return Some(parse_quote!( (*#f(&#base, #i)) ));
        }
        let f = Ident::new(&f, proc_macro2::Span::call_site());
        Some(parse_quote!( #f(&#base, #i) ))
    }

    // ---- R-binop: `x op y` on a foreign container named in the unit's operator map ----------
    /// `a op b` is sugar for the operator trait's method; the unit names the stub carrying its contract
    /// (Verus cannot resolve operator impls on references to generic foreign types).
    fn r_binop(&mut self, e: &Expr) -> Option<Expr> {
        let Expr::Binary(b) = e else { return None };
        let op = match b.op {
            BinOp::Add(_) => "+",
            BinOp::Sub(_) => "-",
            BinOp::Mul(_) => "*",
            BinOp::Div(_) => "/",
            _ => return None,
        };
        let left = strip_paren(&b.left);
        let inner = match left {
            Expr::Reference(r) => strip_paren(&r.expr),
            other => other,
        };
        let Expr::Path(pth) = inner else { return None };
        let id = pth.path.get_ident()?.to_string();
        let f = self.binop_map.get(&format!("{}{}", id, op))?;
        let f = Ident::new(f, proc_macro2::Span::call_site());
        let l = &b.left;
        let r = &b.right;
        Some(parse_quote!( #f(#l, #r) ))
    }

    // ---- R-windows: for w in X.windows_with_stride(n, s) { body } ------------------------------------
    fn r_windows(&mut self, e: &Expr) -> Option<Expr> {
        let Expr::ForLoop(fl) = e else { return None };
        if fl.label.is_some() {
            return None;
        }
        let Expr::MethodCall(mc) = strip_paren(&fl.expr) else { return None };
        if mc.method != "windows_with_stride" || mc.args.len() != 2 || !is_place(&mc.receiver) {
            return None;
        }
        let x = strip_paren(&mc.receiver).clone();
        let (n, st) = (&mc.args[0], &mc.args[1]);
        let w = pat_inner(&fl.pat).clone();
        let idx = self.fresh("w");
        let body = &fl.body.stmts;
        Some(parse_quote!( for #idx in 0..vx_win_count(#x.len(), #n, #st) { let #w = nd_window(&#x, #idx * #st, #n); #(#body)* } ))
    }

    // ---- R-axisiter: X.axis_iter_mut(Axis(1)).into_iter().enumerate().for_each(|(j, mut col)| body) ------
    /// column j of X is written through `col[i] = e` only: `nd_set2(&mut X, i, j, e)`
    fn r_axisiter(&mut self, e: &Expr) -> Option<Expr> {
        let Expr::MethodCall(fe) = e else { return None };
        if fe.method != "for_each" || fe.args.len() != 1 {
            return None;
        }
        let Expr::Closure(cl) = &fe.args[0] else { return None };
        if cl.inputs.len() != 1 {
            return None;
        }
        let Pat::Tuple(pt) = pat_inner(&cl.inputs[0]) else { return None };
        if pt.elems.len() != 2 {
            return None;
        }
        let Pat::Ident(jp) = pat_inner(&pt.elems[0]) else { return None };
        let Pat::Ident(cp) = pat_inner(&pt.elems[1]) else { return None };
        let (j, col) = (jp.ident.clone(), cp.ident.clone());
        let Expr::MethodCall(en) = strip_paren(&fe.receiver) else { return None };
        if en.method != "enumerate" || !en.args.is_empty() {
            return None;
        }
        let Expr::MethodCall(ii) = strip_paren(&en.receiver) else { return None };
        if ii.method != "into_iter" || !ii.args.is_empty() {
            return None;
        }
        let Expr::MethodCall(ax) = strip_paren(&ii.receiver) else { return None };
        if ax.method != "axis_iter_mut" || ax.args.len() != 1 || txt(&ax.args[0]).replace(' ', "") != "Axis(1)" || !is_place(&ax.receiver) {
            return None;
        }
        let x = strip_paren(&ax.receiver).clone();
        // rewrite `col[i] = e` and refuse any other use of `col`
        struct ColRw { col: Ident, j: Ident, x: Expr, bad: bool }
        impl VisitMut for ColRw {
            fn visit_expr_mut(&mut self, e: &mut Expr) {
                if let Expr::Assign(a) = e {
                    if let Expr::Index(ix) = strip_paren(&a.left) {
                        if let Expr::Path(p) = strip_paren(&ix.expr) {
                            if p.path.is_ident(&self.col) {
                                let i = (*ix.index).clone();
                                let mut rhs2 = (*a.right).clone();
                                self.visit_expr_mut(&mut rhs2);
                                let (x, j) = (self.x.clone(), self.j.clone());
                                *e = parse_quote!( nd_set2(&mut #x, #i, #j, #rhs2) );
                                return;
                            }
                        }
                    }
                }
                if let Expr::Path(p) = e {
                    if p.path.is_ident(&self.col) {
                        self.bad = true;
                    }
                }
                visit_mut::visit_expr_mut(self, e);
            }
        }
        let (mut stmts, tail) = closure_body_stmts(&cl.body);
        if let Some(t) = tail {
            stmts.push(Stmt::Expr(t, Some(Default::default())));
        }
        let mut rw = ColRw { col, j: j.clone(), x: x.clone(), bad: false };
        for st in stmts.iter_mut() {
            rw.visit_stmt_mut(st);
        }
        if rw.bad {
            return None;
        }
        Some(parse_quote!( for #j in 0..#x.ncols() { #(#stmts)* } ))
    }

    // ---- R-boolor: `a | b` on two parenthesised boolean expressions (non-short-circuit or) ----------
    fn r_boolor(&mut self, e: &Expr) -> Option<Expr> {
        let Expr::Binary(b) = e else { return None };
        if !matches!(b.op, BinOp::BitOr(_)) {
            return None;
        }
        // only the unambiguous shape `(cmp) | (cmp)`: both operands are parenthesised comparisons
        let is_cmp = |x: &Expr| -> bool {
            if let Expr::Paren(p) = x {
                if let Expr::Binary(bb) = &*p.expr {
                    return matches!(bb.op, BinOp::Eq(_) | BinOp::Ne(_) | BinOp::Lt(_) | BinOp::Le(_) | BinOp::Gt(_) | BinOp::Ge(_));
                }
            }
            false
        };
        if !is_cmp(&b.left) || !is_cmp(&b.right) {
            return None;
        }
        let l = &b.left;
        let r = &b.right;
        Some(parse_quote!( vx_bor(#l, #r) ))
    }

    // ---- R-destruct: `(a, _, b) = e;`  ->  `{ let (t0, _, t2) = e; a = t0; b = t2; }` --------------
    fn r_destruct(&mut self, e: &Expr) -> Option<Expr> {
        let Expr::Assign(a) = e else { return None };
        let Expr::Tuple(tp) = strip_paren(&a.left) else { return None };
        let mut pats: Vec<Pat> = vec![];
        let mut assigns: Vec<Stmt> = vec![];
        for el in tp.elems.iter() {
            match el {
                Expr::Infer(_) => pats.push(parse_quote!(_)),
                other if is_place(other) => {
                    let t = self.fresh("t");
                    pats.push(parse_quote!( #t ));
                    assigns.push(parse_quote!( #other = #t; ));
                }
                _ => return None,
            }
        }
        let rhs = &a.right;
        Some(parse_quote!({ let ( #(#pats),* ) = #rhs; #(#assigns)* }))
    }

    // ---- R-lit -------------------------------------------------------------------------
    fn r_lit(&mut self, e: &Expr) -> Option<Expr> {
        let Expr::Lit(el) = e else { return None };
        let Lit::Float(lf) = &el.lit else { return None };
        let digits = lf.base10_digits().to_string(); // e.g. "0.5", "1000.0", "0.", "1e-7"
        let (mant, exp) = match digits.find(['e', 'E']) {
            Some(p) => (digits[..p].to_string(), digits[p + 1..].parse::<i32>().ok()?),
            None => (digits.clone(), 0),
        };
        let (ip, fp) = match mant.find('.') {
            Some(p) => (mant[..p].to_string(), mant[p + 1..].to_string()),
            None => (mant.clone(), String::new()),
        };
        let num_s = format!("{}{}", ip, fp);
        let num_s = num_s.trim_start_matches('0');
        let mut num: u128 = if num_s.is_empty() { 0 } else { num_s.parse().ok()? };
        let mut den: u128 = 1;
        let scale = exp - fp.len() as i32;
        for _ in 0..scale.unsigned_abs() {
            if scale > 0 {
                num = num.checked_mul(10)?;
            } else {
                den = den.checked_mul(10)?;
            }
        }
        // reduce
        fn gcd(a: u128, b: u128) -> u128 {
            if b == 0 { a } else { gcd(b, a % b) }
        }
        let g = gcd(num, den).max(1);
        let (num, den) = (num / g, den / g);
        if num > u64::MAX as u128 || den > u64::MAX as u128 {
            return None;
        }
        let n = LitInt::new(&format!("{}", num), proc_macro2::Span::call_site());
        let d = LitInt::new(&format!("{}", den), proc_macro2::Span::call_site());
        Some(parse_quote!( fl_lit(#n, #d) ))
    }

    // ---- R-cast ------------------------------------------------------------------------
    fn r_cast(&mut self, e: &Expr) -> Option<Expr> {
        let Expr::Cast(c) = e else { return None };
        let t = txt(&c.ty);
        if t == "f64" || t == "f32" || t == "Fl" {
            let inner = &c.expr;
            return Some(parse_quote!( to_fl(#inner) ));
        }
        None
    }

    // ---- macros: R-fmt, R-assert, R-smacro ---------------------------------------------
    /// apply R-index to the `let` bindings a loop rewrite has put at the head of the loop body
    fn revisit_new_bindings(&mut self, e: &mut Expr) {
        if !self.on("R-index") {
            return;
        }
        struct V<'a> { rw: &'a mut Rewriter }
        impl<'a> VisitMut for V<'a> {
            fn visit_expr_mut(&mut self, e: &mut Expr) {
                visit_mut::visit_expr_mut(self, e);
                if let Some(n) = self.rw.r_index(e) {
                    let line = e.span().start().line;
                    self.rw.record("R-index", line, e, &n);
                    *e = n;
                }
            }
        }
        V { rw: self }.visit_expr_mut(e);
    }
    fn fmt_positional(&self, mac: &Macro) -> Option<(Expr, Vec<Expr>)> {
        let args = mac.parse_body_with(punctuated::Punctuated::<Expr, Token![,]>::parse_terminated).ok()?;
        let mut it = args.into_iter();
        let lit = it.next()?;
        let Expr::Lit(ExprLit { lit: Lit::Str(ls), .. }) = &lit else { return None };
        let text = ls.value().replace("{{", "").replace("}}", "");
        let rest: Vec<Expr> = it.collect();
        // every brace group must be exactly `{}` and their number must equal the number of arguments
        let opens = text.matches('{').count();
        if opens != text.matches("{}").count() || opens != rest.len() || rest.is_empty() {
            return None;
        }
        Some((lit, rest))
    }
    fn r_macro_expr(&mut self, e: &Expr) -> Option<(String, Expr)> {
        let Expr::Macro(em) = e else { return None };
        self.r_macro(&em.mac)
    }
    fn r_macro(&mut self, mac: &Macro) -> Option<(String, Expr)> {
        let name = mac.path.segments.last()?.ident.to_string();
        match name.as_str() {
            "format" if self.on("R-fmtargs") && self.fmt_positional(mac).is_some() => {
                // `format!("lit {} ..", a, ..)` with positional `{}` placeholders only: a function of the literal and the
                // Display renderings of the arguments, in order
                let (lit, args) = self.fmt_positional(mac)?;
                let f = Ident::new(&format!("vx_fmt{}", args.len()), proc_macro2::Span::call_site());
                Some(("R-fmtargs".into(), parse_quote!( #f(#lit #(, &#args)*) )))
            }
            "format" if self.on("R-fmt") => Some(("R-fmt".into(), parse_quote!( fmt_opaque() ))),
            "assert_eq" if self.on("R-assert") => {
                let args = mac.parse_body_with(punctuated::Punctuated::<Expr, Token![,]>::parse_terminated).ok()?;
                if args.len() < 2 {
                    return None;
                }
                let (a, b) = (&args[0], &args[1]);
                Some(("R-assert".into(), parse_quote!( rt_assert(#a == #b) )))
            }
            "assert" if self.on("R-assert") => {
                let args = mac.parse_body_with(punctuated::Punctuated::<Expr, Token![,]>::parse_terminated).ok()?;
                if args.is_empty() {
                    return None;
                }
                let a = &args[0];
                Some(("R-assert".into(), parse_quote!( rt_assert(#a) )))
            }
            "s" if self.on("R-smacro") => {
                // pattern letters: A = `..`, I = index expr, T = `..e`, F = `e..`, N = `-e..`, R = `a..b`
                let args = mac.parse_body_with(punctuated::Punctuated::<Expr, Token![,]>::parse_terminated).ok()?;
                let mut pat = String::new();
                let mut vals: Vec<Expr> = vec![];
                for a in args.iter() {
                    match a {
                        Expr::Range(r) => match (&r.start, &r.end) {
                            (None, None) => pat.push('A'),
                            (None, Some(e)) => {
                                pat.push('T');
                                vals.push((**e).clone());
                            }
                            (Some(s), None) => {
                                if let Expr::Unary(u) = &**s {
                                    if matches!(u.op, UnOp::Neg(_)) {
                                        pat.push('N');
                                        vals.push((*u.expr).clone());
                                        continue;
                                    }
                                }
                                pat.push('F');
                                vals.push((**s).clone());
                            }
                            (Some(s), Some(e)) => {
                                pat.push('R');
                                vals.push((**s).clone());
                                vals.push((**e).clone());
                            }
                        },
                        other => {
                            pat.push('I');
                            vals.push(other.clone());
                        }
                    }
                }
                let id = Ident::new(&format!("SPat{}", pat), proc_macro2::Span::call_site());
                Some(("R-smacro".into(), parse_quote!( #id ( #(#vals),* ) )))
            }
            _ => None,
        }
    }

    // ---- R-par -------------------------------------------------------------------------
    fn r_par(&mut self, e: &mut Expr) -> bool {
        if let Expr::MethodCall(mc) = e {
            let m = mc.method.to_string();
            let new = match m.as_str() {
                "par_iter_mut" => "iter_mut",
                "par_iter" => "iter",
                "into_par_iter" => "into_iter",
                _ => return false,
            };
            let before = txt(&mc.method);
            mc.method = Ident::new(new, mc.method.span());
            let line = mc.method.span().start().line;
            self.log.push(RewriteLog { rule: "R-par".into(), line, before, after: new.to_string() });
            return true;
        }
        false
    }

    // ---- R-fuse: a.row_mut(k).assign(&v) -----------------------------------------------
    fn r_fuse(&mut self, e: &Expr) -> Option<Expr> {
        let Expr::MethodCall(mc) = e else { return None };
        if mc.method != "assign" || mc.args.len() != 1 {
            return None;
        }
        let Expr::MethodCall(inner) = strip_paren(&mc.receiver) else { return None };
        if inner.method != "row_mut" || inner.args.len() != 1 {
            return None;
        }
        let a = &inner.receiver;
        if !is_place(a) {
            return None;
        }
        let k = &inner.args[0];
        let v = &mc.args[0];
        Some(parse_quote!( nd_row_assign(&mut #a, #k, #v) ))
    }

    // ---- R-samplezip: D.sample_iter(&mut R).zip(Y).map(|(x, e)| body).collect() ----------------
    /// `sample_iter` yields `D.sample(rng)` repeatedly (rand docs); `zip` stops at the end of Y but only
    /// after drawing one more item from the first iterator (`Zip::next` is `a.next()?; b.next()?`), so the
    /// generator is advanced len(Y) + 1 times: the trailing draw is kept in the desugaring.
    fn r_samplezip(&mut self, e: &Expr) -> Option<Expr> {
        let Expr::MethodCall(mc) = e else { return None };
        if mc.method != "collect" || !mc.args.is_empty() {
            return None;
        }
        let Expr::MethodCall(mp) = strip_paren(&mc.receiver) else { return None };
        if mp.method != "map" || mp.args.len() != 1 {
            return None;
        }
        let Expr::Closure(cl) = &mp.args[0] else { return None };
        if cl.inputs.len() != 1 {
            return None;
        }
        let Pat::Tuple(pt) = pat_inner(&cl.inputs[0]) else { return None };
        if pt.elems.len() != 2 {
            return None;
        }
        let Expr::MethodCall(zp) = strip_paren(&mp.receiver) else { return None };
        if zp.method != "zip" || zp.args.len() != 1 {
            return None;
        }
        let y = strip_paren(&zp.args[0]);
        if !is_place(y) {
            return None;
        }
        let Expr::MethodCall(si) = strip_paren(&zp.receiver) else { return None };
        if si.method != "sample_iter" || si.args.len() != 1 {
            return None;
        }
        let d = &si.receiver;
        if !is_place(d) {
            return None;
        }
        let rng = &si.args[0];
        let out = self.fresh("out");
        let idx = self.fresh("k");
        let xp = pat_inner(&pt.elems[0]).clone();
        let ep = pat_inner(&pt.elems[1]).clone();
        let (stmts, tail) = closure_body_stmts(&cl.body);
        let tail = tail?;
        Some(parse_quote!({
            let mut #out = Vec::new();
            for #idx in 0..#y.len() {
                let #xp = #d.sample(#rng);
                let #ep = &#y[#idx];
                #(#stmts)*
                #out.push(#tail);
            }
            let _ = #d.sample(#rng);
            #out
        }))
    }

    // ---- R-sampleiter: (&mut rng).sample_iter(D).take(n).collect() ----------------------
    fn r_sampleiter(&mut self, e: &Expr) -> Option<Expr> {
        let Expr::MethodCall(mc) = e else { return None };
        if mc.method != "collect" || !mc.args.is_empty() {
            return None;
        }
        let Expr::MethodCall(tk) = strip_paren(&mc.receiver) else { return None };
        if tk.method != "take" || tk.args.len() != 1 {
            return None;
        }
        let Expr::MethodCall(si) = strip_paren(&tk.receiver) else { return None };
        if si.method != "sample_iter" || si.args.len() != 1 {
            return None;
        }
        let rng = strip_paren(&si.receiver);
        let Expr::Reference(r) = rng else { return None };
        if r.mutability.is_none() || !is_place(&r.expr) {
            return None;
        }
        let d = &si.args[0];
        let n = &tk.args[0];
        Some(parse_quote!( vx_sample_n(#rng, #d, #n) ))
    }
}

fn is_console_macro(m: &Macro) -> bool {
    matches!(m.path.segments.last().map(|s| s.ident.to_string()).as_deref(), Some("println") | Some("eprintln"))
}

impl VisitMut for Rewriter {
    fn visit_block_mut(&mut self, b: &mut Block) {
        // drop console I/O statements
        let mut kept = Vec::with_capacity(b.stmts.len());
        for s in b.stmts.drain(..) {
            let drop_it = match &s {
                Stmt::Macro(sm) => is_console_macro(&sm.mac),
                Stmt::Expr(Expr::Macro(em), _) => is_console_macro(&em.mac),
                // a `use` inside a body only affects name resolution; in the unit the names resolve to the prelude's stubs
                Stmt::Item(Item::Use(_)) => true,
                _ => false,
            };
            if drop_it {
                self.dropped.push(format!("{} at line {}: {}", if matches!(&s, Stmt::Item(_)) { "local use declaration" } else { "console statement" }, s.span().start().line, txt(&s)));
            } else {
                kept.push(s);
            }
        }
        b.stmts = kept;
        // statement-position macros that a rule turns into expressions
        for s in b.stmts.iter_mut() {
            if let Stmt::Macro(sm) = s {
                if let Some((rule, new)) = self.r_macro(&sm.mac) {
                    let line = sm.mac.path.span().start().line;
                    self.record(&rule, line, &sm.mac, &new);
                    let semi = sm.semi_token;
                    *s = Stmt::Expr(new, semi.or(Some(Default::default())));
                }
            }
        }
        // R-unchain: `let x = a.f().g();` -> `let __vx_c1 = a.f(); let x = __vx_c1.g();` (same evaluation order;
        // gives every intermediate value of a method chain a name that proof anchors can talk about)
        if self.on("R-unchain") {
            let mut out = Vec::with_capacity(b.stmts.len());
            for mut s in b.stmts.drain(..) {
                let mut pre: Vec<Stmt> = vec![];
                if let Stmt::Local(l) = &mut s {
                    if let Some(init) = &mut l.init {
                        if init.diverge.is_none() {
                            self.unchain(&mut init.expr, &mut pre);
                        }
                    }
                }
                out.extend(pre);
                out.push(s);
            }
            b.stmts = out;
        }
        visit_mut::visit_block_mut(self, b);
    }

    fn visit_type_mut(&mut self, t: &mut Type) {
        if self.on("R-dynerr") {
            // `Box<dyn Error>` -> `BoxDynError` (an opaque error value; Verus has no trait objects)
            let flat = txt(t).replace(' ', "");
            if flat == "Box<dynError>" || flat == "Box<dynstd::error::Error>" {
                let line = t.span().start().line;
                let new: Type = parse_quote!(BoxDynError);
                self.record("R-dynerr", line, t, &new);
                *t = new;
                return;
            }
        }
        visit_mut::visit_type_mut(self, t);
        if self.on("R-f64") {
            if let Type::Path(tp) = t {
                if tp.qself.is_none() && tp.path.segments.len() == 1 {
                    let id = tp.path.segments[0].ident.to_string();
                    if id == "f64" || id == "f32" {
                        let line = tp.path.segments[0].ident.span().start().line;
                        let new: Type = parse_quote!(Fl);
                        self.record("R-f64", line, t, &new);
                        *t = new;
                    }
                }
            }
        }
    }

    fn visit_expr_mut(&mut self, e: &mut Expr) {
        // `vec![a, b, ..]`: the element expressions are ordinary expressions (syn keeps macro bodies as raw tokens)
        if let Expr::Macro(em) = e {
            if em.mac.path.is_ident("vec") {
                if let Ok(mut elems) = em.mac.parse_body_with(punctuated::Punctuated::<Expr, Token![,]>::parse_terminated) {
                    for x in elems.iter_mut() {
                        self.visit_expr_mut(x);
                    }
                    em.mac.tokens = elems.to_token_stream();
                }
            }
        }
        // R-threads matches whole thread::spawn / thread::scope expressions: before any rule rewrites their insides
        if self.on("R-threads") {
            let line0 = e.span().start().line;
            if let Some(n) = self.r_thread_spawn(e) {
                self.record("R-threads", line0, e, &n);
                *e = n;
                return;
            }
            if let Some(n) = self.r_thread_scope(e) {
                self.record("R-threads", line0, e, &n);
                *e = n;
            }
        }
        // children first
        visit_mut::visit_expr_mut(self, e);
        let line = e.span().start().line;
        if self.on("R-par") {
            self.r_par(e);
        }
        if self.on("R-samplezip") {
            if let Some(n) = self.r_samplezip(e) {
                self.record("R-samplezip", line, e, &n);
                *e = n;
                return;
            }
        }
        if self.on("R-sampleiter") {
            if let Some(n) = self.r_sampleiter(e) {
                self.record("R-sampleiter", line, e, &n);
                *e = n;
                return;
            }
        }
        if self.on("R-foreach") {
            if let Some(n) = self.r_foreach(e) {
                self.record("R-foreach", line, e, &n);
                *e = n;
                return;
            }
        }
        if self.on("R-enum") || self.on("R-zip") || self.on("R-iterref") || self.on("R-wild") || self.on("R-axisfor") || self.on("R-formut") {
            if let Some((rule, n)) = self.r_forloop(e) {
                self.record(&rule, line, e, &n);
                *e = n;
                // element bindings introduced by the rewrite (`&X[k]`, `A.index_axis(..)`) are subject to the other rules
                if rule == "R-enum" || rule == "R-axisfor" || rule == "R-iterref" || rule == "R-zip" {
                    self.revisit_new_bindings(e);
                }
                return;
            }
        }
        if self.on("R-mapcollect") || self.on("R-flatten") {
            if let Some((rule, n)) = self.r_collect(e) {
                self.record(&rule, line, e, &n);
                *e = n;
                return;
            }
        }
        if self.on("R-fold") {
            if let Some(n) = self.r_fold(e) {
                self.record("R-fold", line, e, &n);
                *e = n;
                return;
            }
            if let Some(n) = self.r_fold_general(e) {
                self.record("R-fold", line, e, &n);
                *e = n;
                return;
            }
        }
        if self.on("R-mapsum") {
            if let Some(n) = self.r_mapsum(e) {
                self.record("R-mapsum", line, e, &n);
                *e = n;
                return;
            }
        }
        if self.on("R-sortby") {
            if let Some(n) = self.r_sortby(e) {
                self.record("R-sortby", line, e, &n);
                *e = n;
                return;
            }
        }
        if self.on("R-tostring") {
            // `x.to_string()` is `ToString::to_string(&x)`: the Display rendering
            if let Expr::MethodCall(mc) = e {
                if mc.method == "to_string" && mc.args.is_empty() && mc.turbofish.is_none() {
                    let r = &mc.receiver;
                    let n: Expr = parse_quote!( vx_to_string(&#r) );
                    self.record("R-tostring", line, e, &n);
                    *e = n;
                    return;
                }
            }
        }
        if self.on("R-ascast") {
            // `E as Ty` for a type named in the unit's map (`//@const asTy:f`): an unsizing coercion such as
            // `Arc<UInt32Array> as ArrayRef`, which Verus has no notion of; the unit names the stub carrying its contract
            if let Expr::Cast(c) = e {
                let key = format!("as{}", txt(&c.ty).replace(' ', ""));
                if let Some(f) = self.const_map.get(&key) {
                    let f = Ident::new(f, proc_macro2::Span::call_site());
                    let inner = &c.expr;
                    let n: Expr = parse_quote!( #f(#inner) );
                    self.record("R-ascast", line, e, &n);
                    *e = n;
                    return;
                }
            }
        }
        if self.on("R-into") {
            // `x.into()` is `Into::into(x)`; the unit's `vx_into` carries the conversion's contract
            if let Expr::MethodCall(mc) = e {
                if mc.method == "into" && mc.args.is_empty() && mc.turbofish.is_none() {
                    let r = &mc.receiver;
                    let n: Expr = parse_quote!( vx_into(#r) );
                    self.record("R-into", line, e, &n);
                    *e = n;
                    return;
                }
            }
        }
        if self.on("R-extendmap") {
            if let Some(n) = self.r_extendmap(e) {
                self.record("R-extendmap", line, e, &n);
                *e = n;
                // the element binding introduced by the loop (`&X[k]`) is subject to the other rules (R-index)
                visit_mut::visit_expr_mut(self, e);
                return;
            }
        }
        if self.on("R-subslice") {
            if let Some(n) = self.r_subslice(e) {
                self.record("R-subslice", line, e, &n);
                *e = n;
                return;
            }
        }
        if self.on("R-windows") {
            if let Some(n) = self.r_windows(e) {
                self.record("R-windows", line, e, &n);
                *e = n;
                return;
            }
        }
        if self.on("R-axisiter") {
            if let Some(n) = self.r_axisiter(e) {
                self.record("R-axisiter", line, e, &n);
                *e = n;
                return;
            }
        }
        if self.on("R-boolor") {
            if let Some(n) = self.r_boolor(e) {
                self.record("R-boolor", line, e, &n);
                *e = n;
                return;
            }
        }
        if self.on("R-destruct") {
            if let Some(n) = self.r_destruct(e) {
                self.record("R-destruct", line, e, &n);
                *e = n;
                return;
            }
        }
        if self.on("R-const") {
            if let Expr::Path(pth) = e {
                if let Some(id) = pth.path.get_ident() {
                    if let Some(f) = self.const_map.get(&id.to_string()) {
                        let f = Ident::new(f, proc_macro2::Span::call_site());
                        let n: Expr = parse_quote!( #f() );
                        self.record("R-const", line, e, &n);
                        *e = n;
                        return;
                    }
                }
            }
        }
        if self.on("R-binop") {
            if let Some(n) = self.r_binop(e) {
                self.record("R-binop", line, e, &n);
                *e = n;
                return;
            }
        }
        if self.on("R-index") {
            if let Some(n) = self.r_index(e) {
                self.record("R-index", line, e, &n);
                *e = n;
                return;
            }
        }
        if self.on("R-fuse") {
            if let Some(n) = self.r_fuse(e) {
                self.record("R-fuse", line, e, &n);
                *e = n;
                return;
            }
        }
        if self.on("R-lit") {
            if let Some(n) = self.r_lit(e) {
                self.record("R-lit", line, e, &n);
                *e = n;
                return;
            }
        }
        if self.on("R-cast") {
            if let Some(n) = self.r_cast(e) {
                self.record("R-cast", line, e, &n);
                *e = n;
                return;
            }
        }
        if let Some((rule, n)) = self.r_macro_expr(e) {
            self.record(&rule, line, e, &n);
            *e = n;
        }
    }
}

// ---------------------------------------------------------------------------------------
// selftest: every rule on a positive and a negative example; no other token changes.

fn run_rules(src: &str, rules: &[&str]) -> (String, Vec<String>) {
    let mut b: Block = syn::parse_str(src).expect("selftest source parses");
    let mut rw = Rewriter::new(rules.iter().map(|s| s.to_string()).collect());
    rw.visit_block_mut(&mut b);
    (txt(&b), rw.log.iter().map(|l| l.rule.clone()).collect())
}

pub fn selftest() -> i32 {
    let cases: Vec<(&str, &[&str], &str, &[&str])> = vec![
        // (source, rules, expected substring of output, expected rules fired)
        ("{ (0..n).for_each(|i| v[i] = f(i)); }", &["R-foreach"], "for i in 0 .. n { v [i] = f (i) ; }", &["R-foreach"]),
        ("{ xs.iter().for_each(|i| g(i)); }", &["R-foreach"], "xs . iter () . for_each", &[]),
        ("{ for (i, c) in self.chains.iter_mut().enumerate() { c.rng = s(i); } }", &["R-enum"], "for i in 0 .. self . chains . len () { let c = & mut self . chains [i] ; c . rng = s (i) ; }", &["R-enum"]),
        ("{ for (i, &p) in self.probs.iter().enumerate() { cum += p; } }", &["R-enum"], "let p = self . probs [i] ;", &["R-refpat", "R-enum"]),
        ("{ for (i, s) in xs.into_iter().enumerate() { g(i, s); } }", &["R-enum"], "{ let mut i : usize = 0 ; for s in xs { g (i , s) ; i += 1 ; } }", &["R-enum"]),
        ("{ for (i, c) in foo().iter().enumerate() { g(c); } }", &["R-enum"], "let __vx_recv1 = foo () ;", &["R-enum"]),
        ("{ for (&f, &t) in from.iter().zip(to.iter()) { h(f, t); } }", &["R-zip"], "for __vx_k1 in 0 .. vx_min (from . len () , to . len ()) { let f = from [__vx_k1] ; let t = to [__vx_k1] ; h (f , t) ; }", &["R-refpat", "R-zip"]),
        ("{ let v: Vec<u8> = (0..n).map(|i| f(i)).collect(); }", &["R-mapcollect"], "let mut __vx_out1 = Vec :: new () ; for i in 0 .. n { __vx_out1 . push (f (i)) ; } __vx_out1", &["R-mapcollect"]),
        ("{ let v = xs.into_iter().map(|x| f(x)).collect::<Vec<u8>>(); }", &["R-mapcollect"], "let mut __vx_out1 : Vec < u8 > = Vec :: new () ; for x in xs { __vx_out1 . push (f (x)) ; }", &["R-mapcollect"]),
        ("{ let v = xs.iter().filter(|x| p(x)).collect(); }", &["R-mapcollect"], "filter", &[]),
        ("{ let v = xs.into_iter().flatten().collect(); }", &["R-flatten"], "for __vx_row1 in xs { for __vx_x1 in __vx_row1 { __vx_out1 . push (__vx_x1) ; } }", &["R-flatten"]),
        ("{ let s = ps.iter().cloned().fold(z(), |acc, x| acc + x); }", &["R-fold"], "let mut acc = z () ; for __vx_k1 in 0 .. ps . len () { let x = ps [__vx_k1] . clone () ; acc = acc + x ; } acc", &["R-fold"]),
        ("{ let a = 0.5; let b = 1000.0; let c = 0.; let d = 2; }", &["R-lit"], "let a = fl_lit (1 , 2) ; let b = fl_lit (1000 , 1) ; let c = fl_lit (0 , 1) ; let d = 2 ;", &["R-lit", "R-lit", "R-lit"]),
        ("{ let a = n as f64; let b = x as usize; }", &["R-cast"], "let a = to_fl (n) ; let b = x as usize ;", &["R-cast"]),
        ("{ let u: f64 = r.random::<f64>(); }", &["R-f64"], "let u : Fl = r . random :: < Fl > () ;", &["R-f64", "R-f64"]),
        ("{ let r: Vec<A> = cs.par_iter_mut().map(|c| run(c)).collect(); }", &["R-par", "R-mapcollect"], "for __vx_k1 in 0 .. cs . len () { let c = & mut cs [__vx_k1] ; __vx_out1 . push (run (c)) ; }", &["R-par", "R-mapcollect"]),
        ("{ out.row_mut(i - d).assign(&arr); }", &["R-fuse"], "nd_row_assign (& mut out , i - d , & arr) ;", &["R-fuse"]),
        ("{ let m: Vec<T> = (&mut self.rng).sample_iter(StandardNormal).take(dim).collect(); }", &["R-sampleiter"], "vx_sample_n (& mut self . rng , StandardNormal , dim)", &["R-sampleiter"]),
        ("{ let m = format!(\"x {}\", e); println!(\"{}\", m); m }", &["R-fmt"], "{ let m = fmt_opaque () ; m }", &["R-fmt"]),
        ("{ assert_eq!(dim, 2, \"msg\"); }", &["R-assert"], "rt_assert (dim == 2) ;", &["R-assert"]),
        ("{ let h = x.slice(s![.., ..half, ..]); let g = x.slice(s![.., -half.., ..]); let c = d.slice(s![.., .., p]); }", &["R-smacro"], "SPatATA (half)", &["R-smacro", "R-smacro", "R-smacro"]),
        ("{ let (a, b) = xs.into_iter().fold((vec![], vec![]), |(mut a, mut b), (w, v)| { a.push(w); b.push(v); (a, b) }); }", &["R-fold"], "let mut __vx_acc1 = (vec ! [] , vec ! []) ; for __vx_x1 in xs { let (mut a , mut b) = __vx_acc1 ; let (w , v) = __vx_x1 ; a . push (w) ; b . push (v) ; __vx_acc1 = (a , b) ; } __vx_acc1", &["R-fold"]),
        ("{ let s = row.iter().map(|v| (v - cm) * (v - cm)).sum::<f32>() / n; }", &["R-mapsum"], "let mut __vx_sum1 = vx_sum_zero () ; for __vx_k1 in 0 .. row . len () { let v = & row [__vx_k1] ; __vx_sum1 = __vx_sum1 + (v - cm) * (v - cm) ; } __vx_sum1", &["R-mapsum"]),
        ("{ d.as_slice_mut().unwrap().sort_by(|a, b| c(a, b)); }", &["R-sortby"], "{ let __vx_cmp1 = | a , b | c (a , b) ; slice_sort_by (d . as_slice_mut () . unwrap () , __vx_cmp1) ; }", &["R-sortby"]),
        ("{ for &x in position.iter() { sum = sum + x * x } }", &["R-iterref"], "for __vx_k1 in 0 .. position . len () { let x = position [__vx_k1] ; sum = sum + x * x }", &["R-refpat", "R-iterref"]),
        ("{ normal.sample_iter(&mut self.rng).zip(current).map(|(x, eps)| x + *eps).collect() }", &["R-samplezip"], "for __vx_k1 in 0 .. current . len () { let x = normal . sample (& mut self . rng) ; let eps = & current [__vx_k1] ; __vx_out1 . push (x + * eps) ; } let _ = normal . sample (& mut self . rng) ; __vx_out1", &["R-samplezip"]),
        ("{ for _ in 0..n { v.push(r.random()); } }", &["R-wild"], "for __vx_i1 in 0 .. n { v . push (r . random ()) ; }", &["R-wild"]),
        ("{ (_, m, _, u) = lf(p); }", &["R-destruct"], "{ let (_ , __vx_t1 , _ , __vx_t2) = lf (p) ; m = __vx_t1 ; u = __vx_t2 ; }", &["R-destruct"]),
        ("{ let q = (z * d).sum_dim(1).squeeze(1); let m = T::f(a).r([1, 2]).e(n); let k = x.len(); let w = (z.r(2) * d).sum(); }", &["R-unchain"], "let __vx_c1 = (z * d) . sum_dim (1) ; let q = __vx_c1 . squeeze (1) ; let __vx_c2 = T :: f (a) ; let __vx_c3 = __vx_c2 . r ([1 , 2]) ; let m = __vx_c3 . e (n) ; let k = x . len () ; let __vx_c4 = z . r (2) ; let w = (__vx_c4 * d) . sum () ;", &["R-unchain", "R-unchain", "R-unchain", "R-unchain"]),
        ("{ h.extend((0..n).map(|i| format!(\"dim_{}\", i))); row.extend(obs.iter().map(|v| v.to_string())); arrays.extend(dim_arrays); }", &["R-extendmap", "R-fmtargs"], "{ for i in 0 .. n { h . push (vx_fmt1 (\"dim_{}\" , & i)) ; } } ; { for __vx_k1 in 0 .. obs . len () { let v = & obs [__vx_k1] ; row . push (v . to_string ()) ; } } ; { for __vx_x1 in dim_arrays { arrays . push (__vx_x1) ; } }", &["R-fmtargs", "R-extendmap", "R-extendmap", "R-extendmap"]),
        ("{ let r = &flat[o..o + n]; for (j, v) in flat[a..b].iter().enumerate() { g(j, v); } }", &["R-subslice", "R-enum"], "let r = vx_subslice (& flat , o , o + n) ;", &["R-subslice", "R-subslice", "R-subslice", "R-enum"]),
        ("{ for (c, ch) in data.axis_iter(Axis(0)).enumerate() { g(c, ch); } let m = format!(\"x {e:?}\"); }", &["R-axisfor", "R-fmtargs", "R-fmt"], "for c in 0 .. data . len_of (Axis (0)) { let ch = data . index_axis (Axis (0) , c) ; g (c , ch) ; } let m = fmt_opaque () ;", &["R-axisfor", "R-fmt"]),
        ("{ let mut row = vec![c.to_string(), \"chain\".to_string()]; }", &["R-tostring"], "vec ! [vx_to_string (& c) , vx_to_string (& \"chain\")]", &["R-tostring", "R-tostring"]),
        ("{ for mut b in bs { out.push(g(b.finish())); } let v: f64 = (*val).into(); }", &["R-formut", "R-into"], "for __vx_m1 in bs { let mut b = __vx_m1 ; out . push (g (b . finish ())) ; } let v : f64 = vx_into ((* val)) ;", &["R-formut", "R-into"]),
        ("{ let h = thread::spawn(move || { loop { poll(&rxs); } }); let v: Vec<A> = thread::scope(|s| { let hs: Vec<H> = cs.iter_mut().zip(txs).map(|(c, tx)| { s.spawn(|| { run(c, tx).expect(\"x\") }) }).collect(); hs.into_iter().map(|h| { h.join().expect(\"y\") }).collect() }); }", &["R-threads"], "let h = vx_thread_spawned () ; let v : Vec < A > = { let mut __vx_out1 = Vec :: new () ; let mut __vx_q1 = txs ; for __vx_k1 in 0 .. vx_min (cs . len () , __vx_q1 . len ()) { let c = & mut cs [__vx_k1] ; let tx = vx_pop_front (& mut __vx_q1) ; __vx_out1 . push (run (c , tx) . expect (\"x\")) ; } __vx_out1 } ;", &["R-threads", "R-threads"]),
        ("{ if (now >= last + freq) | (i == total - 1) { f(); } }", &["R-boolor"], "if vx_bor ((now >= last + freq) , (i == total - 1)) { f () ; }", &["R-boolor"]),
        ("{ for w in rho.windows_with_stride(2, 2) { f(w); } }", &["R-windows"], "for __vx_w1 in 0 .. vx_win_count (rho . len () , 2 , 2) { let w = nd_window (& rho , __vx_w1 * 2 , 2) ; f (w) ; }", &["R-windows"]),
        ("{ out.axis_iter_mut(Axis(1)).into_par_iter().enumerate().for_each(|(c, mut oc)| { let d = g(c); oc[3] = d; }); }", &["R-par", "R-axisiter"], "for c in 0 .. out . ncols () { let d = g (c) ; nd_set2 (& mut out , 3 , c , d) ; }", &["R-par", "R-axisiter"]),
        // nothing enabled: nothing changes
        ("{ (0..n).for_each(|i| v[i] = 0.5); }", &[], "(0 .. n) . for_each (| i | v [i] = 0.5) ;", &[]),
    ];
    let mut fails = 0;
    for (k, (src, rules, want, fired)) in cases.iter().enumerate() {
        let (out, log) = run_rules(src, rules);
        let ok_txt = out.contains(want);
        let ok_log = log.iter().map(|s| s.as_str()).collect::<Vec<_>>() == fired.to_vec();
        if !(ok_txt && ok_log) {
            fails += 1;
            eprintln!("selftest case {} FAILED\n  src : {}\n  out : {}\n  want: {}\n  fired: {:?} want {:?}", k, src, out, want, log, fired);
        }
    }
    println!("vx selftest: {} cases, {} failed", cases.len(), fails);
    if fails == 0 { 0 } else { 1 }
}
