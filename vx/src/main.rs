//! vx — mechanical extractor of function bodies from /repo for the Verus units.
//!
//! Reads a JSON request (file, item selector, enabled rewrite rules, closure typings, anchors),
//! parses the *current* source with syn, applies only the catalogue rules of DESIGN.md §2.1,
//! inserts markers (loop labels `'vxl_N`, closure return markers `__VxCRet_N`, anchor macros
//! `__vx_anchor!(name);`) and prints the body with prettyplease.  Contract text is spliced by
//! the Python driver; nothing executable is written by hand.
//!
//! Usage: vx extract <request.json>      -> JSON on stdout
//!        vx selftest                    -> runs every rule on positive/negative examples

use quote::{quote, ToTokens};
use regex::Regex;
use serde::{Deserialize, Serialize};
use std::collections::BTreeMap;
use std::collections::HashSet;
use syn::visit_mut::{self, VisitMut};
use syn::*;

mod rules;
use rules::*;

#[derive(Deserialize)]
struct Request {
    repo: String,
    items: Vec<ItemReq>,
}

#[derive(Deserialize, Default)]
pub struct ItemReq {
    pub id: String,
    pub file: String,
    pub kind: String, // "fn" | "struct"
    pub name: String,
    #[serde(default)]
    pub impl_self: Option<String>,
    #[serde(default)]
    pub impl_trait: Option<String>,
    #[serde(default)]
    pub in_trait: Option<String>,
    #[serde(default)]
    pub rules: Vec<String>,
    #[serde(default)]
    pub closures: BTreeMap<String, ClosureReq>,
    #[serde(default)]
    pub anchors: Vec<AnchorReq>,
    #[serde(default)]
    pub drop_fields: Vec<String>,
    /// identifiers of generic parameters that stand for the float type (R-float bookkeeping only)
    #[serde(default)]
    pub float_params: Vec<String>,
    /// R-index: variable name -> indexing function, for `X[i]` on foreign containers
    #[serde(default)]
    pub index_map: BTreeMap<String, String>,
    #[serde(default)]
    pub binop_map: BTreeMap<String, String>,
    /// R-const: name of a module-level constant -> function returning its (extracted) value
    #[serde(default)]
    pub const_map: BTreeMap<String, String>,
    /// statement slice: keep only the top-level statements from the first one matching `slice_from` up to and including the
    /// first one at or after it matching `slice_to` (regexes over the normalised statement text); everything else in the
    /// function body is dropped and reported in `dropped`
    #[serde(default)]
    pub slice_from: Option<String>,
    #[serde(default)]
    pub slice_to: Option<String>,
    /// the variable the slice computes: appended as the tail expression after every anchor
    #[serde(default)]
    pub slice_result: Option<String>,
    /// alpha-renaming of locals: the `let` statement whose text matches `match` (capture group 1 = the bound name) binds a
    /// local that the unit calls `to`; if the source uses another name, every occurrence in the body is renamed
    #[serde(default)]
    pub renames: Vec<RenameReq>,
}

#[derive(Deserialize, Default, Clone)]
pub struct RenameReq {
    pub to: String,
    pub r#match: String,
}

#[derive(Deserialize, Default, Clone)]
pub struct ClosureReq {
    /// "name: Type" per parameter (the name must equal the source parameter's name)
    pub params: Vec<String>,
    /// if set: the closure is let-bound under this name just before the statement it occurs in
    /// (closure construction has no effect; ghost code can then mention the closure)
    #[serde(default)]
    pub bind: Option<String>,
}

#[derive(Deserialize, Default, Clone)]
pub struct AnchorReq {
    pub name: String,
    /// "fn" or "loop:N"
    pub scope: String,
    /// "before" | "after" | "start" | "end"
    pub pos: String,
    #[serde(default)]
    pub r#match: String,
    #[serde(default)]
    pub nth: usize,
}

#[derive(Serialize, Default)]
struct ItemResp {
    id: String,
    ok: bool,
    error: Option<String>,
    file: String,
    line_start: usize,
    line_end: usize,
    orig_sig: String,
    src_hash: String,
    body: String,
    n_loops: usize,
    n_closures: usize,
    rewrites: Vec<RewriteLog>,
    dropped: Vec<String>,
    fields: Vec<String>,
}

#[derive(Serialize)]
struct Response {
    items: Vec<ItemResp>,
}

fn last_seg_of_path(p: &Path) -> String {
    p.segments.last().map(|s| s.ident.to_string()).unwrap_or_default()
}
fn last_seg(ty: &Type) -> String {
    match ty {
        Type::Path(tp) => last_seg_of_path(&tp.path),
        Type::Reference(r) => last_seg(&r.elem),
        Type::Paren(p) => last_seg(&p.elem),
        _ => String::new(),
    }
}

fn norm_tokens(ts: proc_macro2::TokenStream) -> String {
    let s = ts.to_string();
    let re = Regex::new(r"\s+").unwrap();
    re.replace_all(&s, " ").trim().to_string()
}

fn fnv(s: &str) -> String {
    let mut h: u64 = 0xcbf29ce484222325;
    for b in s.bytes() {
        h ^= b as u64;
        h = h.wrapping_mul(0x100000001b3);
    }
    format!("{:016x}", h)
}

struct Found {
    sig: Signature,
    block: Block,
    line_start: usize,
    line_end: usize,
}

fn find_fn(file: &File, req: &ItemReq) -> std::result::Result<Found, String> {
    let mut found: Vec<Found> = vec![];
    if req.kind == "const" {
        for item in &file.items {
            if let Item::Const(c) = item {
                if c.ident == req.name {
                    let e = &c.expr;
                    let ty = &c.ty;
                    let id = &c.ident;
                    let sig: Signature = parse_quote!( fn #id() -> #ty );
                    let block: Block = parse_quote!({ #e });
                    return Ok(Found { sig, block, line_start: c.const_token.span.start().line, line_end: c.semi_token.span.end().line });
                }
            }
        }
        return Err(format!("lost anchor: const `{}` not found", req.name));
    }
    for item in &file.items {
        match item {
            Item::Fn(f) if req.impl_self.is_none() && req.in_trait.is_none() => {
                if f.sig.ident == req.name {
                    found.push(Found {
                        sig: f.sig.clone(),
                        block: (*f.block).clone(),
                        line_start: f.sig.fn_token.span.start().line,
                        line_end: f.block.brace_token.span.close().end().line,
                    });
                }
            }
            Item::Impl(imp) if req.impl_self.is_some() => {
                if last_seg(&imp.self_ty) != *req.impl_self.as_ref().unwrap() {
                    continue;
                }
                let tr = imp.trait_.as_ref().map(|(_, p, _)| last_seg_of_path(p));
                if tr != req.impl_trait {
                    continue;
                }
                for ii in &imp.items {
                    if let ImplItem::Fn(f) = ii {
                        if f.sig.ident == req.name {
                            found.push(Found {
                                sig: f.sig.clone(),
                                block: f.block.clone(),
                                line_start: f.sig.fn_token.span.start().line,
                                line_end: f.block.brace_token.span.close().end().line,
                            });
                        }
                    }
                }
            }
            Item::Trait(t) if req.in_trait.is_some() => {
                if t.ident != req.in_trait.as_ref().unwrap() {
                    continue;
                }
                for ti in &t.items {
                    if let TraitItem::Fn(f) = ti {
                        if f.sig.ident == req.name {
                            if let Some(b) = &f.default {
                                found.push(Found {
                                    sig: f.sig.clone(),
                                    block: b.clone(),
                                    line_start: f.sig.fn_token.span.start().line,
                                    line_end: b.brace_token.span.close().end().line,
                                });
                            }
                        }
                    }
                }
            }
            _ => {}
        }
    }
    match found.len() {
        0 => Err(format!("lost anchor: function `{}` not found (impl_self={:?}, impl_trait={:?}, in_trait={:?})", req.name, req.impl_self, req.impl_trait, req.in_trait)),
        1 => Ok(found.pop().unwrap()),
        n => Err(format!("ambiguous anchor: {} definitions of `{}`", n, req.name)),
    }
}

fn extract_struct(file: &File, req: &ItemReq, resp: &mut ItemResp) -> std::result::Result<(), String> {
    for item in &file.items {
        if let Item::Struct(s) = item {
            if s.ident == req.name {
                resp.line_start = s.struct_token.span.start().line;
                resp.orig_sig = norm_tokens(s.ident.to_token_stream());
                let mut fields = vec![];
                let mut hash_src = String::new();
                if let Fields::Named(named) = &s.fields {
                    for f in &named.named {
                        let n = f.ident.as_ref().unwrap().to_string();
                        let mut fty = f.ty.clone();
                        {
                            // type-level rules (R-f64) apply to field types as well
                            let mut rw = Rewriter::new(req.rules.iter().cloned().collect());
                            rw.visit_type_mut(&mut fty);
                        }
                        let t = norm_tokens(fty.to_token_stream());
                        hash_src.push_str(&format!("{}:{};", n, t));
                        if req.drop_fields.contains(&n) {
                            resp.dropped.push(format!("field `{}: {}` (listed in drop_fields)", n, t));
                            continue;
                        }
                        fields.push(format!("pub {}: {},", n, t));
                    }
                    resp.line_end = named.brace_token.span.close().end().line;
                } else {
                    return Err("struct is not a named-field struct".into());
                }
                resp.fields = fields;
                resp.src_hash = fnv(&hash_src);
                resp.dropped.push("attributes, derives, visibility, generic bounds of the struct".into());
                return Ok(());
            }
        }
    }
    Err(format!("lost anchor: struct `{}` not found", req.name))
}

/// Assign loop labels in pre-order and collect closure indices; set closure param types and marker return types.
struct Marker<'a> {
    n_loops: usize,
    n_closures: usize,
    closures: &'a BTreeMap<String, ClosureReq>,
    errors: Vec<String>,
    pending: Vec<(proc_macro2::Ident, Expr)>,
}
impl<'a> Marker<'a> {
    fn label(&mut self) -> Label {
        self.n_loops += 1;
        let lt = Lifetime::new(&format!("'vxl_{}", self.n_loops), proc_macro2::Span::call_site());
        Label { name: lt, colon_token: Default::default() }
    }
}
impl<'a> VisitMut for Marker<'a> {
    fn visit_block_mut(&mut self, b: &mut Block) {
        let outer = std::mem::take(&mut self.pending);
        let mut out: Vec<Stmt> = Vec::with_capacity(b.stmts.len());
        for mut s in b.stmts.drain(..) {
            self.visit_stmt_mut(&mut s);
            for (name, cl) in self.pending.drain(..) {
                out.push(parse_quote!( let #name = #cl; ));
            }
            out.push(s);
        }
        b.stmts = out;
        self.pending = outer;
    }
    fn visit_expr_mut(&mut self, e: &mut Expr) {
        match e {
            Expr::ForLoop(l) => {
                if l.label.is_none() {
                    l.label = Some(self.label());
                } else {
                    self.errors.push("unsupported construct: labelled loop in source".into());
                }
            }
            Expr::While(l) => {
                if l.label.is_none() {
                    l.label = Some(self.label());
                } else {
                    self.errors.push("unsupported construct: labelled loop in source".into());
                }
            }
            Expr::Loop(l) => {
                if l.label.is_none() {
                    l.label = Some(self.label());
                } else {
                    self.errors.push("unsupported construct: labelled loop in source".into());
                }
            }
            Expr::Closure(c) => {
                self.n_closures += 1;
                let k = self.n_closures;
                if let Some(cr) = self.closures.get(&k.to_string()) {
                    if cr.params.len() != c.inputs.len() {
                        self.errors.push(format!("closure {}: overlay names {} params, source has {}", k, cr.params.len(), c.inputs.len()));
                    } else {
                        let mut new_inputs = syn::punctuated::Punctuated::new();
                        for (p, spec) in c.inputs.iter().zip(cr.params.iter()) {
                            let (nm, ty) = match spec.split_once(':') {
                                Some(x) => x,
                                None => {
                                    self.errors.push(format!("closure {}: bad param spec `{}`", k, spec));
                                    continue;
                                }
                            };
                            let src_name = match p {
                                Pat::Ident(pi) => pi.ident.to_string(),
                                Pat::Type(pt) => norm_tokens(pt.pat.to_token_stream()),
                                Pat::Wild(_) => "_".to_string(),
                                other => norm_tokens(other.to_token_stream()),
                            };
                            if src_name != nm.trim() {
                                self.errors.push(format!("closure {}: overlay param `{}` but source param is `{}` (signature drift)", k, nm.trim(), src_name));
                            }
                            let ty: Type = match syn::parse_str(ty.trim()) {
                                Ok(t) => t,
                                Err(e) => {
                                    self.errors.push(format!("closure {}: cannot parse type `{}`: {}", k, ty, e));
                                    continue;
                                }
                            };
                            let inner: Pat = match p {
                                Pat::Type(pt) => (*pt.pat).clone(),
                                other => other.clone(),
                            };
                            new_inputs.push(Pat::Type(PatType { attrs: vec![], pat: Box::new(inner), colon_token: Default::default(), ty: Box::new(ty) }));
                        }
                        c.inputs = new_inputs;
                        let marker: Type = syn::parse_str(&format!("__VxCRet_{}", k)).unwrap();
                        c.output = ReturnType::Type(Default::default(), Box::new(marker));
                        if !matches!(*c.body, Expr::Block(_)) {
                            let b = &c.body;
                            c.body = Box::new(parse_quote!({ #b }));
                        }
                    }
                }
            }
            _ => {}
        }
        let bind_name: Option<String> = if let Expr::Closure(_) = e {
            self.closures.get(&self.n_closures.to_string()).and_then(|c| c.bind.clone())
        } else {
            None
        };
        let my_index = self.n_closures;
        visit_mut::visit_expr_mut(self, e);
        if let Some(nm) = bind_name {
            let _ = my_index;
            let id = proc_macro2::Ident::new(&nm, proc_macro2::Span::call_site());
            let cl = std::mem::replace(e, parse_quote!( #id ));
            self.pending.push((id, cl));
        }
    }
}

fn stmt_text(s: &Stmt) -> String {
    norm_tokens(s.to_token_stream())
}

fn anchor_stmt(name: &str) -> Stmt {
    let id = proc_macro2::Ident::new(name, proc_macro2::Span::call_site());
    parse_quote!( __vx_anchor!(#id); )
}

/// anchor next to a `let <ident> = ..;` statement: the marker also carries the bound name (`$lhs` in anchor text)
fn anchor_stmt_at(name: &str, matched: &Stmt) -> Stmt {
    let id = proc_macro2::Ident::new(name, proc_macro2::Span::call_site());
    if let Stmt::Local(l) = matched {
        let mut pat = &l.pat;
        if let syn::Pat::Type(pt) = pat { pat = &pt.pat; }
        if let syn::Pat::Ident(pi) = pat {
            let lhs = &pi.ident;
            return parse_quote!( __vx_anchor!(#id, #lhs); );
        }
    }
    parse_quote!( __vx_anchor!(#id); )
}

/// Insert anchors into a block's statement list. Returns the names placed.
fn is_block_like(e: &Expr) -> bool {
    matches!(e, Expr::If(_) | Expr::Match(_) | Expr::ForLoop(_) | Expr::While(_) | Expr::Loop(_) | Expr::Block(_) | Expr::Unsafe(_))
}

/// `unit_block`: the block's value is `()` (a loop body), so statements may follow its last expression.
/// `start`/`end` anchors go into the scope's root block; `before`/`after` anchors search the root block and
/// every block nested in it (if/else/match arms/inner loops) in pre-order; the match must be unique
/// (nth = 0) or the nth one is taken.
fn place_anchors_in_block(block: &mut Block, anchors: &[AnchorReq], placed: &mut Vec<String>, errors: &mut Vec<String>, unit_block: bool) {
    if unit_block {
        if let Some(Stmt::Expr(e, semi @ None)) = block.stmts.last_mut() {
            if !is_block_like(e) {
                *semi = Some(Default::default());
            }
        }
    }
    // matched anchors first (they do not depend on start/end insertions)
    for a in anchors.iter().filter(|a| a.pos == "before" || a.pos == "after") {
        let re = match Regex::new(&a.r#match) {
            Ok(r) => r,
            Err(e) => {
                errors.push(format!("anchor {}: bad regex: {}", a.name, e));
                continue;
            }
        };
        // count
        struct Counter<'r> { re: &'r Regex, n: usize }
        impl<'r> VisitMut for Counter<'r> {
            fn visit_block_mut(&mut self, b: &mut Block) {
                for s in &b.stmts {
                    if !is_anchor(s) && self.re.is_match(&stmt_text(s)) { self.n += 1; }
                }
                visit_mut::visit_block_mut(self, b);
            }
        }
        let mut c = Counter { re: &re, n: 0 };
        c.visit_block_mut(block);
        let target = if a.nth == 0 {
            if c.n != 1 {
                errors.push(format!("lost anchor `{}`: /{}/ matches {} statements in scope {}", a.name, a.r#match, c.n, a.scope));
                continue;
            }
            1
        } else {
            if c.n < a.nth {
                errors.push(format!("lost anchor `{}`: /{}/ has only {} matches in scope {}", a.name, a.r#match, c.n, a.scope));
                continue;
            }
            a.nth
        };
        struct Ins<'r> { re: &'r Regex, seen: usize, target: usize, after: bool, name: String, done: bool, err: Option<String> }
        impl<'r> VisitMut for Ins<'r> {
            fn visit_block_mut(&mut self, b: &mut Block) {
                if self.done { return; }
                let mut at: Option<usize> = None;
                for (i, s) in b.stmts.iter().enumerate() {
                    if !is_anchor(s) && self.re.is_match(&stmt_text(s)) {
                        self.seen += 1;
                        if self.seen == self.target { at = Some(i); break; }
                    }
                }
                if let Some(i) = at {
                    self.done = true;
                    if self.after {
                        let n_stmts = b.stmts.len();
                        if let Stmt::Expr(e, semi @ None) = &mut b.stmts[i] {
                            if i + 1 == n_stmts {
                                // tail expression of its block: a following statement changes the block's value
                                // unless the expression is block-like of unit type; refuse otherwise
                                if !is_block_like(e) {
                                    self.err = Some(format!("anchor `{}` would follow the tail expression of its block", self.name));
                                    return;
                                }
                            } else if !is_block_like(e) {
                                *semi = Some(Default::default());
                            }
                        }
                        let st = anchor_stmt_at(&self.name, &b.stmts[i]);
                        b.stmts.insert(i + 1, st);
                    } else {
                        let st = anchor_stmt_at(&self.name, &b.stmts[i]);
                        b.stmts.insert(i, st);
                    }
                    return;
                }
                visit_mut::visit_block_mut(self, b);
            }
        }
        let mut ins = Ins { re: &re, seen: 0, target, after: a.pos == "after", name: a.name.clone(), done: false, err: None };
        ins.visit_block_mut(block);
        if let Some(e) = ins.err {
            errors.push(e);
        } else if ins.done {
            placed.push(a.name.clone());
        } else {
            errors.push(format!("lost anchor `{}`", a.name));
        }
    }
    // end anchors (in request order), then start anchors (reverse order so the first ends up first)
    for a in anchors.iter().filter(|a| a.pos == "end") {
        let n = block.stmts.len();
        let mut idx = n;
        if n > 0 && !unit_block {
            if let Stmt::Expr(_, None) = &block.stmts[n - 1] {
                idx = n - 1;
            }
        }
        block.stmts.insert(idx, anchor_stmt(&a.name));
        placed.push(a.name.clone());
    }
    for a in anchors.iter().filter(|a| a.pos == "start").collect::<Vec<_>>().into_iter().rev() {
        block.stmts.insert(0, anchor_stmt(&a.name));
        placed.push(a.name.clone());
    }
    for a in anchors {
        if !["before", "after", "start", "end"].contains(&a.pos.as_str()) {
            errors.push(format!("anchor {}: unknown pos `{}`", a.name, a.pos));
        }
    }
}

fn is_anchor(s: &Stmt) -> bool {
    match s {
        Stmt::Macro(m) => m.mac.path.is_ident("__vx_anchor"),
        _ => false,
    }
}

struct LoopAnchorPlacer<'a> {
    by_loop: BTreeMap<usize, Vec<AnchorReq>>,
    placed: &'a mut Vec<String>,
    errors: &'a mut Vec<String>,
}
impl<'a> VisitMut for LoopAnchorPlacer<'a> {
    fn visit_expr_mut(&mut self, e: &mut Expr) {
        let (label, body): (Option<&Label>, Option<&mut Block>) = match e {
            Expr::ForLoop(l) => (l.label.as_ref(), Some(&mut l.body)),
            Expr::While(l) => (l.label.as_ref(), Some(&mut l.body)),
            Expr::Loop(l) => (l.label.as_ref(), Some(&mut l.body)),
            _ => (None, None),
        };
        if let (Some(lb), Some(body)) = (label, body) {
            let s = lb.name.ident.to_string();
            if let Some(k) = s.strip_prefix("vxl_").and_then(|x| x.parse::<usize>().ok()) {
                if let Some(list) = self.by_loop.remove(&k) {
                    place_anchors_in_block(body, &list, self.placed, self.errors, true);
                }
            }
        }
        visit_mut::visit_expr_mut(self, e);
    }
}

fn extract_fn(file: &File, req: &ItemReq, resp: &mut ItemResp) -> std::result::Result<(), String> {
    let found = find_fn(file, req)?;
    resp.line_start = found.line_start;
    resp.line_end = found.line_end;
    resp.orig_sig = norm_tokens(found.sig.to_token_stream());
    resp.src_hash = fnv(&format!("{} {}", resp.orig_sig, norm_tokens(found.block.to_token_stream())));
    let mut block = found.block;

    // 0a. statement slice (a contract on a contiguous run of top-level statements of a function that is otherwise out of reach)
    let mut slice_note: Option<String> = None;
    if let (Some(from), Some(to)) = (&req.slice_from, &req.slice_to) {
        let rf = Regex::new(from).map_err(|e| format!("slice_from: bad regex: {}", e))?;
        let rt = Regex::new(to).map_err(|e| format!("slice_to: bad regex: {}", e))?;
        let n_from = block.stmts.iter().filter(|s| rf.is_match(&stmt_text(s))).count();
        if n_from != 1 {
            return Err(format!("lost anchor: slice_from /{}/ matches {} top-level statements", from, n_from));
        }
        let i0 = block.stmts.iter().position(|s| rf.is_match(&stmt_text(s))).unwrap();
        let i1 = match block.stmts.iter().enumerate().skip(i0).find(|(_, s)| rt.is_match(&stmt_text(s))) {
            Some((i, _)) => i,
            None => return Err(format!("lost anchor: slice_to /{}/ matches no top-level statement at or after slice_from", to)),
        };
        let total = block.stmts.len();
        let kept: Vec<Stmt> = block.stmts.drain(..).enumerate().filter(|(i, _)| *i >= i0 && *i <= i1).map(|(_, s)| s).collect();
        block.stmts = kept;
        // the last kept statement must not be read as the block's value
        if let Some(Stmt::Expr(e, semi @ None)) = block.stmts.last_mut() {
            if !is_block_like(e) { *semi = Some(Default::default()); }
        }
        slice_note = Some(format!("statement slice: top-level statements {}..={} of {} kept; the {} before and the {} after them are not part of this item", i0 + 1, i1 + 1, total, i0, total - 1 - i1));
    }

    // 0. R-mutself: `fn f(mut self, ..)` is `fn f(self, ..) { let mut __vx_self = self; .. }` with every
    //    use of `self` in the body renamed (Verus has no `mut self` parameters)
    let mut pre_log: Vec<RewriteLog> = vec![];
    if req.rules.iter().any(|r| r == "R-mutself") {
        if let Some(FnArg::Receiver(rc)) = found.sig.inputs.first() {
            if rc.reference.is_none() && rc.mutability.is_some() {
                struct Ren;
                impl VisitMut for Ren {
                    fn visit_ident_mut(&mut self, i: &mut proc_macro2::Ident) {
                        if i == "self" {
                            *i = proc_macro2::Ident::new("__vx_self", i.span());
                        }
                    }
                    fn visit_macro_mut(&mut self, m: &mut Macro) {
                        // rename inside macro token streams as well (e.g. vec![self.x])
                        fn ren(ts: proc_macro2::TokenStream) -> proc_macro2::TokenStream {
                            ts.into_iter().map(|tt| match tt {
                                proc_macro2::TokenTree::Ident(i) if i == "self" => proc_macro2::TokenTree::Ident(proc_macro2::Ident::new("__vx_self", i.span())),
                                proc_macro2::TokenTree::Group(g) => {
                                    let mut ng = proc_macro2::Group::new(g.delimiter(), ren(g.stream()));
                                    ng.set_span(g.span());
                                    proc_macro2::TokenTree::Group(ng)
                                }
                                other => other,
                            }).collect()
                        }
                        m.tokens = ren(m.tokens.clone());
                    }
                }
                Ren.visit_block_mut(&mut block);
                block.stmts.insert(0, parse_quote!( let mut __vx_self = self; ));
                pre_log.push(RewriteLog { rule: "R-mutself".into(), line: found.line_start, before: "mut self".into(), after: "self + `let mut __vx_self = self;` and self -> __vx_self in the body".into() });
            }
        }
    }

    // 0b. alpha-renaming of locals the unit refers to by name (semantics-preserving: a consistent renaming of one binding
    //     and all its uses; refused when the new name is already in use in the body)
    for rn in &req.renames {
        let re = Regex::new(&rn.r#match).map_err(|e| format!("rename {}: bad regex: {}", rn.to, e))?;
        struct Find<'r> { re: &'r Regex, names: Vec<String> }
        impl<'r> VisitMut for Find<'r> {
            fn visit_block_mut(&mut self, b: &mut Block) {
                for st in &b.stmts {
                    if let Stmt::Local(_) = st {
                        if let Some(c) = self.re.captures(&stmt_text(st)) {
                            if let Some(m) = c.get(1) { self.names.push(m.as_str().to_string()); }
                        }
                    }
                }
                visit_mut::visit_block_mut(self, b);
            }
        }
        let mut f = Find { re: &re, names: vec![] };
        f.visit_block_mut(&mut block);
        f.names.dedup();
        if f.names.len() != 1 {
            return Err(format!("lost anchor: rename `{}`: /{}/ matches {} let statements", rn.to, rn.r#match, f.names.len()));
        }
        let old = f.names[0].clone();
        if old == rn.to { continue; }
        struct Uses { name: String, n: usize }
        impl VisitMut for Uses {
            fn visit_ident_mut(&mut self, i: &mut proc_macro2::Ident) { if *i == self.name.as_str() { self.n += 1; } }
            fn visit_macro_mut(&mut self, m: &mut Macro) {
                fn cnt(ts: proc_macro2::TokenStream, name: &str) -> usize {
                    ts.into_iter().map(|tt| match tt {
                        proc_macro2::TokenTree::Ident(i) => (i == name) as usize,
                        proc_macro2::TokenTree::Group(g) => cnt(g.stream(), name),
                        _ => 0,
                    }).sum()
                }
                self.n += cnt(m.tokens.clone(), &self.name);
            }
        }
        let mut u = Uses { name: rn.to.clone(), n: 0 };
        u.visit_block_mut(&mut block);
        if u.n > 0 {
            return Err(format!("lost anchor: rename `{}` <- `{}`: the name `{}` is already used in the body", rn.to, old, rn.to));
        }
        struct RenL { from: String, to: String }
        impl VisitMut for RenL {
            fn visit_ident_mut(&mut self, i: &mut proc_macro2::Ident) {
                if *i == self.from.as_str() { *i = proc_macro2::Ident::new(&self.to, i.span()); }
            }
            fn visit_macro_mut(&mut self, m: &mut Macro) {
                fn ren(ts: proc_macro2::TokenStream, from: &str, to: &str) -> proc_macro2::TokenStream {
                    ts.into_iter().map(|tt| match tt {
                        proc_macro2::TokenTree::Ident(i) if i == from => proc_macro2::TokenTree::Ident(proc_macro2::Ident::new(to, i.span())),
                        proc_macro2::TokenTree::Group(g) => {
                            let mut ng = proc_macro2::Group::new(g.delimiter(), ren(g.stream(), from, to));
                            ng.set_span(g.span());
                            proc_macro2::TokenTree::Group(ng)
                        }
                        other => other,
                    }).collect()
                }
                m.tokens = ren(m.tokens.clone(), &self.from, &self.to);
            }
        }
        RenL { from: old.clone(), to: rn.to.clone() }.visit_block_mut(&mut block);
        pre_log.push(RewriteLog { rule: "R-alpha".into(), line: found.line_start, before: format!("local `{}`", old), after: format!("renamed to `{}` (the unit's name for the local bound by /{}/)", rn.to, rn.r#match) });
    }

    // 1. rewrite rules
    let enabled: HashSet<String> = req.rules.iter().cloned().collect();
    let mut rw = Rewriter::new(enabled);
    rw.index_map = req.index_map.clone();
    rw.binop_map = req.binop_map.clone();
    rw.const_map = req.const_map.clone();
    rw.visit_block_mut(&mut block);
    resp.rewrites = pre_log;
    resp.rewrites.extend(std::mem::take(&mut rw.log));
    resp.dropped = std::mem::take(&mut rw.dropped);
    if let Some(n) = slice_note { resp.dropped.push(n); }
    if !rw.errors.is_empty() {
        return Err(rw.errors.join("; "));
    }

    // 2. markers
    let mut mk = Marker { n_loops: 0, n_closures: 0, closures: &req.closures, errors: vec![], pending: vec![] };
    mk.visit_block_mut(&mut block);
    resp.n_loops = mk.n_loops;
    resp.n_closures = mk.n_closures;
    if !mk.errors.is_empty() {
        return Err(mk.errors.join("; "));
    }
    for k in req.closures.keys() {
        let kk: usize = k.parse().map_err(|_| format!("bad closure index {}", k))?;
        if kk == 0 || kk > mk.n_closures {
            return Err(format!("lost anchor: closure {} (function has {} closures)", kk, mk.n_closures));
        }
    }

    // 3. anchors
    let mut placed = vec![];
    let mut errors = vec![];
    let fn_anchors: Vec<AnchorReq> = req.anchors.iter().filter(|a| a.scope == "fn").cloned().collect();
    let mut by_loop: BTreeMap<usize, Vec<AnchorReq>> = BTreeMap::new();
    for a in req.anchors.iter().filter(|a| a.scope != "fn") {
        match a.scope.strip_prefix("loop:").and_then(|x| x.parse::<usize>().ok()) {
            Some(k) if k >= 1 && k <= mk.n_loops => by_loop.entry(k).or_default().push(a.clone()),
            _ => errors.push(format!("lost anchor `{}`: scope `{}` (function has {} loops)", a.name, a.scope, mk.n_loops)),
        }
    }
    {
        let mut lap = LoopAnchorPlacer { by_loop, placed: &mut placed, errors: &mut errors };
        lap.visit_block_mut(&mut block);
    }
    // a function returning `()` may have statements after its last (block-like) expression
    // (a statement slice has no tail expression of its own either: end-anchors go after its last statement)
    let unit_ret = matches!(found.sig.output, ReturnType::Default) || req.slice_from.is_some();
    place_anchors_in_block(&mut block, &fn_anchors, &mut placed, &mut errors, unit_ret);
    for a in &req.anchors {
        if !placed.contains(&a.name) && errors.is_empty() {
            errors.push(format!("lost anchor `{}`", a.name));
        }
    }
    if !errors.is_empty() {
        return Err(errors.join("; "));
    }
    if let Some(res) = &req.slice_result {
        let e: Expr = syn::parse_str(res).map_err(|e| format!("slice_result: {}", e))?;
        block.stmts.push(Stmt::Expr(e, None));
    }

    // 4. print
    let f: ItemFn = parse_quote!( fn __vx_body() #block );
    let file2 = File { shebang: None, attrs: vec![], items: vec![Item::Fn(f)] };
    let printed = prettyplease::unparse(&file2);
    let mut lines: Vec<&str> = printed.lines().collect();
    // strip `fn __vx_body() {` and the closing `}`
    if lines.first().map(|l| l.trim_start().starts_with("fn __vx_body()")).unwrap_or(false) {
        lines.remove(0);
    } else {
        return Err("internal: unexpected printer output".into());
    }
    while lines.last().map(|l| l.trim().is_empty()).unwrap_or(false) {
        lines.pop();
    }
    if lines.last().map(|l| l.trim() == "}").unwrap_or(false) {
        lines.pop();
    } else if printed.trim_end().ends_with("{}") {
        // empty body printed on one line
    }
    resp.body = lines.join("\n");
    resp.dropped.push("doc comments, attributes, visibility, original generics and where clauses of the function (bounds are re-declared by the unit)".into());
    Ok(())
}

fn main() {
    let args: Vec<String> = std::env::args().collect();
    if args.len() >= 2 && args[1] == "selftest" {
        std::process::exit(rules::selftest());
    }
    if args.len() < 3 || args[1] != "extract" {
        eprintln!("usage: vx extract <request.json> | vx selftest");
        std::process::exit(2);
    }
    let req_text = std::fs::read_to_string(&args[2]).expect("read request");
    let req: Request = serde_json::from_str(&req_text).expect("parse request");
    let mut cache: BTreeMap<String, std::result::Result<File, String>> = BTreeMap::new();
    let mut out = Response { items: vec![] };
    for it in &req.items {
        let mut resp = ItemResp { id: it.id.clone(), file: it.file.clone(), ..Default::default() };
        let path = format!("{}/{}", req.repo, it.file);
        let parsed = cache.entry(path.clone()).or_insert_with(|| {
            let src = std::fs::read_to_string(&path).map_err(|e| format!("lost anchor: cannot read {}: {}", path, e))?;
            syn::parse_file(&src).map_err(|e| format!("cannot parse {}: {}", path, e))
        });
        let r = match parsed {
            Err(e) => Err(e.clone()),
            Ok(file) => match it.kind.as_str() {
                "fn" | "const" => extract_fn(file, it, &mut resp),
                "struct" => extract_struct(file, it, &mut resp),
                k => Err(format!("unknown kind {}", k)),
            },
        };
        match r {
            Ok(()) => resp.ok = true,
            Err(e) => {
                resp.ok = false;
                resp.error = Some(e);
            }
        }
        out.items.push(resp);
    }
    println!("{}", serde_json::to_string_pretty(&out).unwrap());
    let _ = quote!();
}
