use vstd::prelude::*;
use vstd::std_specs::ops::*;
use vstd::std_specs::cmp::*;
verus! {
pub enum XR { NaN, NegInf, PosInf, Fin(real) }

#[verifier::external_body]
#[derive(Clone, Copy)]
pub struct Fl { v: f64 }

pub uninterp spec fn val(f: Fl) -> XR;
pub uninterp spec fn mk(x: XR) -> Fl;
pub broadcast axiom fn ax_mk(x: XR) ensures #[trigger] val(mk(x)) == x;

pub open spec fn xr_neg(a: XR) -> XR {
    match a { XR::NaN => XR::NaN, XR::NegInf => XR::PosInf, XR::PosInf => XR::NegInf, XR::Fin(x) => XR::Fin(-x) }
}
pub open spec fn xr_add(a: XR, b: XR) -> XR {
    match (a, b) {
        (XR::NaN, _) => XR::NaN,
        (_, XR::NaN) => XR::NaN,
        (XR::PosInf, XR::NegInf) => XR::NaN,
        (XR::NegInf, XR::PosInf) => XR::NaN,
        (XR::PosInf, _) => XR::PosInf,
        (_, XR::PosInf) => XR::PosInf,
        (XR::NegInf, _) => XR::NegInf,
        (_, XR::NegInf) => XR::NegInf,
        (XR::Fin(x), XR::Fin(y)) => XR::Fin(x + y),
    }
}
pub open spec fn xr_sub(a: XR, b: XR) -> XR { xr_add(a, xr_neg(b)) }
pub open spec fn xr_gt(a: XR, b: XR) -> bool {
    match (a, b) {
        (XR::NaN, _) => false,
        (_, XR::NaN) => false,
        (XR::PosInf, XR::PosInf) => false,
        (XR::PosInf, _) => true,
        (_, XR::PosInf) => false,
        (XR::NegInf, _) => false,
        (_, XR::NegInf) => true,
        (XR::Fin(x), XR::Fin(y)) => x > y,
    }
}
pub uninterp spec fn xr_ln(a: XR) -> XR;

impl core::ops::Add for Fl {
    type Output = Fl;
    #[verifier::external_body]
    fn add(self, rhs: Fl) -> (r: Fl) { Fl { v: self.v + rhs.v } }
}
impl AddSpecImpl for Fl {
    open spec fn obeys_add_spec() -> bool { true }
    open spec fn add_req(self, rhs: Fl) -> bool { true }
    open spec fn add_spec(self, rhs: Fl) -> Fl { mk(xr_add(val(self), val(rhs))) }
}
impl core::ops::Sub for Fl {
    type Output = Fl;
    #[verifier::external_body]
    fn sub(self, rhs: Fl) -> (r: Fl) { Fl { v: self.v - rhs.v } }
}
impl SubSpecImpl for Fl {
    open spec fn obeys_sub_spec() -> bool { true }
    open spec fn sub_req(self, rhs: Fl) -> bool { true }
    open spec fn sub_spec(self, rhs: Fl) -> Fl { mk(xr_sub(val(self), val(rhs))) }
}
impl PartialEq for Fl {
    #[verifier::external_body]
    fn eq(&self, other: &Fl) -> bool { self.v == other.v }
}
impl PartialOrd for Fl {
    #[verifier::external_body]
    fn partial_cmp(&self, other: &Fl) -> Option<core::cmp::Ordering> { self.v.partial_cmp(&other.v) }
}
pub open spec fn xr_pcmp(a: XR, b: XR) -> Option<core::cmp::Ordering> {
    if xr_gt(a,b) { Some(core::cmp::Ordering::Greater) }
    else if xr_gt(b,a) { Some(core::cmp::Ordering::Less) }
    else if a is NaN || b is NaN { None }
    else { Some(core::cmp::Ordering::Equal) }
}
impl PartialOrdSpecImpl for Fl {
    open spec fn obeys_partial_cmp_spec() -> bool { true }
    open spec fn partial_cmp_spec(&self, other: &Fl) -> Option<core::cmp::Ordering> { xr_pcmp(val(*self), val(*other)) }
}
impl PartialEqSpecImpl for Fl {
    open spec fn obeys_eq_spec() -> bool { true }
    open spec fn eq_spec(&self, other: &Fl) -> bool { xr_pcmp(val(*self), val(*other)) == Some(core::cmp::Ordering::Equal) }
}
impl Fl {
    #[verifier::external_body]
    pub fn ln(self) -> (r: Fl) ensures val(r) == xr_ln(val(self)) { Fl { v: self.v.ln() } }
}

// RNG
// ---------- extra float bits ----------
pub open spec fn xr_ge(a: XR, b: XR) -> bool { xr_gt(a, b) || (!(a is NaN) && a == b) }
pub uninterp spec fn xr_powf(a: XR, e: XR) -> XR;
pub struct FLit { pub n: int, pub d: int }   // placeholder exec type for R-lit
pub trait ToXR { spec fn xr(&self) -> XR; }
impl ToXR for Fl { open spec fn xr(&self) -> XR { val(*self) } }
#[verifier::external_body]
pub struct Lit { v: f64 }
pub uninterp spec fn lit_val(l: Lit) -> real;
impl ToXR for Lit { open spec fn xr(&self) -> XR { XR::Fin(lit_val(*self)) } }
#[verifier::external_body]
pub fn fl_lit(n: u64, d: u64) -> (r: Lit) requires d > 0 ensures lit_val(r) == n as real / d as real { unimplemented!() }
impl Fl {
    #[verifier::external_body]
    pub fn from<X: ToXR>(x: X) -> (r: Option<Fl>) ensures r is Some, val(r->0) == x.xr() { unimplemented!() }
}
pub open spec fn xr_mul(a: XR, b: XR) -> XR {
    match (a, b) {
        (XR::NaN, _) => XR::NaN,
        (_, XR::NaN) => XR::NaN,
        (XR::Fin(x), XR::Fin(y)) => XR::Fin(x * y),
        (XR::Fin(x), i) => if x == 0real { XR::NaN } else if x > 0real { i } else { xr_neg(i) },
        (i, XR::Fin(y)) => if y == 0real { XR::NaN } else if y > 0real { i } else { xr_neg(i) },
        (XR::PosInf, XR::PosInf) => XR::PosInf,
        (XR::NegInf, XR::NegInf) => XR::PosInf,
        _ => XR::NegInf,
    }
}
impl core::ops::Mul for Fl {
    type Output = Fl;
    #[verifier::external_body]
    fn mul(self, rhs: Fl) -> (r: Fl) { Fl { v: self.v * rhs.v } }
}
impl MulSpecImpl for Fl {
    open spec fn obeys_mul_spec() -> bool { true }
    open spec fn mul_req(self, rhs: Fl) -> bool { true }
    open spec fn mul_spec(self, rhs: Fl) -> Fl { mk(xr_mul(val(self), val(rhs))) }
}

// ---------- vectors / matrices over XR ----------
pub type V = Seq<XR>;
pub type M = Seq<Seq<XR>>;
pub open spec fn vadd(a: V, b: V) -> V { Seq::new(a.len(), |i: int| xr_add(a[i], b[i])) }
pub open spec fn vsub(a: V, b: V) -> V { Seq::new(a.len(), |i: int| xr_sub(a[i], b[i])) }
pub open spec fn vneg(a: V) -> V { Seq::new(a.len(), |i: int| xr_neg(a[i])) }
pub open spec fn vscale(a: V, c: XR) -> V { Seq::new(a.len(), |i: int| xr_mul(a[i], c)) }
pub open spec fn vpow(a: V, e: XR) -> V { Seq::new(a.len(), |i: int| xr_powf(a[i], e)) }
pub open spec fn vln(a: V) -> V { Seq::new(a.len(), |i: int| xr_ln(a[i])) }
pub open spec fn vsum(a: V) -> XR decreases a.len() { if a.len() == 0 { XR::Fin(0real) } else { xr_add(vsum(a.drop_last()), a.last()) } }
pub open spec fn madd(a: M, b: M) -> M { Seq::new(a.len(), |i: int| vadd(a[i], b[i])) }
pub open spec fn mscale(a: M, c: XR) -> M { Seq::new(a.len(), |i: int| vscale(a[i], c)) }
pub open spec fn mpow(a: M, e: XR) -> M { Seq::new(a.len(), |i: int| vpow(a[i], e)) }
pub open spec fn rect(a: M, n: nat, d: nat) -> bool { a.len() == n && forall |i: int| 0 <= i < n ==> (#[trigger] a[i]).len() == d }

// ---------- burn stubs ----------
pub trait Device { }
pub trait Backend { type Device: DeviceDefault; }
pub trait DeviceDefault: Sized { fn default() -> Self; }
pub trait AutodiffBackend: Backend { type InnerBackend: Backend; }
pub struct Float;
pub struct Bool;
pub struct Shape<const D: usize> { pub dims: [usize; D] }
impl<const D: usize> Shape<D> { pub fn new(dims: [usize; D]) -> (r: Self) ensures r.dims == dims { Shape { dims } } }
pub mod burn { pub mod tensor { pub enum Distribution { Default, Normal(super::super::Lit, super::super::Lit) } } }

#[verifier::external_body]
#[verifier::accept_recursive_types(B)]
#[verifier::accept_recursive_types(K)]
pub struct Tensor<B, const D: usize, K = Float> { _b: core::marker::PhantomData<(B, K)> }
#[verifier::external_body]
#[verifier::accept_recursive_types(B)]
pub struct Gradients<B> { _b: core::marker::PhantomData<B> }

pub uninterp spec fn v1<B, const D: usize, K>(t: Tensor<B, D, K>) -> V;
pub uninterp spec fn v2<B, const D: usize, K>(t: Tensor<B, D, K>) -> M;
pub uninterp spec fn b1<B, const D: usize, K>(t: Tensor<B, D, K>) -> Seq<bool>;
pub uninterp spec fn b2<B, const D: usize, K>(t: Tensor<B, D, K>) -> Seq<Seq<bool>>;
pub uninterp spec fn g_of<B>(g: Gradients<B>) -> (M, M);

impl<B: Backend, const D: usize> Tensor<B, D> {
    #[verifier::external_body]
    pub fn random(shape: Shape<D>, dist: burn::tensor::Distribution, dev: &B::Device) -> (r: Self)
        ensures D == 2 ==> rect(v2(r), shape.dims[0] as nat, shape.dims[1] as nat), D == 1 ==> v1(r).len() == shape.dims[0] { unimplemented!() }   // AMBIENT: values unconstrained
    #[verifier::external_body]
    pub fn shape(&self) -> (r: Shape<D>) ensures D == 2 ==> rect(v2(*self), r.dims[0] as nat, r.dims[1] as nat), D == 1 ==> v1(*self).len() == r.dims[0] { unimplemented!() }
    #[verifier::external_body]
    pub fn clone(&self) -> (r: Self) ensures r == *self { unimplemented!() }
    #[verifier::external_body]
    pub fn add(self, o: Self) -> (r: Self) ensures v2(r) == madd(v2(self), v2(o)), v1(r) == vadd(v1(self), v1(o)) { unimplemented!() }
    #[verifier::external_body]
    pub fn sub(self, o: Self) -> (r: Self) ensures v1(r) == vsub(v1(self), v1(o)) { unimplemented!() }
    #[verifier::external_body]
    pub fn mul_scalar(self, c: Fl) -> (r: Self) ensures v2(r) == mscale(v2(self), val(c)), v1(r) == vscale(v1(self), val(c)) { unimplemented!() }
    #[verifier::external_body]
    pub fn powf_scalar<E: ToXR>(self, e: E) -> (r: Self) ensures v2(r) == mpow(v2(self), e.xr()), v1(r) == vpow(v1(self), e.xr()) { unimplemented!() }
    #[verifier::external_body]
    pub fn log(self) -> (r: Self) ensures v1(r) == vln(v1(self)) { unimplemented!() }
    #[verifier::external_body]
    pub fn sum_dim(self, dim: usize) -> (r: Self)
        requires D == 2, dim == 1
        ensures v2(r).len() == v2(self).len(), forall |i: int| 0 <= i < v2(self).len() ==> #[trigger] v2(r)[i] == seq![vsum(v2(self)[i])] { unimplemented!() }
    #[verifier::external_body]
    pub fn squeeze<const D2: usize>(self, dim: usize) -> (r: Tensor<B, D2>)
        requires D == 2, dim == 1, D2 == 1, forall |i: int| 0 <= i < v2(self).len() ==> (#[trigger] v2(self)[i]).len() == 1
        ensures v1(r).len() == v2(self).len(), forall |i: int| 0 <= i < v2(self).len() ==> #[trigger] v1(r)[i] == v2(self)[i][0] { unimplemented!() }
    #[verifier::external_body]
    pub fn inplace<F: FnOnce(Self) -> Self>(&mut self, f: F)
        requires f.requires((*old(self),))
        ensures f.ensures((*old(self),), *final(self)) { unimplemented!() }
    #[verifier::external_body]
    pub fn mask_where(self, mask: Tensor<B, D, Bool>, value: Self) -> (r: Self)
        requires D == 2, v2(self).len() == b2(mask).len(), v2(value).len() == b2(mask).len()
        ensures v2(r).len() == v2(self).len(),
            forall |i: int| 0 <= i < v2(self).len() ==> (#[trigger] v2(r)[i]).len() == v2(self)[i].len(),
            forall |i: int, j: int| 0 <= i < v2(self).len() && 0 <= j < v2(self)[i].len() ==> #[trigger] v2(r)[i][j] == (if b2(mask)[i][j] { v2(value)[i][j] } else { v2(self)[i][j] }) { unimplemented!() }
    #[verifier::external_body]
    pub fn greater_equal(self, o: Self) -> (r: Tensor<B, D, Bool>)
        requires D == 1
        ensures b1(r).len() == v1(self).len(), forall |i: int| 0 <= i < v1(self).len() ==> #[trigger] b1(r)[i] == xr_ge(v1(self)[i], v1(o)[i]) { unimplemented!() }
}
impl<B: AutodiffBackend, const D: usize> Tensor<B, D> {
    #[verifier::external_body]
    pub fn detach(self) -> (r: Self) ensures v2(r) == v2(self), v1(r) == v1(self) { unimplemented!() }
    #[verifier::external_body]
    pub fn require_grad(self) -> (r: Self) ensures v2(r) == v2(self), v1(r) == v1(self) { unimplemented!() }
    #[verifier::external_body]
    pub fn grad(&self, g: &Gradients<B>) -> (r: Option<Tensor<B::InnerBackend, D>>)
        ensures g_of(*g).0 == v2(*self) ==> (r is Some && v2(r->0) == g_of(*g).1) { unimplemented!() }
    #[verifier::external_body]
    pub fn from_inner(t: Tensor<B::InnerBackend, D>) -> (r: Self) ensures v2(r) == v2(t), v1(r) == v1(t) { unimplemented!() }
    #[verifier::external_body]
    pub fn backward(&self) -> (g: Gradients<B>) ensures g_of(g) == (ad_leaf_g(*self), ad_grad_g(*self)) { unimplemented!() }
}
pub uninterp spec fn ad_leaf_g<B, const D: usize>(t: Tensor<B, D>) -> M;
pub uninterp spec fn ad_grad_g<B, const D: usize>(t: Tensor<B, D>) -> M;
pub uninterp spec fn t_of<B, const D: usize>(a: V, b: M) -> Tensor<B, D>;
pub broadcast axiom fn ax_t_of<B, const D: usize>(a: V, b: M) ensures v1(#[trigger] t_of::<B, D>(a, b)) == a, v2(t_of::<B, D>(a, b)) == b;
impl<B: Backend, const D: usize> core::ops::Neg for Tensor<B, D> {
    type Output = Self;
    #[verifier::external_body]
    fn neg(self) -> (r: Self) { unimplemented!() }
}
pub open spec fn mneg(a: M) -> M { Seq::new(a.len(), |i: int| vneg(a[i])) }
impl<B: Backend, const D: usize> NegSpecImpl for Tensor<B, D> {
    open spec fn obeys_neg_spec() -> bool { true }
    open spec fn neg_req(self) -> bool { true }
    open spec fn neg_spec(self) -> Self { t_of::<B, D>(vneg(v1(self)), mneg(v2(self))) }
}
impl<B: Backend, const D: usize> core::ops::Add for Tensor<B, D> {
    type Output = Self;
    #[verifier::external_body]
    fn add(self, o: Self) -> (r: Self) { unimplemented!() }
}
impl<B: Backend, const D: usize> AddSpecImpl for Tensor<B, D> {
    open spec fn obeys_add_spec() -> bool { true }
    open spec fn add_req(self, o: Self) -> bool { true }
    open spec fn add_spec(self, o: Self) -> Self { t_of::<B, D>(vadd(v1(self), v1(o)), madd(v2(self), v2(o))) }
}
impl<B: Backend, const D: usize> Tensor<B, D, Bool> {
    #[verifier::external_body]
    pub fn clone(&self) -> (r: Self) ensures r == *self { unimplemented!() }
    #[verifier::external_body]
    pub fn unsqueeze_dim<const D2: usize>(self, dim: usize) -> (r: Tensor<B, D2, Bool>)
        requires D == 1, dim == 1, D2 == 2
        ensures b2(r).len() == b1(self).len(), forall |i: int| 0 <= i < b1(self).len() ==> #[trigger] b2(r)[i] == seq![b1(self)[i]] { unimplemented!() }
    #[verifier::external_body]
    pub fn expand(self, shape: [usize; 2]) -> (r: Self)
        requires D == 2, b2(self).len() == shape[0], forall |i: int| 0 <= i < b2(self).len() ==> (#[trigger] b2(self)[i]).len() == 1
        ensures b2(r).len() == shape[0], forall |i: int| 0 <= i < shape[0] ==> (#[trigger] b2(r)[i]).len() == shape[1],
            forall |i: int, j: int| 0 <= i < shape[0] && 0 <= j < shape[1] ==> #[trigger] b2(r)[i][j] == b2(self)[i][0] { unimplemented!() }
}

#[verifier::external_body]
pub struct SmallRng { s: u64 }
pub uninterp spec fn rng_state(r: SmallRng) -> int;
pub uninterp spec fn rng_out(s: int) -> Fl;
pub uninterp spec fn rng_adv(s: int) -> int;
impl SmallRng {
    #[verifier::external_body]
    pub fn random<X>(&mut self) -> (u: Fl) ensures u == rng_out(rng_state(*old(self))), rng_state(*final(self)) == rng_adv(rng_state(*old(self))) { unimplemented!() }
}

type T = Fl;
// ---- extra scalar ops ----
pub uninterp spec fn xr_exp(a: XR) -> XR;
pub open spec fn xr_lt(a: XR, b: XR) -> bool { xr_gt(b, a) }
pub open spec fn xr_min_num(a: XR, b: XR) -> XR { if a is NaN { b } else if b is NaN { a } else if xr_gt(a, b) { b } else { a } }
pub open spec fn xr_div(a: XR, b: XR) -> XR {
    match (a, b) {
        (XR::NaN, _) => XR::NaN, (_, XR::NaN) => XR::NaN,
        (XR::Fin(x), XR::Fin(y)) => if y == 0real { if x == 0real { XR::NaN } else if x > 0real { XR::PosInf } else { XR::NegInf } } else { XR::Fin(x / y) },
        (XR::Fin(_), _) => XR::Fin(0real),
        (i, XR::Fin(y)) => if y >= 0real { i } else { xr_neg(i) },
        _ => XR::NaN,
    }
}
impl core::ops::Div for Fl { type Output = Fl; #[verifier::external_body] fn div(self, rhs: Fl) -> (r: Fl) { unimplemented!() } }
impl DivSpecImpl for Fl {
    open spec fn obeys_div_spec() -> bool { true }
    open spec fn div_req(self, rhs: Fl) -> bool { true }
    open spec fn div_spec(self, rhs: Fl) -> Fl { mk(xr_div(val(self), val(rhs))) }
}
impl ToXR for usize { open spec fn xr(&self) -> XR { XR::Fin(*self as real) } }
impl ToXR for i32 { open spec fn xr(&self) -> XR { XR::Fin(*self as real) } }
#[verifier::external_body]
pub fn to_fl<X: ToXR>(x: X) -> (r: Fl) ensures val(r) == x.xr() { unimplemented!() }
impl Fl {
    #[verifier::external_body] pub fn exp(self) -> (r: Fl) ensures val(r) == xr_exp(val(self)) { unimplemented!() }
    #[verifier::external_body] pub fn one() -> (r: Fl) ensures val(r) == XR::Fin(1real) { unimplemented!() }
    #[verifier::external_body] pub fn min(a: Fl, b: Fl) -> (r: Fl) ensures val(r) == xr_min_num(val(a), val(b)) { unimplemented!() }
    #[verifier::external_body] pub fn to_f64(self) -> (r: Fl) ensures r == self { unimplemented!() }
}
pub open spec fn vmul(a: V, b: V) -> V { Seq::new(a.len(), |i: int| xr_mul(a[i], b[i])) }
pub open spec fn dot(a: V, b: V) -> XR { vsum(vmul(a, b)) }

// ---- 1-D tensor ops used by nuts.rs (rank-generic impls as in burn) ----
impl<B: Backend, const D: usize> Tensor<B, D> {
    #[verifier::external_body]
    pub fn sum(self) -> (r: Tensor<B, 1>) ensures v1(r) == seq![vsum(v1(self))] { unimplemented!() }
    #[verifier::external_body]
    pub fn into_scalar(self) -> (r: Fl) requires v1(self).len() == 1 ensures val(r) == v1(self)[0] { unimplemented!() }
    #[verifier::external_body]
    pub fn greater_equal_elem<E: ToXR>(self, e: E) -> (r: Tensor<B, D, Bool>)
        ensures b1(r).len() == v1(self).len(), forall |i: int| 0 <= i < v1(self).len() ==> #[trigger] b1(r)[i] == xr_ge(v1(self)[i], e.xr()) { unimplemented!() }
}
pub struct BoolElem { pub b: bool }
impl BoolElem { pub fn to_bool(self) -> (r: bool) ensures r == self.b { self.b } }
impl<B: Backend, const D: usize> Tensor<B, D, Bool> {
    #[verifier::external_body]
    pub fn into_scalar(self) -> (r: BoolElem) requires b1(self).len() == 1 ensures r.b == b1(self)[0] { unimplemented!() }
}
impl<B: Backend, const D: usize> core::ops::Sub for Tensor<B, D> { type Output = Self; #[verifier::external_body] fn sub(self, o: Self) -> (r: Self) { unimplemented!() } }
impl<B: Backend, const D: usize> SubSpecImpl for Tensor<B, D> {
    open spec fn obeys_sub_spec() -> bool { true }
    open spec fn sub_req(self, o: Self) -> bool { true }
    open spec fn sub_spec(self, o: Self) -> Self { t_of::<B, D>(vsub(v1(self), v1(o)), v2(self)) }
}
impl<B: Backend, const D: usize> core::ops::Mul for Tensor<B, D> { type Output = Self; #[verifier::external_body] fn mul(self, o: Self) -> (r: Self) { unimplemented!() } }
impl<B: Backend, const D: usize> MulSpecImpl for Tensor<B, D> {
    open spec fn obeys_mul_spec() -> bool { true }
    open spec fn mul_req(self, o: Self) -> bool { true }
    open spec fn mul_spec(self, o: Self) -> Self { t_of::<B, D>(vmul(v1(self), v1(o)), v2(self)) }
}
impl<B: Backend, const D: usize> core::ops::Mul<Fl> for Tensor<B, D> { type Output = Self; #[verifier::external_body] fn mul(self, o: Fl) -> (r: Self) { unimplemented!() } }
impl<B: Backend, const D: usize> MulSpecImpl<Fl> for Tensor<B, D> {
    open spec fn obeys_mul_spec() -> bool { true }
    open spec fn mul_req(self, o: Fl) -> bool { true }
    open spec fn mul_spec(self, o: Fl) -> Self { t_of::<B, D>(vscale(v1(self), val(o)), v2(self)) }
}
impl<B: Backend, const D: usize> core::ops::Mul<Lit> for Tensor<B, D> { type Output = Self; #[verifier::external_body] fn mul(self, o: Lit) -> (r: Self) { unimplemented!() } }
impl<B: Backend, const D: usize> MulSpecImpl<Lit> for Tensor<B, D> {
    open spec fn obeys_mul_spec() -> bool { true }
    open spec fn mul_req(self, o: Lit) -> bool { true }
    open spec fn mul_spec(self, o: Lit) -> Self { t_of::<B, D>(vscale(v1(self), XR::Fin(lit_val(o))), v2(self)) }
}

pub trait GradientTarget<B: AutodiffBackend> {
    spec fn lp(&self, x: V) -> XR;
    spec fn grad(&self, x: V) -> V;
    fn unnorm_logp_and_grad(&self, position: Tensor<B, 1>) -> (r: (Tensor<B, 1>, Tensor<B, 1>))
        ensures v1(r.0) == seq![self.lp(v1(position))], v1(r.1) == self.grad(v1(position));
}

// ---- spec from Hoffman & Gelman Alg. 6 ----
pub struct Pt { pub x: V, pub r: V, pub g: V }
pub struct Tree { pub minus: Pt, pub plus: Pt, pub cx: V, pub cg: V, pub clp: XR, pub n: nat, pub s: bool, pub alpha: XR, pub n_alpha: nat }
pub open spec fn half() -> XR { XR::Fin(0.5real) }
pub open spec fn lf<B: AutodiffBackend, G: GradientTarget<B>>(t: &G, p: Pt, e: XR) -> (Pt, XR) {
    let r1 = vadd(p.r, vscale(vscale(p.g, e), half()));
    let x1 = vadd(p.x, vscale(r1, e));
    let g1 = t.grad(x1);
    let r2 = vadd(r1, vscale(vscale(g1, e), half()));
    (Pt { x: x1, r: r2, g: g1 }, t.lp(x1))
}
pub open spec fn joint_of(lp: XR, r: V) -> XR { xr_sub(lp, xr_mul(dot(r, r), half())) }
pub open spec fn no_uturn(m: Pt, p: Pt) -> bool {
    let d = vsub(p.x, m.x);
    xr_ge(dot(d, m.r), XR::Fin(0real)) && xr_ge(dot(d, p.r), XR::Fin(0real))
}
pub open spec fn max1(n: nat) -> nat { if n >= 1 { n } else { 1 } }

pub open spec fn bt<B: AutodiffBackend, G: GradientTarget<B>>(t: &G, p: Pt, logu: XR, v: int, j: nat, eps: XR, joint0: XR, s: int) -> (Tree, int)
    decreases j
{
    if j == 0 {
        let (p1, lp1) = lf::<B, G>(t, p, xr_mul(XR::Fin(v as real), eps));
        let jt = joint_of(lp1, p1.r);
        (Tree { minus: p1, plus: p1, cx: p1.x, cg: p1.g, clp: lp1,
                n: if xr_lt(logu, jt) { 1 } else { 0 },
                s: xr_lt(xr_sub(logu, XR::Fin(1000real)), jt),
                alpha: xr_min_num(XR::Fin(1real), xr_exp(xr_sub(jt, joint0))), n_alpha: 1 }, s)
    } else {
        let (t1, s1) = bt::<B, G>(t, p, logu, v, (j - 1) as nat, eps, joint0, s);
        if !t1.s { (t1, s1) } else {
            let (t2, s2) = bt::<B, G>(t, if v == -1 { t1.minus } else { t1.plus }, logu, v, (j - 1) as nat, eps, joint0, s1);
            let u = val(rng_out(s2));
            let minus = if v == -1 { t2.minus } else { t1.minus };
            let plus = if v == -1 { t1.plus } else { t2.plus };
            let take2 = xr_lt(u, xr_div(XR::Fin(t2.n as real), XR::Fin(max1(t1.n + t2.n) as real)));
            (Tree { minus, plus,
                    cx: if take2 { t2.cx } else { t1.cx }, cg: if take2 { t2.cg } else { t1.cg }, clp: if take2 { t2.clp } else { t1.clp },
                    n: t1.n + t2.n, s: t2.s && no_uturn(minus, plus),
                    alpha: xr_add(t1.alpha, t2.alpha), n_alpha: t1.n_alpha + t2.n_alpha }, rng_adv(s2))
        }
    }
}
pub open spec fn pt_of<B: AutodiffBackend>(x: Tensor<B, 1>, r: Tensor<B, 1>, g: Tensor<B, 1>) -> Pt { Pt { x: v1(x), r: v1(r), g: v1(g) } }

fn leapfrog<B, GTarget>(
    position: Tensor<B, 1>,
    mom: Tensor<B, 1>,
    grad: Tensor<B, 1>,
    epsilon: T,
    gradient_target: &GTarget,
) -> (out: (Tensor<B, 1>, Tensor<B, 1>, Tensor<B, 1>, Tensor<B, 1>))
where
    B: AutodiffBackend,
    GTarget: GradientTarget<B>,
    ensures ({ let (p1, lp1) = lf::<B, GTarget>(gradient_target, pt_of(position, mom, grad), val(epsilon));
               pt_of(out.0, out.1, out.2) == p1 && v1(out.3) == seq![lp1] })
{
    proof { broadcast use ax_mk, ax_t_of; assert(5 as real / 10 as real == 0.5real); }
    let mom_prime = mom + grad * epsilon * fl_lit(5, 10);
    let position_prime = position + mom_prime.clone() * epsilon;
    let (ulogp_prime, grad_prime) = gradient_target.unnorm_logp_and_grad(position_prime.clone());
    let mom_prime = mom_prime + grad_prime.clone() * epsilon * fl_lit(5, 10);
    (position_prime, mom_prime, grad_prime, ulogp_prime)
}

fn stop_criterion<B>(
    position_minus: Tensor<B, 1>,
    position_plus: Tensor<B, 1>,
    mom_minus: Tensor<B, 1>,
    mom_plus: Tensor<B, 1>,
) -> (r: bool)
where
    B: AutodiffBackend,
    ensures r == no_uturn(Pt { x: v1(position_minus), r: v1(mom_minus), g: seq![] }, Pt { x: v1(position_plus), r: v1(mom_plus), g: seq![] })
{
    proof { broadcast use ax_mk, ax_t_of; }
    let diff = position_plus - position_minus;
    let dot_minus = (diff.clone() * mom_minus).sum();
    let dot_plus = (diff * mom_plus).sum();
    dot_minus.greater_equal_elem(0).into_scalar().to_bool()
        && dot_plus.greater_equal_elem(0).into_scalar().to_bool()
}

pub open spec fn tree_eq<B: AutodiffBackend>(o: (Tensor<B, 1>, Tensor<B, 1>, Tensor<B, 1>, Tensor<B, 1>, Tensor<B, 1>, Tensor<B, 1>, Tensor<B, 1>, Tensor<B, 1>, Tensor<B, 1>, usize, bool, T, usize), t: Tree) -> bool {
    &&& pt_of(o.0, o.1, o.2) == t.minus
    &&& pt_of(o.3, o.4, o.5) == t.plus
    &&& v1(o.6) == t.cx && v1(o.7) == t.cg && v1(o.8) == seq![t.clp]
    &&& o.9 == t.n && o.10 == t.s && val(o.11) == t.alpha && o.12 == t.n_alpha
}

fn build_tree<B, GTarget>(
    position: Tensor<B, 1>,
    mom: Tensor<B, 1>,
    grad: Tensor<B, 1>,
    logu: T,
    v: i8,
    j: usize,
    epsilon: T,
    gradient_target: &GTarget,
    joint_0: T,
    rng: &mut SmallRng,
) -> (out: (
    Tensor<B, 1>,
    Tensor<B, 1>,
    Tensor<B, 1>,
    Tensor<B, 1>,
    Tensor<B, 1>,
    Tensor<B, 1>,
    Tensor<B, 1>,
    Tensor<B, 1>,
    Tensor<B, 1>,
    usize,
    bool,
    T,
    usize,
))
where
    B: AutodiffBackend,
    GTarget: GradientTarget<B>,
    requires v == 1 || v == -1,
             bt::<B, GTarget>(gradient_target, pt_of(position, mom, grad), val(logu), v as int, j as nat, val(epsilon), val(joint_0), rng_state(*old(rng))).0.n <= usize::MAX,
             bt::<B, GTarget>(gradient_target, pt_of(position, mom, grad), val(logu), v as int, j as nat, val(epsilon), val(joint_0), rng_state(*old(rng))).0.n_alpha <= usize::MAX,
    ensures ({ let (t, s) = bt::<B, GTarget>(gradient_target, pt_of(position, mom, grad), val(logu), v as int, j as nat, val(epsilon), val(joint_0), rng_state(*old(rng)));
               tree_eq(out, t) && rng_state(*final(rng)) == s })
    decreases j
{
    proof { broadcast use ax_mk, ax_t_of; assert(5 as real / 10 as real == 0.5real); assert(1000 as real / 1 as real == 1000real); }
    if j == 0 {
        let (position_prime, mom_prime, grad_prime, logp_prime) = leapfrog(
            position.clone(),
            mom.clone(),
            grad.clone(),
            T::from(v as i32).unwrap() * epsilon,
            gradient_target,
        );
        let joint = logp_prime.clone() - (mom_prime.clone() * mom_prime.clone()).sum() * fl_lit(5, 10);
        let joint = T::from(joint.into_scalar().to_f64())
            .expect("type conversion from joint tensor to scalar type T to succeed");
        let n_prime = (logu < joint) as usize;
        let s_prime = (logu - T::from(fl_lit(1000, 1)).unwrap()) < joint;
        let position_minus = position_prime.clone();
        let position_plus = position_prime.clone();
        let mom_minus = mom_prime.clone();
        let mom_plus = mom_prime.clone();
        let grad_minus = grad_prime.clone();
        let grad_plus = grad_prime.clone();
        let alpha_prime = T::min(T::one(), (joint - joint_0).exp());
        let n_alpha_prime = 1_usize;
        (
            position_minus,
            mom_minus,
            grad_minus,
            position_plus,
            mom_plus,
            grad_plus,
            position_prime,
            grad_prime,
            logp_prime,
            n_prime,
            s_prime,
            alpha_prime,
            n_alpha_prime,
        )
    } else {
        let (
            mut position_minus,
            mut mom_minus,
            mut grad_minus,
            mut position_plus,
            mut mom_plus,
            mut grad_plus,
            mut position_prime,
            mut grad_prime,
            mut logp_prime,
            mut n_prime,
            mut s_prime,
            mut alpha_prime,
            mut n_alpha_prime,
        ) = build_tree(
            position,
            mom,
            grad,
            logu,
            v,
            j - 1,
            epsilon,
            gradient_target,
            joint_0,
            rng,
        );
        if s_prime {
            let (
                position_minus_2,
                mom_minus_2,
                grad_minus_2,
                position_plus_2,
                mom_plus_2,
                grad_plus_2,
                position_prime_2,
                grad_prime_2,
                logp_prime_2,
                n_prime_2,
                s_prime_2,
                alpha_prime_2,
                n_alpha_prime_2,
            ) = if v == -1 {
                build_tree(
                    position_minus.clone(),
                    mom_minus.clone(),
                    grad_minus.clone(),
                    logu,
                    v,
                    j - 1,
                    epsilon,
                    gradient_target,
                    joint_0,
                    rng,
                )
            } else {
                build_tree(
                    position_plus.clone(),
                    mom_plus.clone(),
                    grad_plus.clone(),
                    logu,
                    v,
                    j - 1,
                    epsilon,
                    gradient_target,
                    joint_0,
                    rng,
                )
            };
            if v == -1 {
                position_minus = position_minus_2;
                mom_minus = mom_minus_2;
                grad_minus = grad_minus_2;
            } else {
                position_plus = position_plus_2;
                mom_plus = mom_plus_2;
                grad_plus = grad_plus_2;
            }

            let u_build_tree: Fl = (*rng).random::<Fl>();
            if u_build_tree < (to_fl(n_prime_2) / to_fl((n_prime + n_prime_2).max(1))) {
                position_prime = position_prime_2;
                grad_prime = grad_prime_2;
                logp_prime = logp_prime_2;
            }

            n_prime += n_prime_2;

            s_prime = s_prime
                && s_prime_2
                && stop_criterion(
                    position_minus.clone(),
                    position_plus.clone(),
                    mom_minus.clone(),
                    mom_plus.clone(),
                );
            alpha_prime = alpha_prime + alpha_prime_2;
            n_alpha_prime += n_alpha_prime_2;
        }
        (
            position_minus,
            mom_minus,
            grad_minus,
            position_plus,
            mom_plus,
            grad_plus,
            position_prime,
            grad_prime,
            logp_prime,
            n_prime,
            s_prime,
            alpha_prime,
            n_alpha_prime,
        )
    }
}
} // verus!
fn main() {}
