use vstd::prelude::*;
use vstd::std_specs::ops::*;
use vstd::std_specs::cmp::*;
verus! {
pub enum XR { NaN, NegInf, PosInf, Fin(real) }

#[verifier::external_body]
#[derive(Clone, Copy)]
pub struct Fl { v: f64 }

pub uninterp spec fn val(f: Fl) -> XR;
pub uninterp spec fn mk(x: XR) -> Fl;
pub broadcast axiom fn ax_mk(x: XR) ensures #[trigger] val(mk(x)) == x;

pub open spec fn xr_neg(a: XR) -> XR {
    match a { XR::NaN => XR::NaN, XR::NegInf => XR::PosInf, XR::PosInf => XR::NegInf, XR::Fin(x) => XR::Fin(-x) }
}
pub open spec fn xr_add(a: XR, b: XR) -> XR {
    match (a, b) {
        (XR::NaN, _) => XR::NaN,
        (_, XR::NaN) => XR::NaN,
        (XR::PosInf, XR::NegInf) => XR::NaN,
        (XR::NegInf, XR::PosInf) => XR::NaN,
        (XR::PosInf, _) => XR::PosInf,
        (_, XR::PosInf) => XR::PosInf,
        (XR::NegInf, _) => XR::NegInf,
        (_, XR::NegInf) => XR::NegInf,
        (XR::Fin(x), XR::Fin(y)) => XR::Fin(x + y),
    }
}
pub open spec fn xr_sub(a: XR, b: XR) -> XR { xr_add(a, xr_neg(b)) }
pub open spec fn xr_gt(a: XR, b: XR) -> bool {
    match (a, b) {
        (XR::NaN, _) => false,
        (_, XR::NaN) => false,
        (XR::PosInf, XR::PosInf) => false,
        (XR::PosInf, _) => true,
        (_, XR::PosInf) => false,
        (XR::NegInf, _) => false,
        (_, XR::NegInf) => true,
        (XR::Fin(x), XR::Fin(y)) => x > y,
    }
}
pub uninterp spec fn xr_ln(a: XR) -> XR;

impl core::ops::Add for Fl {
    type Output = Fl;
    #[verifier::external_body]
    fn add(self, rhs: Fl) -> (r: Fl) { Fl { v: self.v + rhs.v } }
}
impl AddSpecImpl for Fl {
    open spec fn obeys_add_spec() -> bool { true }
    open spec fn add_req(self, rhs: Fl) -> bool { true }
    open spec fn add_spec(self, rhs: Fl) -> Fl { mk(xr_add(val(self), val(rhs))) }
}
impl core::ops::Sub for Fl {
    type Output = Fl;
    #[verifier::external_body]
    fn sub(self, rhs: Fl) -> (r: Fl) { Fl { v: self.v - rhs.v } }
}
impl SubSpecImpl for Fl {
    open spec fn obeys_sub_spec() -> bool { true }
    open spec fn sub_req(self, rhs: Fl) -> bool { true }
    open spec fn sub_spec(self, rhs: Fl) -> Fl { mk(xr_sub(val(self), val(rhs))) }
}
impl PartialEq for Fl {
    #[verifier::external_body]
    fn eq(&self, other: &Fl) -> bool { self.v == other.v }
}
impl PartialOrd for Fl {
    #[verifier::external_body]
    fn partial_cmp(&self, other: &Fl) -> Option<core::cmp::Ordering> { self.v.partial_cmp(&other.v) }
}
pub open spec fn xr_pcmp(a: XR, b: XR) -> Option<core::cmp::Ordering> {
    if xr_gt(a,b) { Some(core::cmp::Ordering::Greater) }
    else if xr_gt(b,a) { Some(core::cmp::Ordering::Less) }
    else if a is NaN || b is NaN { None }
    else { Some(core::cmp::Ordering::Equal) }
}
impl PartialOrdSpecImpl for Fl {
    open spec fn obeys_partial_cmp_spec() -> bool { true }
    open spec fn partial_cmp_spec(&self, other: &Fl) -> Option<core::cmp::Ordering> { xr_pcmp(val(*self), val(*other)) }
}
impl PartialEqSpecImpl for Fl {
    open spec fn obeys_eq_spec() -> bool { true }
    open spec fn eq_spec(&self, other: &Fl) -> bool { xr_pcmp(val(*self), val(*other)) == Some(core::cmp::Ordering::Equal) }
}
impl Fl {
    #[verifier::external_body]
    pub fn ln(self) -> (r: Fl) ensures val(r) == xr_ln(val(self)) { Fl { v: self.v.ln() } }
}

// RNG
// ---------- extra float bits ----------
pub open spec fn xr_ge(a: XR, b: XR) -> bool { xr_gt(a, b) || (!(a is NaN) && a == b) }
pub uninterp spec fn xr_powf(a: XR, e: XR) -> XR;
pub struct FLit { pub n: int, pub d: int }   // placeholder exec type for R-lit
pub trait ToXR { spec fn xr(&self) -> XR; }
impl ToXR for Fl { open spec fn xr(&self) -> XR { val(*self) } }
#[verifier::external_body]
pub struct Lit { v: f64 }
pub uninterp spec fn lit_val(l: Lit) -> real;
impl ToXR for Lit { open spec fn xr(&self) -> XR { XR::Fin(lit_val(*self)) } }
#[verifier::external_body]
pub fn fl_lit(n: u64, d: u64) -> (r: Lit) requires d > 0 ensures lit_val(r) == n as real / d as real { unimplemented!() }
impl Fl {
    #[verifier::external_body]
    pub fn from<X: ToXR>(x: X) -> (r: Option<Fl>) ensures r is Some, val(r->0) == x.xr() { unimplemented!() }
}
pub open spec fn xr_mul(a: XR, b: XR) -> XR {
    match (a, b) {
        (XR::NaN, _) => XR::NaN,
        (_, XR::NaN) => XR::NaN,
        (XR::Fin(x), XR::Fin(y)) => XR::Fin(x * y),
        (XR::Fin(x), i) => if x == 0real { XR::NaN } else if x > 0real { i } else { xr_neg(i) },
        (i, XR::Fin(y)) => if y == 0real { XR::NaN } else if y > 0real { i } else { xr_neg(i) },
        (XR::PosInf, XR::PosInf) => XR::PosInf,
        (XR::NegInf, XR::NegInf) => XR::PosInf,
        _ => XR::NegInf,
    }
}
impl core::ops::Mul for Fl {
    type Output = Fl;
    #[verifier::external_body]
    fn mul(self, rhs: Fl) -> (r: Fl) { Fl { v: self.v * rhs.v } }
}
impl MulSpecImpl for Fl {
    open spec fn obeys_mul_spec() -> bool { true }
    open spec fn mul_req(self, rhs: Fl) -> bool { true }
    open spec fn mul_spec(self, rhs: Fl) -> Fl { mk(xr_mul(val(self), val(rhs))) }
}

// ---------- vectors / matrices over XR ----------
pub type V = Seq<XR>;
pub type M = Seq<Seq<XR>>;
pub open spec fn vadd(a: V, b: V) -> V { Seq::new(a.len(), |i: int| xr_add(a[i], b[i])) }
pub open spec fn vsub(a: V, b: V) -> V { Seq::new(a.len(), |i: int| xr_sub(a[i], b[i])) }
pub open spec fn vneg(a: V) -> V { Seq::new(a.len(), |i: int| xr_neg(a[i])) }
pub open spec fn vscale(a: V, c: XR) -> V { Seq::new(a.len(), |i: int| xr_mul(a[i], c)) }
pub open spec fn vpow(a: V, e: XR) -> V { Seq::new(a.len(), |i: int| xr_powf(a[i], e)) }
pub open spec fn vln(a: V) -> V { Seq::new(a.len(), |i: int| xr_ln(a[i])) }
pub open spec fn vsum(a: V) -> XR decreases a.len() { if a.len() == 0 { XR::Fin(0real) } else { xr_add(vsum(a.drop_last()), a.last()) } }
pub open spec fn madd(a: M, b: M) -> M { Seq::new(a.len(), |i: int| vadd(a[i], b[i])) }
pub open spec fn mscale(a: M, c: XR) -> M { Seq::new(a.len(), |i: int| vscale(a[i], c)) }
pub open spec fn mpow(a: M, e: XR) -> M { Seq::new(a.len(), |i: int| vpow(a[i], e)) }
pub open spec fn rect(a: M, n: nat, d: nat) -> bool { a.len() == n && forall |i: int| 0 <= i < n ==> (#[trigger] a[i]).len() == d }

// ---------- burn stubs ----------
pub trait Device { }
pub trait Backend { type Device: DeviceDefault; }
pub trait DeviceDefault: Sized { fn default() -> Self; }
pub trait AutodiffBackend: Backend { type InnerBackend: Backend; }
pub struct Float;
pub struct Bool;
pub struct Shape<const D: usize> { pub dims: [usize; D] }
impl<const D: usize> Shape<D> { pub fn new(dims: [usize; D]) -> (r: Self) ensures r.dims == dims { Shape { dims } } }
pub mod burn { pub mod tensor { pub enum Distribution { Default, Normal(super::super::Lit, super::super::Lit) } } }

#[verifier::external_body]
#[verifier::accept_recursive_types(B)]
#[verifier::accept_recursive_types(K)]
pub struct Tensor<B, const D: usize, K = Float> { _b: core::marker::PhantomData<(B, K)> }
#[verifier::external_body]
#[verifier::accept_recursive_types(B)]
pub struct Gradients<B> { _b: core::marker::PhantomData<B> }

pub uninterp spec fn v1<B, const D: usize, K>(t: Tensor<B, D, K>) -> V;
pub uninterp spec fn v2<B, const D: usize, K>(t: Tensor<B, D, K>) -> M;
pub uninterp spec fn b1<B, const D: usize, K>(t: Tensor<B, D, K>) -> Seq<bool>;
pub uninterp spec fn b2<B, const D: usize, K>(t: Tensor<B, D, K>) -> Seq<Seq<bool>>;
pub uninterp spec fn g_of<B>(g: Gradients<B>) -> (M, M);

impl<B: Backend, const D: usize> Tensor<B, D> {
    #[verifier::external_body]
    pub fn random(shape: Shape<D>, dist: burn::tensor::Distribution, dev: &B::Device) -> (r: Self)
        ensures D == 2 ==> rect(v2(r), shape.dims[0] as nat, shape.dims[1] as nat), D == 1 ==> v1(r).len() == shape.dims[0] { unimplemented!() }   // AMBIENT: values unconstrained
    #[verifier::external_body]
    pub fn shape(&self) -> (r: Shape<D>) ensures D == 2 ==> rect(v2(*self), r.dims[0] as nat, r.dims[1] as nat), D == 1 ==> v1(*self).len() == r.dims[0] { unimplemented!() }
    #[verifier::external_body]
    pub fn clone(&self) -> (r: Self) ensures r == *self { unimplemented!() }
    #[verifier::external_body]
    pub fn add(self, o: Self) -> (r: Self) ensures v2(r) == madd(v2(self), v2(o)), v1(r) == vadd(v1(self), v1(o)) { unimplemented!() }
    #[verifier::external_body]
    pub fn sub(self, o: Self) -> (r: Self) ensures v1(r) == vsub(v1(self), v1(o)) { unimplemented!() }
    #[verifier::external_body]
    pub fn mul_scalar(self, c: Fl) -> (r: Self) ensures v2(r) == mscale(v2(self), val(c)), v1(r) == vscale(v1(self), val(c)) { unimplemented!() }
    #[verifier::external_body]
    pub fn powf_scalar<E: ToXR>(self, e: E) -> (r: Self) ensures v2(r) == mpow(v2(self), e.xr()), v1(r) == vpow(v1(self), e.xr()) { unimplemented!() }
    #[verifier::external_body]
    pub fn log(self) -> (r: Self) ensures v1(r) == vln(v1(self)) { unimplemented!() }
    #[verifier::external_body]
    pub fn sum_dim(self, dim: usize) -> (r: Self)
        requires D == 2, dim == 1
        ensures v2(r).len() == v2(self).len(), forall |i: int| 0 <= i < v2(self).len() ==> #[trigger] v2(r)[i] == seq![vsum(v2(self)[i])] { unimplemented!() }
    #[verifier::external_body]
    pub fn squeeze<const D2: usize>(self, dim: usize) -> (r: Tensor<B, D2>)
        requires D == 2, dim == 1, D2 == 1, forall |i: int| 0 <= i < v2(self).len() ==> (#[trigger] v2(self)[i]).len() == 1
        ensures v1(r).len() == v2(self).len(), forall |i: int| 0 <= i < v2(self).len() ==> #[trigger] v1(r)[i] == v2(self)[i][0] { unimplemented!() }
    #[verifier::external_body]
    pub fn inplace<F: FnOnce(Self) -> Self>(&mut self, f: F)
        requires f.requires((*old(self),))
        ensures f.ensures((*old(self),), *final(self)) { unimplemented!() }
    #[verifier::external_body]
    pub fn mask_where(self, mask: Tensor<B, D, Bool>, value: Self) -> (r: Self)
        requires D == 2, v2(self).len() == b2(mask).len(), v2(value).len() == b2(mask).len()
        ensures v2(r).len() == v2(self).len(),
            forall |i: int| 0 <= i < v2(self).len() ==> (#[trigger] v2(r)[i]).len() == v2(self)[i].len(),
            forall |i: int, j: int| 0 <= i < v2(self).len() && 0 <= j < v2(self)[i].len() ==> #[trigger] v2(r)[i][j] == (if b2(mask)[i][j] { v2(value)[i][j] } else { v2(self)[i][j] }) { unimplemented!() }
    #[verifier::external_body]
    pub fn greater_equal(self, o: Self) -> (r: Tensor<B, D, Bool>)
        requires D == 1
        ensures b1(r).len() == v1(self).len(), forall |i: int| 0 <= i < v1(self).len() ==> #[trigger] b1(r)[i] == xr_ge(v1(self)[i], v1(o)[i]) { unimplemented!() }
}
impl<B: AutodiffBackend, const D: usize> Tensor<B, D> {
    #[verifier::external_body]
    pub fn detach(self) -> (r: Self) ensures v2(r) == v2(self), v1(r) == v1(self) { unimplemented!() }
    #[verifier::external_body]
    pub fn require_grad(self) -> (r: Self) ensures v2(r) == v2(self), v1(r) == v1(self) { unimplemented!() }
    #[verifier::external_body]
    pub fn grad(&self, g: &Gradients<B>) -> (r: Option<Tensor<B::InnerBackend, D>>)
        ensures g_of(*g).0 == v2(*self) ==> (r is Some && v2(r->0) == g_of(*g).1) { unimplemented!() }
    #[verifier::external_body]
    pub fn from_inner(t: Tensor<B::InnerBackend, D>) -> (r: Self) ensures v2(r) == v2(t), v1(r) == v1(t) { unimplemented!() }
    #[verifier::external_body]
    pub fn backward(&self) -> (g: Gradients<B>) ensures g_of(g) == (ad_leaf_g(*self), ad_grad_g(*self)) { unimplemented!() }
}
pub uninterp spec fn ad_leaf_g<B, const D: usize>(t: Tensor<B, D>) -> M;
pub uninterp spec fn ad_grad_g<B, const D: usize>(t: Tensor<B, D>) -> M;
pub uninterp spec fn t_of<B, const D: usize>(a: V, b: M) -> Tensor<B, D>;
pub broadcast axiom fn ax_t_of<B, const D: usize>(a: V, b: M) ensures v1(#[trigger] t_of::<B, D>(a, b)) == a, v2(t_of::<B, D>(a, b)) == b;
impl<B: Backend, const D: usize> core::ops::Neg for Tensor<B, D> {
    type Output = Self;
    #[verifier::external_body]
    fn neg(self) -> (r: Self) { unimplemented!() }
}
pub open spec fn mneg(a: M) -> M { Seq::new(a.len(), |i: int| vneg(a[i])) }
impl<B: Backend, const D: usize> NegSpecImpl for Tensor<B, D> {
    open spec fn obeys_neg_spec() -> bool { true }
    open spec fn neg_req(self) -> bool { true }
    open spec fn neg_spec(self) -> Self { t_of::<B, D>(vneg(v1(self)), mneg(v2(self))) }
}
impl<B: Backend, const D: usize> core::ops::Add for Tensor<B, D> {
    type Output = Self;
    #[verifier::external_body]
    fn add(self, o: Self) -> (r: Self) { unimplemented!() }
}
impl<B: Backend, const D: usize> AddSpecImpl for Tensor<B, D> {
    open spec fn obeys_add_spec() -> bool { true }
    open spec fn add_req(self, o: Self) -> bool { true }
    open spec fn add_spec(self, o: Self) -> Self { t_of::<B, D>(vadd(v1(self), v1(o)), madd(v2(self), v2(o))) }
}
impl<B: Backend, const D: usize> Tensor<B, D, Bool> {
    #[verifier::external_body]
    pub fn clone(&self) -> (r: Self) ensures r == *self { unimplemented!() }
    #[verifier::external_body]
    pub fn unsqueeze_dim<const D2: usize>(self, dim: usize) -> (r: Tensor<B, D2, Bool>)
        requires D == 1, dim == 1, D2 == 2
        ensures b2(r).len() == b1(self).len(), forall |i: int| 0 <= i < b1(self).len() ==> #[trigger] b2(r)[i] == seq![b1(self)[i]] { unimplemented!() }
    #[verifier::external_body]
    pub fn expand(self, shape: [usize; 2]) -> (r: Self)
        requires D == 2, b2(self).len() == shape[0], forall |i: int| 0 <= i < b2(self).len() ==> (#[trigger] b2(self)[i]).len() == 1
        ensures b2(r).len() == shape[0], forall |i: int| 0 <= i < shape[0] ==> (#[trigger] b2(r)[i]).len() == shape[1],
            forall |i: int, j: int| 0 <= i < shape[0] && 0 <= j < shape[1] ==> #[trigger] b2(r)[i][j] == b2(self)[i][0] { unimplemented!() }
}

#[verifier::external_body]
pub struct SmallRng { s: u64 }
pub uninterp spec fn rng_state(r: SmallRng) -> int;
pub uninterp spec fn rng_out(s: int) -> Fl;
pub uninterp spec fn rng_adv(s: int) -> int;
impl SmallRng {
    #[verifier::external_body]
    pub fn random<X>(&mut self) -> (u: Fl) ensures u == rng_out(rng_state(*old(self))), rng_state(*final(self)) == rng_adv(rng_state(*old(self))) { unimplemented!() }
}

pub trait BatchedGradientTarget<B: AutodiffBackend> {
    spec fn lp(&self, x: V) -> XR;
    spec fn grad(&self, x: V) -> V;
    fn unnorm_logp_batch(&self, positions: Tensor<B, 2>) -> (r: Tensor<B, 1>)
        ensures
            v1(r).len() == v2(positions).len(),
            forall |i: int| 0 <= i < v2(positions).len() ==> #[trigger] v1(r)[i] == self.lp(v2(positions)[i]),
            ad_leaf_g(r) == v2(positions),
            ad_grad_g(r).len() == v2(positions).len(),
            forall |i: int| 0 <= i < v2(positions).len() ==> #[trigger] ad_grad_g(r)[i] == self.grad(v2(positions)[i]);
}

pub struct HMC<B: AutodiffBackend, GTarget> {
    pub target: GTarget,
    pub step_size: Fl,
    pub n_leapfrog: usize,
    pub positions: Tensor<B, 2>,
    pub last_grad_summands: Tensor<B, 2>,
    pub rng: SmallRng,
}
type T = Fl;

pub open spec fn verlet<B: AutodiffBackend, G: BatchedGradientTarget<B>>(t: &G, eps: XR, h: XR, x: V, p: V) -> (V, V) {
    let p1 = vadd(p, vscale(t.grad(x), h));
    let x1 = vadd(x, vscale(p1, eps));
    let p2 = vadd(p1, vscale(t.grad(x1), h));
    (x1, p2)
}
pub open spec fn verlet_n<B: AutodiffBackend, G: BatchedGradientTarget<B>>(t: &G, eps: XR, h: XR, x: V, p: V, n: nat) -> (V, V)
    decreases n
{
    if n == 0 { (x, p) } else { let (x1, p1) = verlet_n::<B, G>(t, eps, h, x, p, (n - 1) as nat); verlet::<B, G>(t, eps, h, x1, p1) }
}
pub open spec fn ke(p: V) -> XR { xr_mul(vsum(vpow(p, XR::Fin(2real))), XR::Fin(0.5real)) }
pub open spec fn ham<B: AutodiffBackend, G: BatchedGradientTarget<B>>(t: &G, x: V, p: V) -> XR { xr_add(xr_neg(t.lp(x)), ke(p)) }

pub open spec fn row_rule<B: AutodiffBackend, G: BatchedGradientTarget<B>>(t: &G, eps: XR, l: nat, x: V, p: V, u: XR, out: V) -> bool {
    let h = xr_mul(eps, XR::Fin(0.5real));
    let (x1, p1) = verlet_n::<B, G>(t, eps, h, x, p, l);
    out == (if xr_ge(xr_sub(ham::<B, G>(t, x, p), ham::<B, G>(t, x1, p1)), xr_ln(u)) { x1 } else { x })
}
pub open spec fn step_rows<B: AutodiffBackend, G: BatchedGradientTarget<B>>(pre: HMC<B, G>, post: HMC<B, G>, pm: M, us: V) -> bool {
    &&& pm.len() == v2(pre.positions).len() && us.len() == v2(pre.positions).len()
    &&& v2(post.positions).len() == v2(pre.positions).len()
    &&& forall |i: int| 0 <= i < v2(pre.positions).len() ==>
          row_rule::<B, G>(&pre.target, val(pre.step_size), pre.n_leapfrog as nat, v2(pre.positions)[i], #[trigger] pm[i], us[i], v2(post.positions)[i])
}
pub open spec fn step_post<B: AutodiffBackend, G: BatchedGradientTarget<B>>(pre: HMC<B, G>, post: HMC<B, G>) -> bool {
    exists |pm: M, us: V| #[trigger] step_rows::<B, G>(pre, post, pm, us)
}

pub proof fn lemma_verlet_len<B: AutodiffBackend, G: BatchedGradientTarget<B>>(t: &G, eps: XR, h: XR, x: V, p: V, n: nat)
    ensures verlet_n::<B, G>(t, eps, h, x, p, n).0.len() == x.len()
    decreases n
{
    if n > 0 { lemma_verlet_len::<B, G>(t, eps, h, x, p, (n - 1) as nat); }
}
impl<B: AutodiffBackend, GTarget: BatchedGradientTarget<B>> HMC<B, GTarget> {
    pub fn step(&mut self)
        requires rect(v2(old(self).positions), v2(old(self).positions).len(), (if v2(old(self).positions).len() > 0 { v2(old(self).positions)[0].len() } else { 0 }) as nat)
        ensures step_post::<B, GTarget>(*old(self), *final(self)),
                final(self).target == old(self).target, final(self).step_size == old(self).step_size, final(self).n_leapfrog == old(self).n_leapfrog,
    {
        let shape = self.positions.shape();
        let (n_chains, dim) = (shape.dims[0], shape.dims[1]);

        // 1) Sample momenta: shape [n_chains, D]
        let momentum_0 = Tensor::<B, 2>::random(
            Shape::new([n_chains, dim]),
            burn::tensor::Distribution::Normal(fl_lit(0, 1), fl_lit(1, 1)),
            &B::Device::default(),
        );
        let ghost pm = v2(momentum_0);
        let ghost x0 = v2(self.positions);

        let pos = self.positions.clone().detach().require_grad();
        let logp_current = self.target.unnorm_logp_batch(pos.clone());

        let grads = pos.grad(&logp_current.backward()).unwrap();
        let grad_summands =
            Tensor::<B, 2>::from_inner(grads.mul_scalar(self.step_size * T::from(fl_lit(5, 10)).unwrap()));
        self.last_grad_summands = grad_summands;
        let ghost eps = val(self.step_size);
        let ghost hh = xr_mul(eps, XR::Fin(0.5real));
        let ghost n = x0.len();
        proof {
            broadcast use ax_mk;
            assert(5 as real / 10 as real == 0.5real);
            assert(2 as real / 1 as real == 2real);
            assert(v2(pos) == x0);
            assert forall |i: int| 0 <= i < n implies #[trigger] v2(self.last_grad_summands)[i] == vscale(self.target.grad(x0[i]), hh) by {
                assert(ad_grad_g(logp_current)[i] == self.target.grad(x0[i]));
            }
        }
        let ghost lp0 = v1(logp_current);

        let ke_current = momentum_0
            .clone()
            .powf_scalar(fl_lit(2, 1))
            .sum_dim(1) // Sum over dimension 1 => shape [n_chains]
            .squeeze(1)
            .mul_scalar(T::from(fl_lit(5, 10)).unwrap());

        let h_current: Tensor<B, 1> = -logp_current + ke_current;

        // 2) Run the leapfrog integrator.
        let (proposed_positions, proposed_momenta, logp_proposed) =
            self.leapfrog(self.positions.clone(), momentum_0);
        let ghost x1 = v2(proposed_positions);
        let ghost p1 = v2(proposed_momenta);

        let ke_proposed = proposed_momenta
            .powf_scalar(fl_lit(2, 1))
            .sum_dim(1)
            .squeeze(1)
            .mul_scalar(T::from(fl_lit(5, 10)).unwrap());

        let h_proposed = -logp_proposed + ke_proposed;

        // 3) Accept/Reject each proposal.
        let accept_logp = h_current.sub(h_proposed);

        let mut uniform_data = Vec::with_capacity(n_chains);
        let ghost mid = *self;
        for _ in 0..n_chains
            invariant self.positions == mid.positions, self.target == mid.target, self.step_size == mid.step_size,
                self.n_leapfrog == mid.n_leapfrog, self.last_grad_summands == mid.last_grad_summands,
        {
            uniform_data.push(self.rng.random::<T>());
        }
        let uniform = Tensor::<B, 1>::random(
            Shape::new([n_chains]),
            burn::tensor::Distribution::Default,
            &B::Device::default(),
        );
        let ghost us = v1(uniform);

        let ln_u = uniform.log(); // shape [n_chains]
        let accept_mask = accept_logp.greater_equal(ln_u); // Boolean mask of shape [n_chains]
        proof {
            broadcast use ax_mk, ax_t_of;
            assert(v1(h_current).len() == n);
            assert(b1(accept_mask).len() == n);
            assert(n == n_chains);
        }
        let mut accept_mask_big: Tensor<B, 2, Bool> = accept_mask.clone().unsqueeze_dim(1);
        accept_mask_big = accept_mask_big.expand([n_chains, dim]);

        self.positions.inplace(|x: Tensor<B, 2>| -> (r: Tensor<B, 2>)
            requires v2(x).len() == b2(accept_mask_big).len(), v2(proposed_positions).len() == b2(accept_mask_big).len()
            ensures v2(r).len() == v2(x).len(),
                forall |i: int| 0 <= i < v2(x).len() ==> (#[trigger] v2(r)[i]).len() == v2(x)[i].len(),
                forall |i: int, j: int| 0 <= i < v2(x).len() && 0 <= j < v2(x)[i].len() ==> #[trigger] v2(r)[i][j] == (if b2(accept_mask_big)[i][j] { v2(proposed_positions)[i][j] } else { v2(x)[i][j] })
        {
            x.clone()
                .mask_where(accept_mask_big, proposed_positions)
                .detach()
        });
        proof {
            broadcast use ax_mk, ax_t_of;
            let post = *self;
            assert forall |i: int| 0 <= i < n implies
                row_rule::<B, GTarget>(&old(self).target, eps, old(self).n_leapfrog as nat, x0[i], #[trigger] pm[i], us[i], v2(post.positions)[i]) by {
                let (xa, pa) = verlet_n::<B, GTarget>(&old(self).target, eps, hh, x0[i], pm[i], old(self).n_leapfrog as nat);
                assert(xa == x1[i] && pa == p1[i]);
                lemma_verlet_len::<B, GTarget>(&old(self).target, eps, hh, x0[i], pm[i], old(self).n_leapfrog as nat);
                assert(x0[i].len() == dim);
                assert(v1(h_current)[i] == ham::<B, GTarget>(&old(self).target, x0[i], pm[i]));
                assert(v1(h_proposed)[i] == ham::<B, GTarget>(&old(self).target, x1[i], p1[i]));
                assert(b1(accept_mask)[i] == xr_ge(xr_sub(v1(h_current)[i], v1(h_proposed)[i]), xr_ln(us[i])));
                assert(v2(post.positions)[i] =~= (if b1(accept_mask)[i] { x1[i] } else { x0[i] }));
            }
            assert(step_rows::<B, GTarget>(*old(self), post, pm, us));
        }
    }

    #[verifier::external_body]
    fn leapfrog(&mut self, mut pos: Tensor<B, 2>, mut mom: Tensor<B, 2>) -> (out: (Tensor<B, 2>, Tensor<B, 2>, Tensor<B, 1>))
        requires
            v2(pos).len() == v2(mom).len(),
            v2(old(self).last_grad_summands).len() == v2(pos).len(),
            forall |i: int| 0 <= i < v2(pos).len() ==> #[trigger] v2(old(self).last_grad_summands)[i]
                == vscale(old(self).target.grad(v2(pos)[i]), xr_mul(val(old(self).step_size), XR::Fin(0.5real))),
        ensures
            v2(out.0).len() == v2(pos).len(), v2(out.1).len() == v2(pos).len(), v1(out.2).len() == v2(pos).len(),
            forall |i: int| 0 <= i < v2(pos).len() ==> (#[trigger] v2(out.0)[i], v2(out.1)[i])
                == verlet_n::<B, GTarget>(&old(self).target, val(old(self).step_size), xr_mul(val(old(self).step_size), XR::Fin(0.5real)), v2(pos)[i], v2(mom)[i], old(self).n_leapfrog as nat),
            forall |i: int| 0 <= i < v2(pos).len() ==> #[trigger] v1(out.2)[i] == old(self).target.lp(v2(out.0)[i]),
            final(self).target == old(self).target, final(self).step_size == old(self).step_size, final(self).n_leapfrog == old(self).n_leapfrog,
            final(self).positions == old(self).positions, final(self).rng == old(self).rng,
    { unimplemented!() }
}
} // verus!
fn main() {}
