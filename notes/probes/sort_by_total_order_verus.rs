use vstd::prelude::*;
use core::cmp::Ordering;
verus! {
pub enum XR { NaN, NegInf, PosInf, Fin(real) }
#[verifier::external_body]
#[derive(Clone, Copy)]
pub struct Fl { v: f32 }
pub uninterp spec fn val(f: Fl) -> XR;

pub open spec fn xr_gt(a: XR, b: XR) -> bool {
    match (a, b) {
        (XR::NaN, _) => false, (_, XR::NaN) => false,
        (XR::PosInf, XR::PosInf) => false, (XR::PosInf, _) => true, (_, XR::PosInf) => false,
        (XR::NegInf, _) => false, (_, XR::NegInf) => true,
        (XR::Fin(x), XR::Fin(y)) => x > y,
    }
}
pub open spec fn xr_pcmp(a: XR, b: XR) -> Option<Ordering> {
    if xr_gt(a,b) { Some(Ordering::Greater) } else if xr_gt(b,a) { Some(Ordering::Less) }
    else if a is NaN || b is NaN { None } else { Some(Ordering::Equal) }
}
impl Fl {
    #[verifier::external_body]
    pub fn partial_cmp(&self, o: &Fl) -> (r: Option<Ordering>) ensures r == xr_pcmp(val(*self), val(*o)) { unimplemented!() }
}

// std contract: comparator must be a total order on the elements (may panic otherwise)
pub open spec fn rev(o: Ordering) -> Ordering { match o { Ordering::Less => Ordering::Greater, Ordering::Greater => Ordering::Less, Ordering::Equal => Ordering::Equal } }
pub open spec fn total_on<F: Fn(&Fl, &Fl) -> Ordering>(f: F, s: Seq<Fl>) -> bool {
    &&& forall |i: int, j: int| 0 <= i < s.len() && 0 <= j < s.len() ==> #[trigger] f.requires((&s[i], &s[j]))
    &&& forall |i: int, j: int, o1: Ordering, o2: Ordering| 0 <= i < s.len() && 0 <= j < s.len()
            && #[trigger] f.ensures((&s[i], &s[j]), o1) && #[trigger] f.ensures((&s[j], &s[i]), o2) ==> o2 == rev(o1)
    &&& forall |i: int, j: int, k: int, o1: Ordering, o2: Ordering, o3: Ordering| 0 <= i < s.len() && 0 <= j < s.len() && 0 <= k < s.len()
            && #[trigger] f.ensures((&s[i], &s[j]), o1) && #[trigger] f.ensures((&s[j], &s[k]), o2) && #[trigger] f.ensures((&s[i], &s[k]), o3)
            ==> ((o1 != Ordering::Greater && o2 != Ordering::Greater ==> o3 != Ordering::Greater)
                 && (o1 == Ordering::Equal && o2 == Ordering::Equal ==> o3 == Ordering::Equal))
}
#[verifier::external_body]
pub fn sort_by<F: Fn(&Fl, &Fl) -> Ordering>(v: &mut Vec<Fl>, f: F)
    requires total_on(f, old(v)@)
    ensures final(v)@.len() == old(v)@.len()
{ unimplemented!() }

pub open spec fn desc(a: Fl, b: Fl) -> Ordering {
    match xr_pcmp(val(b), val(a)) { Some(x) => x, None => Ordering::Equal }
}

fn basic(data: &mut Vec<Fl>)
    requires forall |i: int| 0 <= i < old(data)@.len() ==> !(val(#[trigger] old(data)@[i]) is NaN)
{
    let cmp = |a: &Fl, b: &Fl| -> (o: Ordering)
        ensures o == desc(*a, *b)
        { match b.partial_cmp(a) { Some(x) => x, None => Ordering::Equal } };
    proof { assert(total_on(cmp, data@)); }
    sort_by(data, cmp);
}
} // verus!
fn main() {}
