use vstd::prelude::*;
verus! {
#[verifier::external_body]
pub struct Rng { s: u64 }
pub uninterp spec fn st(r: Rng) -> int;
pub uninterp spec fn nxt(s: int) -> int;
pub uninterp spec fn out(s: int) -> u64;
impl Rng {
    #[verifier::external_body]
    pub fn random(&mut self) -> (u: u64) ensures u == out(st(*old(self))), st(*final(self)) == nxt(st(*old(self))) { unimplemented!() }
}

pub open spec fn bt_spec(x: int, j: nat, s: int) -> (int, int, int, int, int, int, int, int, int, int, bool, int, int)
    decreases j
{
    if j == 0 { (x+1, 0, 0, 0, 0, 0, 0, 0, 0, 1, true, 0, nxt(s)) }
    else {
        let a = bt_spec(x, (j-1) as nat, s);
        if a.10 { let b = bt_spec(a.0, (j-1) as nat, a.12); (b.0, 0,0,0,0,0,0,0,0, a.9 + b.9, b.10, 0, b.12) } else { a }
    }
}

fn build_tree(x: u64, j: usize, rng: &mut Rng) -> (r: (u64, u64, u64, u64, u64, u64, u64, u64, u64, usize, bool, u64, usize))
    decreases j
{
    if j == 0 {
        let u = rng.random();
        let n_prime = (u < 5) as usize;
        let v = (2 * (u < 7) as i8) - 1;
        (x, 0, 0, 0, 0, 0, 0, 0, 0, n_prime, true, 0, 1_usize)
    } else {
        let (mut a0, a1, a2, a3, a4, a5, a6, a7, a8, mut n_prime, mut s_prime, a11, a12) = build_tree(x, j - 1, rng);
        if s_prime {
            let (b0, _, _, _, _, _, _, _, _, n2, s2, _, _) = build_tree(a0, j - 1, rng);
            a0 = b0;
            s_prime = s_prime && s2;
        }
        (a0, a1, a2, a3, a4, a5, a6, a7, a8, n_prime, s_prime, a11, a12)
    }
}

#[verifier::exec_allows_no_decreases_clause]
fn outer(rng: &mut Rng) -> (r: u64) {
    let mut s = true;
    let mut j = 0;
    let mut acc = 0u64;
    while s {
        let u = rng.random();
        s = u > 3;
        acc = u;
    }
    acc
}
} // verus!
fn main() {}
