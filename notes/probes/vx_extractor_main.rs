use syn::visit_mut::VisitMut;
struct R;
impl VisitMut for R {
    fn visit_expr_mut(&mut self, e: &mut syn::Expr) {
        syn::visit_mut::visit_expr_mut(self, e);
        // (A..B).for_each(|p| body)  =>  for p in A..B { body }
        if let syn::Expr::MethodCall(mc) = e {
            if mc.method == "for_each" && mc.args.len() == 1 {
                if let syn::Expr::Closure(cl) = &mc.args[0] {
                    if cl.inputs.len() == 1 {
                        let pat = &cl.inputs[0];
                        let mut recv = (*mc.receiver).clone();
                        if let syn::Expr::Paren(p) = &recv { recv = (*p.expr).clone(); }
                        if let syn::Expr::Range(_) = &recv {
                            let body = &cl.body;
                            let new: syn::Expr = syn::parse_quote!( for #pat in #recv { #body; } );
                            *e = new;
                        }
                    }
                }
            }
        }
    }
}
fn main() {
    let src = std::fs::read_to_string(std::env::args().nth(1).unwrap()).unwrap();
    let mut file = syn::parse_file(&src).unwrap();
    let mut out = vec![];
    for item in &mut file.items {
        if let syn::Item::Impl(imp) = item {
            for ii in &mut imp.items {
                if let syn::ImplItem::Fn(f) = ii {
                    if f.sig.ident == "step" {
                        R.visit_block_mut(&mut f.block);
                        f.attrs.clear();
                        let span = f.sig.ident.span().start();
                        let it: syn::Item = syn::parse_quote!( #f );
                        let file2 = syn::File { shebang: None, attrs: vec![], items: vec![it] };
                        out.push(format!("// line {}\n{}", span.line, prettyplease::unparse(&file2)));
                    }
                }
            }
        }
    }
    println!("{}", out.join("\n"));
}
