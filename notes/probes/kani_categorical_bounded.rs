pub struct SmallRng { pub next: f32 }
impl SmallRng { pub fn random(&mut self) -> f32 { self.next } }
pub struct Categorical { pub probs: Vec<f32>, pub rng: SmallRng }
impl Categorical {
    pub fn new(probs: Vec<f32>, rng: SmallRng) -> Self {
        let sum: f32 = probs.iter().cloned().fold(0.0, |acc, x| acc + x);
        let normalized: Vec<f32> = probs.into_iter().map(|p| p / sum).collect();
        Self { probs: normalized, rng }
    }
    pub fn sample(&mut self) -> usize {
        let r: f32 = self.rng.random();
        let mut cum: f32 = 0.0;
        let mut k = self.probs.len() - 1;
        for (i, &p) in self.probs.iter().enumerate() {
            cum += p;
            if r <= cum {
                k = i;
                break;
            }
        }
        k
    }
}
#[cfg(kani)]
mod proofs {
    use super::*;
    fn weight() -> f32 { let w: f32 = kani::any(); kani::assume(w >= 0.0 && w <= 1.0e6); w }
    #[kani::proof]
    #[kani::unwind(4)]
    fn never_zero_prob_r_positive() {
        // r > 0 excluded from the known r == 0 defect: looks for the rounding-induced fallback
        let w = vec![weight(), weight(), 0.0f32];
        kani::assume(w[0] + w[1] > 0.0);
        let k24: u32 = kani::any(); kani::assume(k24 >= 1 && k24 < (1 << 24));
        let r = (k24 as f32) * (1.0 / 16777216.0);
        let mut c = Categorical::new(w, SmallRng { next: r });
        let k = c.sample();
        assert!(k < 3);
        assert!(c.probs[k] > 0.0);
    }
}
