use vstd::prelude::*;
verus! {
pub struct C { pub rng: u64, pub seed: u64 }
fn t5(chains: &mut Vec<C>, seed: u64) {
    for i in 0..chains.len() {
        let chain = &mut chains[i];
        let chain_seed = 1 + seed + i as u64;
        chain.rng = chain_seed;
    }
}
fn t6(chains: &mut Vec<C>, seed: u64)
{
    for i in it: 0..chains.len()
        invariant it.iter.end == chains.len(), chains.len() == old(chains).len()
    {
        let chain_seed = seed.wrapping_add(i as u64);
        chains[i].rng = chain_seed;
    }
}
fn t3(v: &Vec<u64>) -> (r: u64) {
    let mut s = 0u64;
    for i in 0..v.len() {
        let p = &v[i];
        if *p > 5 { s = *p; break; }
    }
    s
}
} // verus!
fn main() {}
