pub type Fl = f32;
pub struct SmallRng { pub next: Fl }
impl SmallRng { pub fn random(&mut self) -> Fl { self.next } }
pub trait Target<T> { fn unnorm_logp(&self, position: &[T]) -> Fl; }
pub trait Proposal<T> { fn sample(&mut self, current: &[T]) -> Vec<T>; fn logp(&self, from: &[T], to: &[T]) -> Fl; }
pub struct MHMarkovChain<T, D, Q> { pub target: D, pub proposal: Q, pub current_state: Vec<T>, pub rng: SmallRng }
fn ln(x: Fl) -> Fl { x } // identity placeholder: u.ln() abstracted: harness picks ln_u directly
trait Ln { fn ln_(self) -> Self; }
impl<T: PartialEq + Clone, D: Target<T>, Q: Proposal<T>> MHMarkovChain<T, D, Q> {
    pub fn step(&mut self) -> &Vec<T> {
        let proposed: Vec<T> = self.proposal.sample(&self.current_state);
        let current_lp = self.target.unnorm_logp(&self.current_state);
        let proposed_lp = self.target.unnorm_logp(&proposed);
        let log_q_forward = self.proposal.logp(&self.current_state, &proposed);
        let log_q_backward = self.proposal.logp(&proposed, &self.current_state);
        let log_accept_ratio = (proposed_lp + log_q_backward) - (current_lp + log_q_forward);
        let u: Fl = self.rng.random();
        if log_accept_ratio > ln(u) {
            self.current_state = proposed;
        }
        &self.current_state
    }
}

#[cfg(kani)]
mod proofs {
    use super::*;
    struct Tg { px: f32, py: f32 }
    impl Target<u8> for Tg { fn unnorm_logp(&self, p: &[u8]) -> f32 { if p[0] == 0 { self.px } else { self.py } } }
    struct Pr { qxy: f32, qyx: f32 }
    impl Proposal<u8> for Pr {
        fn sample(&mut self, _c: &[u8]) -> Vec<u8> { vec![1u8] }
        fn logp(&self, from: &[u8], _to: &[u8]) -> f32 { if from[0] == 0 { self.qxy } else { self.qyx } }
    }
    #[kani::proof]
    fn mh_step_rule() {
        let (px, py, qxy, qyx, lnu): (f32, f32, f32, f32, f32) = (kani::any(), kani::any(), kani::any(), kani::any(), kani::any());
        let mut c = MHMarkovChain { target: Tg { px, py }, proposal: Pr { qxy, qyx }, current_state: vec![0u8], rng: SmallRng { next: lnu } };
        let r = c.step()[0];
        let expect = lnu < (py + qyx) - (px + qxy);
        assert!((r == 1) == expect);
    }
}
