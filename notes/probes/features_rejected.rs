use vstd::prelude::*;
verus! {

#[verifier::external_body]
#[derive(Clone, Copy)]
pub struct Fl { v: f64 }
pub uninterp spec fn val(f: Fl) -> real;

pub trait ToFl { spec fn as_real(&self) -> real; }
impl ToFl for f64 { uninterp spec fn as_real(&self) -> real; }
impl ToFl for usize { open spec fn as_real(&self) -> real { *self as real } }
impl ToFl for i32 { open spec fn as_real(&self) -> real { *self as real } }

impl Fl {
    #[verifier::external_body]
    pub fn from<X: ToFl>(x: X) -> (r: Option<Fl>) ensures r is Some, val(r->0) == x.as_real() { unimplemented!() }
}

fn t1() -> (r: Fl) {
    let h = Fl::from(0.5).unwrap();
    let two = Fl::from(2).unwrap();
    h
}

fn t2(b: bool) -> (r: usize) ensures r == (if b { 1usize } else { 0usize }) {
    b as usize
}

fn t3(v: &Vec<u64>) -> (r: u64) {
    let mut s = 0u64;
    for (i, &p) in v.iter().enumerate() {
        if p > 5 { s = p; break; }
    }
    s
}

fn t4(a: &[u64], b: &[u64]) -> (r: u64) {
    let mut s = 0u64;
    for (&f, &t) in a.iter().zip(b.iter()) {
        if f > t { s = 1; }
    }
    s
}

pub struct C { pub rng: u64 }
fn t5(chains: &mut Vec<C>, seed: u64) {
    for (i, chain) in chains.iter_mut().enumerate() {
        let chain_seed = 1 + seed + i as u64;
        chain.rng = chain_seed;
    }
}

} // verus!
fn main() {}
