use vstd::prelude::*;
use vstd::std_specs::ops::*;
use vstd::std_specs::cmp::*;
verus! {

pub enum XR { NaN, NegInf, PosInf, Fin(real) }

#[verifier::external_body]
#[derive(Clone, Copy)]
pub struct Fl { v: f64 }

pub uninterp spec fn val(f: Fl) -> XR;
pub uninterp spec fn mk(x: XR) -> Fl;
pub broadcast axiom fn ax_mk(x: XR) ensures #[trigger] val(mk(x)) == x;

pub open spec fn xr_neg(a: XR) -> XR {
    match a { XR::NaN => XR::NaN, XR::NegInf => XR::PosInf, XR::PosInf => XR::NegInf, XR::Fin(x) => XR::Fin(-x) }
}
pub open spec fn xr_add(a: XR, b: XR) -> XR {
    match (a, b) {
        (XR::NaN, _) => XR::NaN,
        (_, XR::NaN) => XR::NaN,
        (XR::PosInf, XR::NegInf) => XR::NaN,
        (XR::NegInf, XR::PosInf) => XR::NaN,
        (XR::PosInf, _) => XR::PosInf,
        (_, XR::PosInf) => XR::PosInf,
        (XR::NegInf, _) => XR::NegInf,
        (_, XR::NegInf) => XR::NegInf,
        (XR::Fin(x), XR::Fin(y)) => XR::Fin(x + y),
    }
}
pub open spec fn xr_sub(a: XR, b: XR) -> XR { xr_add(a, xr_neg(b)) }
pub open spec fn xr_gt(a: XR, b: XR) -> bool {
    match (a, b) {
        (XR::NaN, _) => false,
        (_, XR::NaN) => false,
        (XR::PosInf, XR::PosInf) => false,
        (XR::PosInf, _) => true,
        (_, XR::PosInf) => false,
        (XR::NegInf, _) => false,
        (_, XR::NegInf) => true,
        (XR::Fin(x), XR::Fin(y)) => x > y,
    }
}
pub uninterp spec fn xr_ln(a: XR) -> XR;

impl core::ops::Add for Fl {
    type Output = Fl;
    #[verifier::external_body]
    fn add(self, rhs: Fl) -> (r: Fl) { Fl { v: self.v + rhs.v } }
}
impl AddSpecImpl for Fl {
    open spec fn obeys_add_spec() -> bool { true }
    open spec fn add_req(self, rhs: Fl) -> bool { true }
    open spec fn add_spec(self, rhs: Fl) -> Fl { mk(xr_add(val(self), val(rhs))) }
}
impl core::ops::Sub for Fl {
    type Output = Fl;
    #[verifier::external_body]
    fn sub(self, rhs: Fl) -> (r: Fl) { Fl { v: self.v - rhs.v } }
}
impl SubSpecImpl for Fl {
    open spec fn obeys_sub_spec() -> bool { true }
    open spec fn sub_req(self, rhs: Fl) -> bool { true }
    open spec fn sub_spec(self, rhs: Fl) -> Fl { mk(xr_sub(val(self), val(rhs))) }
}
impl PartialEq for Fl {
    #[verifier::external_body]
    fn eq(&self, other: &Fl) -> bool { self.v == other.v }
}
impl PartialOrd for Fl {
    #[verifier::external_body]
    fn partial_cmp(&self, other: &Fl) -> Option<core::cmp::Ordering> { self.v.partial_cmp(&other.v) }
}
pub open spec fn xr_pcmp(a: XR, b: XR) -> Option<core::cmp::Ordering> {
    if xr_gt(a,b) { Some(core::cmp::Ordering::Greater) }
    else if xr_gt(b,a) { Some(core::cmp::Ordering::Less) }
    else if a is NaN || b is NaN { None }
    else { Some(core::cmp::Ordering::Equal) }
}
impl PartialOrdSpecImpl for Fl {
    open spec fn obeys_partial_cmp_spec() -> bool { true }
    open spec fn partial_cmp_spec(&self, other: &Fl) -> Option<core::cmp::Ordering> { xr_pcmp(val(*self), val(*other)) }
}
impl PartialEqSpecImpl for Fl {
    open spec fn obeys_eq_spec() -> bool { true }
    open spec fn eq_spec(&self, other: &Fl) -> bool { xr_pcmp(val(*self), val(*other)) == Some(core::cmp::Ordering::Equal) }
}
impl Fl {
    #[verifier::external_body]
    pub fn ln(self) -> (r: Fl) ensures val(r) == xr_ln(val(self)) { Fl { v: self.v.ln() } }
}

// RNG
#[verifier::external_body]
pub struct SmallRng { s: u64 }
impl SmallRng {
    pub uninterp spec fn draws(&self) -> Seq<Fl>;   // ghost history of uniforms handed out
    #[verifier::external_body]
    pub fn random(&mut self) -> (u: Fl)
        ensures final(self).draws() == old(self).draws().push(u)
    { unimplemented!() }
}

pub trait Target<T> {
    spec fn logp_spec(&self, x: Seq<T>) -> Fl;
    fn unnorm_logp(&self, position: &[T]) -> (r: Fl)
        ensures r == self.logp_spec(position@);
}
pub trait Proposal<T>: Sized {
    spec fn q_spec(&self, from: Seq<T>, to: Seq<T>) -> Fl;
    spec fn proposed(&self) -> Seq<Seq<T>>;  // ghost history of candidates
    spec fn same_density(&self, other: &Self) -> bool;
    fn sample(&mut self, current: &[T]) -> (r: Vec<T>)
        ensures final(self).proposed() == old(self).proposed().push(r@),
                forall |a: Seq<T>, b: Seq<T>| final(self).q_spec(a, b) == old(self).q_spec(a, b);
    fn logp(&self, from: &[T], to: &[T]) -> (r: Fl)
        ensures r == self.q_spec(from@, to@);
}

pub struct MHMarkovChain<T, D, Q> {
    pub target: D,
    pub proposal: Q,
    pub current_state: Vec<T>,
    pub rng: SmallRng,
}

pub open spec fn mh_ratio<T, D: Target<T>, Q: Proposal<T>>(d: &D, q: &Q, x: Seq<T>, y: Seq<T>) -> XR {
    xr_sub(xr_add(val(d.logp_spec(y)), val(q.q_spec(y, x))), xr_add(val(d.logp_spec(x)), val(q.q_spec(x, y))))
}

impl<T, D: Target<T>, Q: Proposal<T>> MHMarkovChain<T, D, Q> {
    fn step(&mut self) -> (ret: &Vec<T>)
        ensures
            final(self).rng.draws().len() == old(self).rng.draws().len() + 1,
            final(self).proposal.proposed().len() == old(self).proposal.proposed().len() + 1,
            ({
                let x = old(self).current_state@;
                let y = final(self).proposal.proposed().last();
                let u = final(self).rng.draws().last();
                final(self).current_state@ == (if xr_gt(mh_ratio(&old(self).target, &old(self).proposal, x, y), xr_ln(val(u))) { y } else { x })
            }),
            ret@ == final(self).current_state@,
    {
        broadcast use ax_mk;
        let proposed: Vec<T> = self.proposal.sample(&self.current_state);
        let current_lp = self.target.unnorm_logp(&self.current_state);
        let proposed_lp = self.target.unnorm_logp(&proposed);
        let log_q_forward = self.proposal.logp(&self.current_state, &proposed);
        let log_q_backward = self.proposal.logp(&proposed, &self.current_state);
        let log_accept_ratio = (proposed_lp + log_q_backward) - (current_lp + log_q_forward);
        let u: Fl = self.rng.random();
        if log_accept_ratio > u.ln() {
            self.current_state = proposed;
        }
        &self.current_state
    }
}

} // verus!
fn main() {}
