use vstd::prelude::*;
use vstd::std_specs::ops::*;
use vstd::std_specs::cmp::*;
verus! {
pub enum XR { NaN, NegInf, PosInf, Fin(real) }

#[verifier::external_body]
#[derive(Clone, Copy)]
pub struct Fl { v: f64 }

pub uninterp spec fn val(f: Fl) -> XR;
pub uninterp spec fn mk(x: XR) -> Fl;
pub broadcast axiom fn ax_mk(x: XR) ensures #[trigger] val(mk(x)) == x;

pub open spec fn xr_neg(a: XR) -> XR {
    match a { XR::NaN => XR::NaN, XR::NegInf => XR::PosInf, XR::PosInf => XR::NegInf, XR::Fin(x) => XR::Fin(-x) }
}
pub open spec fn xr_add(a: XR, b: XR) -> XR {
    match (a, b) {
        (XR::NaN, _) => XR::NaN,
        (_, XR::NaN) => XR::NaN,
        (XR::PosInf, XR::NegInf) => XR::NaN,
        (XR::NegInf, XR::PosInf) => XR::NaN,
        (XR::PosInf, _) => XR::PosInf,
        (_, XR::PosInf) => XR::PosInf,
        (XR::NegInf, _) => XR::NegInf,
        (_, XR::NegInf) => XR::NegInf,
        (XR::Fin(x), XR::Fin(y)) => XR::Fin(x + y),
    }
}
pub open spec fn xr_sub(a: XR, b: XR) -> XR { xr_add(a, xr_neg(b)) }
pub open spec fn xr_gt(a: XR, b: XR) -> bool {
    match (a, b) {
        (XR::NaN, _) => false,
        (_, XR::NaN) => false,
        (XR::PosInf, XR::PosInf) => false,
        (XR::PosInf, _) => true,
        (_, XR::PosInf) => false,
        (XR::NegInf, _) => false,
        (_, XR::NegInf) => true,
        (XR::Fin(x), XR::Fin(y)) => x > y,
    }
}
pub uninterp spec fn xr_ln(a: XR) -> XR;

impl core::ops::Add for Fl {
    type Output = Fl;
    #[verifier::external_body]
    fn add(self, rhs: Fl) -> (r: Fl) { Fl { v: self.v + rhs.v } }
}
impl AddSpecImpl for Fl {
    open spec fn obeys_add_spec() -> bool { true }
    open spec fn add_req(self, rhs: Fl) -> bool { true }
    open spec fn add_spec(self, rhs: Fl) -> Fl { mk(xr_add(val(self), val(rhs))) }
}
impl core::ops::Sub for Fl {
    type Output = Fl;
    #[verifier::external_body]
    fn sub(self, rhs: Fl) -> (r: Fl) { Fl { v: self.v - rhs.v } }
}
impl SubSpecImpl for Fl {
    open spec fn obeys_sub_spec() -> bool { true }
    open spec fn sub_req(self, rhs: Fl) -> bool { true }
    open spec fn sub_spec(self, rhs: Fl) -> Fl { mk(xr_sub(val(self), val(rhs))) }
}
impl PartialEq for Fl {
    #[verifier::external_body]
    fn eq(&self, other: &Fl) -> bool { self.v == other.v }
}
impl PartialOrd for Fl {
    #[verifier::external_body]
    fn partial_cmp(&self, other: &Fl) -> Option<core::cmp::Ordering> { self.v.partial_cmp(&other.v) }
}
pub open spec fn xr_pcmp(a: XR, b: XR) -> Option<core::cmp::Ordering> {
    if xr_gt(a,b) { Some(core::cmp::Ordering::Greater) }
    else if xr_gt(b,a) { Some(core::cmp::Ordering::Less) }
    else if a is NaN || b is NaN { None }
    else { Some(core::cmp::Ordering::Equal) }
}
impl PartialOrdSpecImpl for Fl {
    open spec fn obeys_partial_cmp_spec() -> bool { true }
    open spec fn partial_cmp_spec(&self, other: &Fl) -> Option<core::cmp::Ordering> { xr_pcmp(val(*self), val(*other)) }
}
impl PartialEqSpecImpl for Fl {
    open spec fn obeys_eq_spec() -> bool { true }
    open spec fn eq_spec(&self, other: &Fl) -> bool { xr_pcmp(val(*self), val(*other)) == Some(core::cmp::Ordering::Equal) }
}
impl Fl {
    #[verifier::external_body]
    pub fn ln(self) -> (r: Fl) ensures val(r) == xr_ln(val(self)) { Fl { v: self.v.ln() } }
}

// RNG
pub open spec fn xr_mul(a: XR, b: XR) -> XR {
    match (a, b) {
        (XR::NaN, _) => XR::NaN,
        (_, XR::NaN) => XR::NaN,
        (XR::Fin(x), XR::Fin(y)) => XR::Fin(x * y),
        (XR::Fin(x), i) => if x == 0real { XR::NaN } else if x > 0real { i } else { xr_neg(i) },
        (i, XR::Fin(y)) => if y == 0real { XR::NaN } else if y > 0real { i } else { xr_neg(i) },
        (XR::PosInf, XR::PosInf) => XR::PosInf,
        (XR::NegInf, XR::NegInf) => XR::PosInf,
        _ => XR::NegInf,
    }
}
impl core::ops::Mul for Fl {
    type Output = Fl;
    #[verifier::external_body]
    fn mul(self, rhs: Fl) -> (r: Fl) { Fl { v: self.v * rhs.v } }
}
impl MulSpecImpl for Fl {
    open spec fn obeys_mul_spec() -> bool { true }
    open spec fn mul_req(self, rhs: Fl) -> bool { true }
    open spec fn mul_spec(self, rhs: Fl) -> Fl { mk(xr_mul(val(self), val(rhs))) }
}

pub type V = Seq<XR>;
pub open spec fn vzip(a: V, b: V, f: spec_fn(XR, XR) -> XR) -> V { Seq::new(a.len(), |i: int| f(a[i], b[i])) }
pub open spec fn vmap(a: V, f: spec_fn(XR) -> XR) -> V { Seq::new(a.len(), |i: int| f(a[i])) }
pub open spec fn vadd(a: V, b: V) -> V { vzip(a, b, |x, y| xr_add(x, y)) }
pub open spec fn vscale(a: V, c: XR) -> V { vmap(a, |x| xr_mul(x, c)) }
pub type M = Seq<Seq<XR>>;
pub open spec fn madd(a: M, b: M) -> M { Seq::new(a.len(), |i: int| vadd(a[i], b[i])) }
pub open spec fn mscale(a: M, c: XR) -> M { Seq::new(a.len(), |i: int| vscale(a[i], c)) }
pub open spec fn wf(a: M, n: nat, d: nat) -> bool { a.len() == n && forall |i: int| 0 <= i < n ==> (#[trigger] a[i]).len() == d }

pub trait Backend { }
pub trait AutodiffBackend: Backend { type InnerBackend: Backend; }

#[verifier::external_body]
#[verifier::accept_recursive_types(B)]
pub struct Tensor<B, const D: usize> { _b: core::marker::PhantomData<B> }

#[verifier::external_body]
#[verifier::accept_recursive_types(B)]
pub struct Gradients<B> { _b: core::marker::PhantomData<B> }

// rank-2 and rank-1 views
pub uninterp spec fn v2<B>(t: Tensor<B, 2>) -> M;
pub uninterp spec fn v1<B>(t: Tensor<B, 1>) -> V;
// autodiff provenance: the tensor a rank-1 result was computed from (as a rank-2 leaf), and by which row function
pub uninterp spec fn ad_leaf<B>(t: Tensor<B, 1>) -> M;
pub uninterp spec fn ad_grad<B>(t: Tensor<B, 1>) -> M;   // d(sum t)/d(leaf)
pub uninterp spec fn g_of<B>(g: Gradients<B>) -> (M, M); // (leaf value, gradient)

impl<B: AutodiffBackend> Tensor<B, 2> {
    #[verifier::external_body]
    pub fn clone(&self) -> (r: Self) ensures r == *self { unimplemented!() }
    #[verifier::external_body]
    pub fn detach(self) -> (r: Self) ensures v2(r) == v2(self) { unimplemented!() }
    #[verifier::external_body]
    pub fn require_grad(self) -> (r: Self) ensures v2(r) == v2(self) { unimplemented!() }
    #[verifier::external_body]
    pub fn add(self, o: Self) -> (r: Self) ensures v2(r) == madd(v2(self), v2(o)) { unimplemented!() }
    #[verifier::external_body]
    pub fn mul_scalar(self, c: Fl) -> (r: Self) ensures v2(r) == mscale(v2(self), val(c)) { unimplemented!() }
    #[verifier::external_body]
    pub fn inplace<F: FnOnce(Self) -> Self>(&mut self, f: F)
        requires f.requires((*old(self),))
        ensures f.ensures((*old(self),), *final(self))
    { unimplemented!() }
    #[verifier::external_body]
    pub fn grad(&self, g: &Gradients<B>) -> (r: Option<Tensor<B::InnerBackend, 2>>)
        ensures g_of(*g).0 == v2(*self) ==> (r is Some && vi2(r->0) == g_of(*g).1)
    { unimplemented!() }
    #[verifier::external_body]
    pub fn from_inner(t: Tensor<B::InnerBackend, 2>) -> (r: Self) ensures v2(r) == vi2(t) { unimplemented!() }
}
pub uninterp spec fn vi2<B>(t: Tensor<B, 2>) -> M;
impl<B: Backend> Tensor<B, 2> {
    #[verifier::external_body]
    pub fn mul_scalar_inner(self, c: Fl) -> (r: Self) ensures vi2(r) == mscale(vi2(self), val(c)) { unimplemented!() }
}
impl<B: AutodiffBackend> Tensor<B, 1> {
    #[verifier::external_body]
    pub fn backward(&self) -> (g: Gradients<B>) ensures g_of(g) == (ad_leaf(*self), ad_grad(*self)) { unimplemented!() }
    #[verifier::external_body]
    pub fn detach(self) -> (r: Self) ensures v1(r) == v1(self) { unimplemented!() }
}

pub trait BatchedGradientTarget<B: AutodiffBackend> {
    spec fn logp(&self, x: V) -> XR;
    spec fn grad(&self, x: V) -> V;
    fn unnorm_logp_batch(&self, positions: Tensor<B, 2>) -> (r: Tensor<B, 1>)
        ensures
            v1(r).len() == v2(positions).len(),
            forall |i: int| 0 <= i < v2(positions).len() ==> #[trigger] v1(r)[i] == self.logp(v2(positions)[i]),
            ad_leaf(r) == v2(positions),
            ad_grad(r).len() == v2(positions).len(),
            forall |i: int| 0 <= i < v2(positions).len() ==> #[trigger] ad_grad(r)[i] == self.grad(v2(positions)[i]);
}

pub struct HMC<B: AutodiffBackend, GTarget> {
    pub target: GTarget,
    pub step_size: Fl,
    pub n_leapfrog: usize,
    pub positions: Tensor<B, 2>,
    last_grad_summands: Tensor<B, 2>,
}

// one velocity-Verlet step on a row, eps and half-eps given
pub open spec fn verlet<B: AutodiffBackend, G: BatchedGradientTarget<B>>(t: &G, eps: XR, h: XR, x: V, p: V) -> (V, V) {
    let p1 = vadd(p, vscale(t.grad(x), h));
    let x1 = vadd(x, vscale(p1, eps));
    let p2 = vadd(p1, vscale(t.grad(x1), h));
    (x1, p2)
}
pub open spec fn verlet_n<B: AutodiffBackend, G: BatchedGradientTarget<B>>(t: &G, eps: XR, h: XR, x: V, p: V, n: nat) -> (V, V)
    decreases n
{
    if n == 0 { (x, p) } else { let (x1, p1) = verlet_n::<B, G>(t, eps, h, x, p, (n - 1) as nat); verlet::<B, G>(t, eps, h, x1, p1) }
}

impl<B: AutodiffBackend, GTarget: BatchedGradientTarget<B>> HMC<B, GTarget> {
    fn leapfrog(&mut self, mut pos: Tensor<B, 2>, mut mom: Tensor<B, 2>) -> (out: (Tensor<B, 2>, Tensor<B, 2>, Tensor<B, 1>))
        requires
            v2(pos).len() == v2(mom).len(),
            v2(old(self).last_grad_summands).len() == v2(pos).len(),
            forall |i: int| 0 <= i < v2(pos).len() ==> #[trigger] v2(old(self).last_grad_summands)[i]
                == vscale(old(self).target.grad(v2(pos)[i]), xr_mul(val(old(self).step_size), XR::Fin(0.5real))),
        ensures
            v2(out.0).len() == v2(pos).len(),
            forall |i: int| 0 <= i < v2(pos).len() ==> (#[trigger] v2(out.0)[i], v2(out.1)[i])
                == verlet_n::<B, GTarget>(&old(self).target, val(old(self).step_size), xr_mul(val(old(self).step_size), XR::Fin(0.5real)), v2(pos)[i], v2(mom)[i], old(self).n_leapfrog as nat),
    {
        let half = half_lit();
        let ghost pos0 = v2(pos);
        let ghost mom0 = v2(mom);
        let ghost n = v2(pos).len();
        let ghost eps = val(self.step_size);
        let ghost h = xr_mul(val(self.step_size), XR::Fin(0.5real));
        broadcast use ax_mk;
        for _step_i in it: 0..self.n_leapfrog
            invariant
                it.iter.end == old(self).n_leapfrog,
                self.target == old(self).target,
                self.step_size == old(self).step_size,
                self.n_leapfrog == old(self).n_leapfrog,
                val(half) == XR::Fin(0.5real),
                eps == val(self.step_size),
                h == xr_mul(val(self.step_size), XR::Fin(0.5real)),
                v2(pos).len() == n, v2(mom).len() == n, v2(self.last_grad_summands).len() == n,
                pos0.len() == n, mom0.len() == n,
                forall |i: int| 0 <= i < n ==> (#[trigger] v2(pos)[i], v2(mom)[i]) == verlet_n::<B, GTarget>(&self.target, eps, h, pos0[i], mom0[i], _step_i as nat),
                forall |i: int| 0 <= i < n ==> #[trigger] v2(self.last_grad_summands)[i] == vscale(self.target.grad(v2(pos)[i]), h),
        {
            let ghost pos_in = v2(pos);
            let ghost mom_in = v2(mom);
            let ghost lgs_in = self.last_grad_summands;
            // Detach pos to ensure it's AD-enabled for the gradient computation.
            pos = pos.detach().require_grad();

            // Update momentum by a half-step using the computed gradients.
            mom.inplace(|_mom: Tensor<B, 2>| -> (r: Tensor<B, 2>) ensures v2(r) == madd(v2(_mom), v2(self.last_grad_summands)) { _mom.add(self.last_grad_summands.clone()) });

            // Full-step update for positions.
            pos.inplace(|_pos: Tensor<B, 2>| -> (r: Tensor<B, 2>) ensures v2(r) == madd(v2(_pos), mscale(v2(mom), val(self.step_size))) {
                _pos.add(mom.clone().mul_scalar(self.step_size))
                    .detach()
                    .require_grad()
            });

            // Compute gradient at the new positions.
            let logp = self.target.unnorm_logp_batch(pos.clone());
            let grads = pos.grad(&logp.backward()).unwrap();
            let ghost gin = vi2(grads);
            let grad_summands = Tensor::<B, 2>::from_inner(grads.mul_scalar_inner(self.step_size * half));

            let ghost grads_s = grad_summands;
            proof {
                broadcast use ax_mk;
                assert(ad_leaf(logp) == v2(pos));
                assert(gin == ad_grad(logp));
                assert(v2(grad_summands) == mscale(ad_grad(logp), xr_mul(val(self.step_size), val(half))));
                assert forall |i: int| 0 <= i < n implies #[trigger] v2(grad_summands)[i] == vscale(self.target.grad(v2(pos)[i]), h) by {
                    assert(ad_grad(logp)[i] == self.target.grad(v2(pos)[i]));
                }
            }
            // Update momentum by another half-step using the new gradients.
            mom.inplace(|_mom: Tensor<B, 2>| -> (r: Tensor<B, 2>) ensures v2(r) == madd(v2(_mom), v2(grad_summands)) { _mom.add(grad_summands.clone()) });

            self.last_grad_summands = grad_summands;
            proof {
                assert forall |i: int| 0 <= i < n implies (#[trigger] v2(pos)[i], v2(mom)[i]) == verlet_n::<B, GTarget>(&self.target, eps, h, pos0[i], mom0[i], (_step_i + 1) as nat) by {
                    let prev = verlet_n::<B, GTarget>(&self.target, eps, h, pos0[i], mom0[i], _step_i as nat);
                    assert(prev == (pos_in[i], mom_in[i]));
                    assert(v2(lgs_in)[i] == vscale(self.target.grad(pos_in[i]), h));
                    assert(v2(grads_s)[i] == vscale(self.target.grad(v2(pos)[i]), h));
                }
                assert forall |i: int| 0 <= i < n implies #[trigger] v2(self.last_grad_summands)[i] == vscale(self.target.grad(v2(pos)[i]), h) by {
                    assert(v2(grads_s)[i] == vscale(self.target.grad(v2(pos)[i]), h));
                }
            }
        }

        // Compute final log probability at the updated positions.
        let logp_final = self.target.unnorm_logp_batch(pos.clone());
        (pos.detach(), mom.detach(), logp_final.detach())
    }
}
pub uninterp spec fn half_xr() -> XR;
#[verifier::external_body]
pub fn half_lit() -> (r: Fl) ensures val(r) == XR::Fin(0.5real) { unimplemented!() }

} // verus!
fn main() {}
