use vstd::prelude::*;
verus! {
pub trait MarkovChain<T>: Sized {
    spec fn st(&self) -> Seq<T>;
    spec fn step_rel(pre: Self, post: Self) -> bool;
    fn step(&mut self) -> (r: &Vec<T>)
        ensures Self::step_rel(*old(self), *final(self)), r@ == final(self).st();
}
pub struct Ch { pub s: Vec<u64>, pub k: u64 }
impl MarkovChain<u64> for Ch {
    open spec fn st(&self) -> Seq<u64> { self.s@ }
    open spec fn step_rel(pre: Self, post: Self) -> bool { post.k == pre.k.wrapping_add(1) && post.s@ == pre.s@ }
    fn step(&mut self) -> (r: &Vec<u64>)
        ensures final(self).k == old(self).k.wrapping_add(1)   // extra ensures on the impl
    {
        self.k = self.k.wrapping_add(1);
        &self.s
    }
}
} // verus!
fn main() {}
