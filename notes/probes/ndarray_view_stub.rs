use vstd::prelude::*;
verus! {
#[verifier::external_body]
#[verifier::accept_recursive_types(T)]
pub struct Array2<T> { _t: core::marker::PhantomData<T> }
#[verifier::external_body]
#[verifier::accept_recursive_types(T)]
pub struct ArrayViewMut1<'a, T> { _t: core::marker::PhantomData<&'a mut T> }
#[verifier::external_body]
#[verifier::accept_recursive_types(T)]
pub struct ArrayView1<'a, T> { _t: core::marker::PhantomData<&'a T> }

pub uninterp spec fn a2<T>(a: Array2<T>) -> Seq<Seq<T>>;
pub uninterp spec fn av1<'a, T>(a: ArrayView1<'a, T>) -> Seq<T>;

impl<T> Array2<T> {
    #[verifier::external_body]
    pub fn row_mut<'a>(&'a mut self, k: usize) -> (r: ArrayViewMut1<'a, T>)
        requires k < a2(*old(self)).len()
    { unimplemented!() }
}
impl<'a, T> ArrayViewMut1<'a, T> {
    #[verifier::external_body]
    pub fn assign(&mut self, src: &ArrayView1<T>)
    { unimplemented!() }
}

fn f<T>(out: &mut Array2<T>, s: &ArrayView1<T>)
    requires a2(*old(out)).len() > 3
{
    out.row_mut(2).assign(s);
}
} // verus!
fn main() {}
