use vstd::prelude::*;
verus! {

pub trait Conditional<S>: Sized {
    // what one call may do: relation between the conditional's value before/after, the arguments and the result
    spec fn sample_rel(pre: Self, index: usize, given: Seq<S>, post: Self, ret: S) -> bool;
    fn sample(&mut self, index: usize, given: &[S]) -> (r: S)
        ensures Self::sample_rel(*old(self), index, given@, *final(self), r);
}

pub struct GibbsMarkovChain<S, D> {
    pub target: D,
    pub current_state: Vec<S>,
    pub seed: u64,
}

// A sweep: ds[k], xs[k] are the conditional and the state before call k (k = 0..d), rs[k] the k-th return value
pub open spec fn sweep<S, D: Conditional<S>>(d0: D, x0: Seq<S>, d1: D, x1: Seq<S>, ds: Seq<D>, xs: Seq<Seq<S>>, rs: Seq<S>, k: int) -> bool {
    &&& ds.len() == k + 1 && xs.len() == k + 1 && rs.len() == k
    &&& ds[0] == d0 && xs[0] == x0 && ds[k] == d1 && xs[k] == x1
    &&& forall |i: int| 0 <= i < k ==> #[trigger] D::sample_rel(ds[i], i as usize, xs[i], ds[i + 1], rs[i])
    &&& forall |i: int| 0 <= i < k ==> #[trigger] xs[i + 1] == xs[i].update(i, rs[i])
}
pub open spec fn step_post<S, D: Conditional<S>>(pre: GibbsMarkovChain<S, D>, post: GibbsMarkovChain<S, D>) -> bool {
    exists |ds: Seq<D>, xs: Seq<Seq<S>>, rs: Seq<S>|
        #[trigger] sweep(pre.target, pre.current_state@, post.target, post.current_state@, ds, xs, rs, pre.current_state@.len() as int)
}

impl<S, D: Conditional<S>> GibbsMarkovChain<S, D> {
    fn step(&mut self) -> (ret: &Vec<S>)
        ensures
            step_post(*old(self), *final(self)),
            final(self).seed == old(self).seed,
            ret@ == final(self).current_state@,
    {
        let ghost d0 = self.target;
        let ghost x0 = self.current_state@;
        let ghost mut ds: Seq<D> = seq![self.target];
        let ghost mut xs: Seq<Seq<S>> = seq![self.current_state@];
        let ghost mut rs: Seq<S> = seq![];
        for i in it: 0..self.current_state.len()
            invariant
                it.iter.end == x0.len(),
                self.current_state@.len() == x0.len(),
                self.seed == old(self).seed,
                sweep(d0, x0, self.target, self.current_state@, ds, xs, rs, i as int),
        {
            let ghost dpre = self.target;
            let ghost xpre = self.current_state@;
            self.current_state[i] = self.target.sample(i, &self.current_state);
            proof {
                rs = rs.push(self.current_state@[i as int]);
                ds = ds.push(self.target);
                xs = xs.push(self.current_state@);
                assert(xs[i as int] == xpre && ds[i as int] == dpre);
                assert(self.current_state@ == xpre.update(i as int, rs[i as int]));
            }
        }
        &self.current_state
    }
}

} // verus!
fn main() {}
