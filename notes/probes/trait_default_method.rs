use vstd::prelude::*;
verus! {
pub trait MarkovChain<T> {
    spec fn st(&self) -> Seq<T>;
    fn step(&mut self) -> (r: &Vec<T>) ensures r@ == final(self).st();
}
pub trait HasChains<S> {
    type Chain: MarkovChain<S>;
    spec fn chains_view(&self) -> Seq<Self::Chain>;
    fn chains_mut(&mut self) -> (r: &mut Vec<Self::Chain>)
        ensures r@ == old(self).chains_view(), final(r)@ == final(self).chains_view();
}
pub trait ChainRunner<T>: HasChains<T> {
    fn run(&mut self, n: usize) -> (out: Vec<Vec<T>>)
        ensures out.len() == old(self).chains_view().len()
    {
        let chains = self.chains_mut();
        let mut results: Vec<Vec<T>> = Vec::new();
        for k in it: 0..chains.len()
            invariant it.iter.end == chains.len(), results.len() == k, chains.len() == old(self).chains_view().len()
        {
            let chain = &mut chains[k];
            let v = Vec::new();
            let _s = chain.step();
            results.push(v);
        }
        results
    }
}
} // verus!
fn main() {}
