use vstd::prelude::*;
verus! {

// M_real restricted to finite reals for this probe: Fl ~ real
#[verifier::external_body]
#[derive(Clone, Copy)]
pub struct Fl { v: f64 }
pub uninterp spec fn val(f: Fl) -> real;

#[verifier::external_body]
pub fn fl_zero() -> (r: Fl) ensures val(r) == 0real { unimplemented!() }
#[verifier::external_body]
pub fn fl_add(a: Fl, b: Fl) -> (r: Fl) ensures val(r) == val(a) + val(b) { unimplemented!() }
#[verifier::external_body]
pub fn fl_le(a: Fl, b: Fl) -> (r: bool) ensures r == (val(a) <= val(b)) { unimplemented!() }
#[verifier::external_body]
pub fn fl_lt(a: Fl, b: Fl) -> (r: bool) ensures r == (val(a) < val(b)) { unimplemented!() }

pub open spec fn psum(p: Seq<Fl>, k: int) -> real
    decreases k
{
    if k <= 0 { 0real } else { psum(p, k - 1) + val(p[k - 1]) }
}
pub open spec fn wf(p: Seq<Fl>) -> bool {
    p.len() >= 1 && (forall |i: int| 0 <= i < p.len() ==> val(#[trigger] p[i]) >= 0real) && psum(p, p.len() as int) == 1real
}

proof fn psum_mono(p: Seq<Fl>, a: int, b: int)
    requires 0 <= a <= b <= p.len(), forall |i: int| 0 <= i < p.len() ==> val(#[trigger] p[i]) >= 0real
    ensures psum(p, a) <= psum(p, b)
    decreases b - a
{
    if a < b { psum_mono(p, a, b - 1); }
}

// sample with `r <= cum` (as in repo) : expect never_zero_prob to FAIL
fn sample_le(probs: &Vec<Fl>, r: Fl) -> (k: usize)
    requires wf(probs@), 0real <= val(r) < 1real
    ensures k < probs.len(),
            psum(probs@, k as int) <= val(r) <= psum(probs@, k as int + 1),
            val(probs@[k as int]) > 0real,
{
    let mut cum: Fl = fl_zero();
    let mut k = probs.len() - 1;
    let ghost mut found = false;
    for i in it: 0..probs.len()
        invariant_except_break
            !found, val(cum) == psum(probs@, i as int), k == probs.len() - 1, val(cum) <= val(r),
        invariant
            it.iter.end == probs.len(), wf(probs@),
            0real <= val(r) < 1real,
        ensures
            found ==> (k < probs.len() && psum(probs@, k as int) <= val(r) <= psum(probs@, k as int + 1) && val(probs@[k as int]) > 0real),
            !found ==> (val(cum) == psum(probs@, probs.len() as int) && val(cum) <= val(r)),
    {
        let p = probs[i];
        cum = fl_add(cum, p);
        if fl_lt(r, cum) {
            k = i;
            proof {
                assert(psum(probs@, i as int + 1) == psum(probs@, i as int) + val(probs@[i as int]));
                found = true;
            }
            break;
        }
    }
    proof {
        if !found {
            // loop ran to completion: cum == 1 > r contradiction unless len==0
            assert(false);
        }
    }
    k
}

} // verus!
fn main() {}
