use vstd::prelude::*;
verus! {
pub mod fl {
    use vstd::prelude::*;
    pub enum XR { NaN, Fin(real) }
    #[verifier::external_body]
    #[derive(Clone, Copy)]
    pub struct Fl { v: f64 }
    pub uninterp spec fn val(f: Fl) -> XR;
    pub uninterp spec fn mk(x: XR) -> Fl;
    pub broadcast axiom fn ax_mk(x: XR) ensures #[trigger] val(mk(x)) == x;
    pub broadcast group fl_axioms { ax_mk }
}
pub mod unit {
    use vstd::prelude::*;
    use super::fl::*;
    broadcast use super::fl::fl_axioms;
    fn f(n: usize) {
        let mut i = 0usize;
        while i < n invariant i <= n decreases n - i {
            proof { assert(val(mk(XR::NaN)) == XR::NaN); }
            i += 1;
        }
    }
}
} // verus!
fn main() {}
