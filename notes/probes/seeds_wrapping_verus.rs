use vstd::prelude::*;
verus! {
pub struct C { pub rng: u64 }
pub open spec fn wadd(a: u64, b: u64) -> u64 { ((a as int + b as int) % 0x1_0000_0000_0000_0000int) as u64 }

fn set_seed(chains: &mut Vec<C>, seed: u64)
    ensures final(chains)@.len() == old(chains)@.len(),
        forall |i: int| 0 <= i < final(chains)@.len() ==> (#[trigger] final(chains)@[i]).rng == wadd(wadd(seed, i as u64), 1),
        forall |i: int, j: int| 0 <= i < j < final(chains)@.len() ==> (#[trigger] final(chains)@[i]).rng != (#[trigger] final(chains)@[j]).rng,
{
    let n = chains.len();
    for i in it: 0..n
        invariant it.iter.end == n, chains@.len() == n,
            forall |k: int| 0 <= k < i ==> (#[trigger] chains@[k]).rng == wadd(wadd(seed, k as u64), 1),
    {
        let chain = &mut chains[i];
        let chain_seed = seed.wrapping_add(i as u64).wrapping_add(1);
        chain.rng = chain_seed;
    }
    proof {
        assert forall |i: int, j: int| 0 <= i < j < chains@.len() implies (#[trigger] chains@[i]).rng != (#[trigger] chains@[j]).rng by {
            inj(seed, i as u64, j as u64);
        }
    }
}
proof fn inj(s: u64, i: u64, j: u64)
    requires i != j
    ensures wadd(wadd(s, i), 1) != wadd(wadd(s, j), 1)
{
}
} // verus!
fn main() {}
