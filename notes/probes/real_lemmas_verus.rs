use vstd::prelude::*;
verus! {
proof fn running_mean(m: real, s: real, x: real, n: real)
    requires n >= 2real, m * (n - 1real) == s
    ensures ((m * (n - 1real) + x) / n) * n == s + x
{
    assert(((m * (n - 1real) + x) / n) * n == m * (n - 1real) + x) by(nonlinear_arith) requires n >= 2real;
}
proof fn unbiased_var(msq: real, m: real, n: real, ss: real, s: real)
    requires n >= 2real, msq * n == ss, m * n == s
    ensures (msq - m * m) * n / (n - 1real) * (n - 1real) * n == n * ss - s * s
{
    assert((msq - m * m) * n / (n - 1real) * (n - 1real) == (msq - m * m) * n) by(nonlinear_arith) requires n >= 2real;
    assert((msq - m * m) * n * n == n * (msq * n) - (m * n) * (m * n)) by(nonlinear_arith);
}
proof fn db(a: real, b: real)
    requires a > 0real, b > 0real
    ensures a * (if b / a < 1real { b / a } else { 1real }) == b * (if a / b < 1real { a / b } else { 1real })
{
    assert((b / a) * a == b) by(nonlinear_arith) requires a > 0real;
    assert((a / b) * b == a) by(nonlinear_arith) requires b > 0real;
    assert(a * (b / a) == b) by(nonlinear_arith) requires (b / a) * a == b;
    assert(b * (a / b) == a) by(nonlinear_arith) requires (a / b) * b == a;
    assert((b / a < 1real) == (b < a)) by(nonlinear_arith) requires a > 0real, (b / a) * a == b;
    assert((a / b < 1real) == (a < b)) by(nonlinear_arith) requires b > 0real, (a / b) * b == a;
}
} // verus!
fn main() {}
