use vstd::prelude::*;
verus! {
#[verifier::external_body]
#[verifier::accept_recursive_types(T)]
pub struct Array2<T> { _t: core::marker::PhantomData<T> }
#[verifier::external_body]
#[verifier::accept_recursive_types(T)]
pub struct ArrayView1<'a, T> { _t: core::marker::PhantomData<&'a T> }
pub uninterp spec fn a2<T>(a: Array2<T>) -> Seq<Seq<T>>;
pub uninterp spec fn av1<'a, T>(a: ArrayView1<'a, T>) -> Seq<T>;
pub uninterp spec fn zero<T>() -> T;

pub trait LinalgScalar: Sized {}

impl<T: LinalgScalar> Array2<T> {
    #[verifier::external_body]
    pub fn zeros(shape: (usize, usize)) -> (r: Self)
        ensures a2(r).len() == shape.0, forall |i: int| 0 <= i < shape.0 ==> (#[trigger] a2(r)[i]).len() == shape.1
    { unimplemented!() }
}
#[verifier::external_body]
pub fn nd_row_assign<T>(a: &mut Array2<T>, k: usize, src: &ArrayView1<T>)
    requires k < a2(*old(a)).len(), a2(*old(a))[k as int].len() == av1(*src).len()
    ensures a2(*final(a)) == a2(*old(a)).update(k as int, av1(*src))
{ unimplemented!() }
#[verifier::external_body]
pub fn view_from_shape<'a, T>(n: usize, s: &'a [T]) -> (r: Result<ArrayView1<'a, T>, ()>)
    ensures n == s@.len() ==> (r is Ok && av1(r->Ok_0) == s@)
{ unimplemented!() }

pub trait MarkovChain<T>: Sized {
    spec fn st(&self) -> Seq<T>;
    spec fn step_rel(pre: Self, post: Self) -> bool;
    fn step(&mut self) -> (r: &Vec<T>)
        ensures Self::step_rel(*old(self), *final(self)),
                final(self).st().len() == old(self).st().len(),
                r@ == final(self).st();
    fn current_state(&self) -> (r: &Vec<T>) ensures r@ == self.st();
}

// h[0] = chain at entry, h[i] = chain after i transitions
pub open spec fn hist_ok<T, M: MarkovChain<T>>(h: Seq<M>, first: M, last: M, total: int) -> bool {
    &&& h.len() == total + 1 && h[0] == first && h[total] == last
    &&& forall |i: int| 0 <= i < total ==> #[trigger] M::step_rel(h[i], h[i + 1])
}
pub open spec fn run_post<T, M: MarkovChain<T>>(pre: M, post: M, out: Seq<Seq<T>>, n_collect: int, n_discard: int) -> bool {
    exists |h: Seq<M>| #[trigger] hist_ok::<T, M>(h, pre, post, n_collect + n_discard)
        && out.len() == n_collect
        && forall |k: int| 0 <= k < n_collect ==> #[trigger] out[k] == h[n_discard + k + 1].st()
}

pub fn run_chain<T, M>(chain: &mut M, n_collect: usize, n_discard: usize) -> (out: Array2<T>)
where
    M: MarkovChain<T>,
    T: LinalgScalar,
    requires n_collect + n_discard <= usize::MAX
    ensures run_post::<T, M>(*old(chain), *final(chain), a2(out), n_collect as int, n_discard as int),
{
    let dim = chain.current_state().len();
    let mut out = Array2::<T>::zeros((n_collect, dim));
    let total = n_collect + n_discard;
    let ghost mut h: Seq<M> = seq![*chain];

    for i in it: 0..total
        invariant
            it.iter.end == total, total == n_collect + n_discard,
            chain.st().len() == dim,
            a2(out).len() == n_collect,
            forall |r: int| 0 <= r < n_collect ==> (#[trigger] a2(out)[r]).len() == dim,
            hist_ok::<T, M>(h, *old(chain), *chain, i as int),
            forall |k: int| 0 <= k < n_collect && k + n_discard < i ==> #[trigger] a2(out)[k] == h[n_discard + k + 1].st(),
    {
        let state = chain.step();
        if i >= n_discard {
            let state_arr = view_from_shape(state.len(), state.as_slice()).unwrap();
            nd_row_assign(&mut out, i - n_discard, &state_arr);
        }
        proof { h = h.push(*chain); }
    }

    out
}
} // verus!
fn main() {}
