use vstd::prelude::*;
verus! {

pub struct Call<S> { pub index: usize, pub given: Seq<S>, pub ret: S }

pub trait Conditional<S> {
    spec fn log(&self) -> Seq<Call<S>>;
    fn sample(&mut self, index: usize, given: &[S]) -> (r: S)
        ensures final(self).log() == old(self).log().push(Call { index, given: given@, ret: r });
}

pub struct GibbsMarkovChain<S, D> {
    pub target: D,
    pub current_state: Vec<S>,
}

// sweep_spec: state after refreshing coordinates 0..k with the k returned values of the log suffix
pub open spec fn sweep_ok<S>(x0: Seq<S>, calls: Seq<Call<S>>, k: int, xk: Seq<S>) -> bool
    decreases k
{
    if k <= 0 { xk == x0 && calls.len() == 0 }
    else {
        let c = calls.last();
        let prev = xk.update(k - 1, c.given[k - 1]);
        calls.len() == k && c.index == k - 1 && xk.len() == x0.len() && k <= x0.len()
        && c.given.len() == x0.len()
        && xk == c.given.update(k - 1, c.ret)
        && sweep_ok(x0, calls.drop_last(), k - 1, c.given)
    }
}

impl<S, D: Conditional<S>> GibbsMarkovChain<S, D> {
    fn step(&mut self) -> (ret: &Vec<S>)
        ensures
            final(self).target.log().len() == old(self).target.log().len() + old(self).current_state.len(),
            final(self).target.log().subrange(0, old(self).target.log().len() as int) == old(self).target.log(),
            sweep_ok(old(self).current_state@,
                     final(self).target.log().subrange(old(self).target.log().len() as int, final(self).target.log().len() as int),
                     old(self).current_state.len() as int,
                     final(self).current_state@),
            ret@ == final(self).current_state@,
    {
        let ghost log0 = self.target.log();
        let ghost x0 = self.current_state@;
        for i in it: 0..self.current_state.len()
            invariant
                self.current_state.len() == x0.len(),
                it.iter.end == x0.len(),
                self.target.log().len() == log0.len() + i,
                self.target.log().subrange(0, log0.len() as int) == log0,
                sweep_ok(x0, self.target.log().subrange(log0.len() as int, self.target.log().len() as int), i as int, self.current_state@),
        {
            let ghost lg = self.target.log();
            self.current_state[i] = self.target.sample(i, &self.current_state);
            proof {
                assert(i < x0.len());
                let suffix = self.target.log().subrange(log0.len() as int, self.target.log().len() as int);
                assert(suffix.drop_last() == lg.subrange(log0.len() as int, lg.len() as int));
            }
        }
        &self.current_state
    }
}

} // verus!
fn main() {}
