import sys
import os; sys.path.insert(0, os.path.join(os.path.dirname(os.path.dirname(os.path.abspath(__file__))), 'lib'))
import vxdriver as v
unit = sys.argv[1]
try:
    r = v.check_unit(unit, with_canary=('--nocanary' not in sys.argv))
    print(r['status'], 'verified', r['verified'], 'errors', r['errors'], 'smt_ms', r['smt_ms'], 'wall', round(r['wall_s'],1))
    for f in r['failures']: print(f['message'], f['tags'], f['site']); print(f['rendered'])
    print(r.get('canary'))
    if '--trusted' in sys.argv: print(r['trusted'])
except v.Undecided as e:
    print("UNDECIDED", e)
