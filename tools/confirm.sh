#!/bin/bash
# usage: confirm.sh <PROP> <n>   — confirms a sub-agent mutant in its worktree /tmp/wt_<PROP>
P=$1; N=$2; WT=${SEED_WT_PREFIX:-/tmp/wt_}$P; D=$WT/out/$N; LOG=$D/confirm.log
cd $WT || exit 2
git checkout -q -- . ; git clean -fdq tests
: > $LOG
FEAT=""
grep -q "with_rng\|features verif\|feature = \"verif\"" $D/demo.rs $D/README.md 2>/dev/null && FEAT="--features verif-hooks"
cp $D/demo.rs tests/demo_$N.rs
# 1. demo on clean tree: must pass
if cargo test --offline $FEAT --test demo_$N >> $LOG 2>&1; then echo "clean_demo=pass" | tee -a $LOG; else echo "clean_demo=FAIL" | tee -a $LOG; fi
# 2. apply patch
if ! git apply $D/patch.diff >> $LOG 2>&1; then echo "apply=FAIL" | tee -a $LOG; git checkout -q -- .; git clean -fdq tests; exit 1; fi
# 3. demo with change: must fail
if cargo test --offline $FEAT --test demo_$N >> $LOG 2>&1; then echo "mut_demo=pass(BAD)" | tee -a $LOG; else echo "mut_demo=fail(expected)" | tee -a $LOG; fi
# 4. baseline suite with change (without the demo): must pass
rm tests/demo_$N.rs
if cargo test --offline >> $LOG 2>&1; then echo "mut_suite=pass" | tee -a $LOG; else echo "mut_suite=FAIL" | tee -a $LOG; fi
git checkout -q -- . ; git clean -fdq tests
