#!/bin/sh
# usage: mut.sh <file relative to src> '<sed expr>' <prop> [<prop>...]
f=$1; e=$2; shift 2
rm -rf /tmp/mut/r/src; mkdir -p /tmp/mut/r; cp -r /repo/src /tmp/mut/r/src
sed -i "$e" /tmp/mut/r/src/$f
if diff -q /repo/src/$f /tmp/mut/r/src/$f >/dev/null; then echo "MUTATION DID NOT APPLY"; fi
for p in "$@"; do (cd /verif && VERIF_REPO=/tmp/mut/r VERIF_BUILD=/tmp/mut/build bin/check $p | cut -c1-250); done
