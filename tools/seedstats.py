#!/usr/bin/env python3
"""Summarise seeded/*/meta.json: per property, how many recorded changes the checks detect and BY WHAT —
a named contract obligation of the deductive check (the deciding method of this task), the executable oracle after the
contract check went undecided (bounded fallback), or the executable oracle / Kani companion next to a contract check that
still verified.  Reads the latest result in each meta.json ("rerun" if present, else the recording run).

usage: tools/seedstats.py [--md]
"""
import json
import os
import sys

VERIF = os.path.dirname(os.path.dirname(os.path.abspath(__file__)))


def classify(lines_by_check):
    kinds = set()
    for c, v in lines_by_check.items():
        for l in v.get("lines", []):
            if not l.startswith("VIOLATION"):
                continue
            if "decided_by=executable-oracle" in l:
                kinds.add("oracle_after_undecided")
            elif "decided_by=kani-companion" in l:
                kinds.add("kani_after_undecided")
            elif ".oracle." in l:
                kinds.add("oracle_beside_contract")
            elif ".kani." in l:
                kinds.add("kani_beside_contract")
            else:
                kinds.add("contract")
    return kinds


def main():
    rows = {}
    for d in sorted(os.listdir(os.path.join(VERIF, "seeded"))):
        mp = os.path.join(VERIF, "seeded", d, "meta.json")
        if not os.path.exists(mp):
            continue
        m = json.load(open(mp))
        src = m.get("rerun") if m.get("rerun", {}).get("applied") else None
        checks = (src or m).get("checks_run", {})
        checks = {c: v for c, v in checks.items() if isinstance(v, dict)}
        detected = (src or m).get("detected", False)
        kinds = classify(checks)
        r = rows.setdefault(m["property"], {"n": 0, "detected": 0, "contract": 0, "oracle_after_undecided": 0, "oracle_beside_contract": 0, "kani": 0, "missed": []})
        r["n"] += 1
        if detected:
            r["detected"] += 1
            if "contract" in kinds:
                r["contract"] += 1
            elif "oracle_beside_contract" in kinds:
                r["oracle_beside_contract"] += 1
            elif "oracle_after_undecided" in kinds:
                r["oracle_after_undecided"] += 1
            elif kinds & {"kani_after_undecided", "kani_beside_contract"}:
                r["kani"] += 1
        else:
            r["missed"].append(d)
    tot = {"n": 0, "detected": 0, "contract": 0, "oracle_after_undecided": 0, "oracle_beside_contract": 0, "kani": 0}
    md = "--md" in sys.argv
    if md:
        print("| property | changes | detected | by a contract obligation | by the oracle, contract check still verifying | by the oracle after the contract check went undecided | by Kani only | not detected by the property's own check |")
        print("|---|---|---|---|---|---|---|---|")
    for p in sorted(rows):
        r = rows[p]
        for k in tot:
            tot[k] += r[k]
        if md:
            print(f"| {p} | {r['n']} | {r['detected']} | {r['contract']} | {r['oracle_beside_contract']} | {r['oracle_after_undecided']} | {r['kani']} | {', '.join(r['missed']) or '-'} |")
        else:
            print(p, r)
    if md:
        print(f"| all | {tot['n']} | {tot['detected']} | {tot['contract']} | {tot['oracle_beside_contract']} | {tot['oracle_after_undecided']} | {tot['kani']} | |")
    else:
        print("total", tot)


if __name__ == "__main__":
    main()
