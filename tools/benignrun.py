#!/usr/bin/env python3
"""Run the checks against behaviour-preserving edits: none of them may raise an alarm.

usage: tools/benignrun.py [--jobs N] [ID ...]      (default: every directory under benign/; N worktrees side by side)

Each benign/<id>/patch.diff is a harmless refactoring of /repo (renamed locals, exchanged independent statements, a loop
written differently).  It is applied in one scratch worktree of /repo's main (outside /repo and /verif), the crate's own
test suite is NOT needed (the edits are checked by reading them), and the checks named in about.txt (`checks: C.. C..`) run
with VERIF_REPO pointing at the worktree.  Allowed outcomes: exit 0 (still proved) or exit 2 (undecided: the proof could
not be re-established, e.g. an anchor or an invariant names a local that was renamed).  Exit 1 / a VIOLATION line on a
benign edit is a false alarm of the machinery and makes this tool exit 1.  Results go to benign/<id>/result.json.
"""
import json
import os
import re
import subprocess
import sys

VERIF = os.path.dirname(os.path.dirname(os.path.abspath(__file__)))
WT = "/tmp/wt_benign"
BUILD = "/tmp/mut/build_benign"


def sh(cmd, cwd=None, env=None):
    return subprocess.run(cmd, shell=True, cwd=cwd, capture_output=True, text=True, env=env)


def main():
    global WT, BUILD
    args = sys.argv[1:]
    if args and args[0] == "--jobs":
        n = int(args[1])
        ids = args[2:] or sorted(os.listdir(os.path.join(VERIF, "benign")))
        procs = []
        for k in range(n):
            part = ids[k::n]
            if part:
                procs.append(subprocess.Popen([sys.executable, os.path.abspath(__file__)] + part, env=dict(os.environ, BENIGNRUN_SUFFIX=f"_{k}")))
        rcs = [p.wait() for p in procs]
        return 1 if any(rcs) else 0
    WT += os.environ.get("BENIGNRUN_SUFFIX", "")
    BUILD += os.environ.get("BENIGNRUN_SUFFIX", "")
    ids = args or sorted(os.listdir(os.path.join(VERIF, "benign")))
    sh(f"git -C /repo worktree remove --force {WT}")
    r = sh(f"git -C /repo worktree add --detach {WT} main")
    assert r.returncode == 0, r.stderr
    head = sh("git rev-parse --short HEAD", cwd=WT).stdout.strip()
    alarms = 0
    try:
        for bid in ids:
            d = os.path.join(VERIF, "benign", bid)
            about = open(os.path.join(d, "about.txt")).read()
            checks = re.search(r"checks:\s*(.*)$", about, re.M).group(1).split()
            sh("git checkout -q -- . && git clean -fdq src tests", cwd=WT)
            ap = sh(f"git apply {d}/patch.diff", cwd=WT)
            if ap.returncode != 0:
                json.dump({"on_repo_commit": head, "applied": False, "reason": ap.stderr[-300:]}, open(os.path.join(d, "result.json"), "w"), indent=1)
                print(bid, "patch no longer applies")
                continue
            build = sh("cargo build --offline 2>&1 | tail -3", cwd=WT)
            env = dict(os.environ, VERIF_REPO=WT, VERIF_BUILD=BUILD)
            res = {}
            for c in checks:
                k = sh(f"bin/check {c}", cwd=VERIF, env=env)
                lines = [l[:300] for l in (k.stdout + k.stderr).split("\n") if l.strip()]
                res[c] = {"exit": k.returncode, "lines": lines[:4]}
                if k.returncode == 1 or any(l.startswith("VIOLATION") for l in lines):
                    alarms += 1
            json.dump({"on_repo_commit": head, "applied": True, "crate_builds": "Finished" in build.stdout, "checks_run": res,
                       "false_alarm": any(v["exit"] == 1 for v in res.values())}, open(os.path.join(d, "result.json"), "w"), indent=1)
            print(bid, {c: v["exit"] for c, v in res.items()}, flush=True)
    finally:
        sh(f"git -C /repo worktree remove --force {WT}")
        sh(f"rm -rf {BUILD}")
    print("false alarms:", alarms)
    return 1 if alarms else 0


if __name__ == "__main__":
    sys.exit(main())
