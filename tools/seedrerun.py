#!/usr/bin/env python3
"""Re-run the checks against every recorded seeded change, with the machinery as it is now.

usage: tools/seedrerun.py [--jobs N] [ID ...]      (default: every directory under seeded/; N worktrees side by side)

One scratch worktree of /repo's main (outside /repo and /verif) is created, each seeded/<id>/patch.diff is applied there
(`git apply`, falling back to `--3way`), the property's own check and any extra checks named in EXTRA are run with
VERIF_REPO pointing at the worktree, and the outcome is written to seeded/<id>/meta.json under "rerun".  The worktree and
its build output are removed at the end.  Nothing is ever applied to /repo itself.
"""
import json
import os
import subprocess
import sys

VERIF = os.path.dirname(os.path.dirname(os.path.abspath(__file__)))
WT = "/tmp/wt_rerun"
BUILD = "/tmp/mut/build_rerun"
# further checks that are expected to see a change recorded under another property
# changes that only the thorough tier's oracles can see (minutes of run time)
TIER = {"C10-6": "thorough"}
EXTRA = {"C07-2": ["C18"], "C07-3": ["C10"], "C14-1": ["C01"], "C04-2": ["C03"], "C02-1": ["C14"]}


def sh(cmd, cwd=None, env=None):
    return subprocess.run(cmd, shell=True, cwd=cwd, capture_output=True, text=True, env=env)


def main():
    args = sys.argv[1:]
    if args and args[0] == "--jobs":
        # split the ids over N copies of this script, each with its own worktree and build directory
        n = int(args[1])
        ids = args[2:] or sorted(os.listdir(os.path.join(VERIF, "seeded")))
        procs = []
        for k in range(n):
            part = ids[k::n]
            if part:
                env = dict(os.environ, SEEDRERUN_SUFFIX=f"_{k}")
                procs.append(subprocess.Popen([sys.executable, os.path.abspath(__file__)] + part, env=env))
        rc = [p.wait() for p in procs]
        return
    global WT, BUILD
    WT += os.environ.get("SEEDRERUN_SUFFIX", "")
    BUILD += os.environ.get("SEEDRERUN_SUFFIX", "")
    ids = args or sorted(os.listdir(os.path.join(VERIF, "seeded")))
    sh(f"git -C /repo worktree remove --force {WT}")
    r = sh(f"git -C /repo worktree add --detach {WT} main")
    assert r.returncode == 0, r.stderr
    head = sh("git rev-parse --short HEAD", cwd=WT).stdout.strip()
    summary = []
    try:
        for sid in ids:
            d = os.path.join(VERIF, "seeded", sid)
            mp = os.path.join(d, "meta.json")
            if not os.path.exists(mp):
                continue
            meta = json.load(open(mp))
            sh("git checkout -q -- . && git clean -fdq src tests", cwd=WT)
            ap = sh(f"git apply {d}/patch.diff", cwd=WT)
            how = "git apply"
            if ap.returncode != 0:
                ap = sh(f"git apply --3way {d}/patch.diff", cwd=WT)
                how = "git apply --3way"
                if ap.returncode != 0 or "with conflicts" in (ap.stdout + ap.stderr):
                    meta["rerun"] = {"on_repo_commit": head, "applied": False, "reason": (ap.stdout + ap.stderr)[-300:]}
                    json.dump(meta, open(mp, "w"), indent=1)
                    summary.append((sid, "patch no longer applies (the code it changes was since repaired)", []))
                    sh("git checkout -q -- . ; git reset -q --hard", cwd=WT)
                    continue
            checks = [meta["property"]] + EXTRA.get(sid, [])
            env = dict(os.environ, VERIF_REPO=WT, VERIF_BUILD=BUILD)
            res, by = {}, []
            for c in checks:
                k = sh(f"bin/check {c} --tier {TIER.get(sid, 'quick')}", cwd=VERIF, env=env)
                lines = [l[:400] for l in (k.stdout + k.stderr).split("\n") if l.strip()]
                res[c] = {"exit": k.returncode, "lines": lines[:6]}
                if k.returncode == 1:
                    by += [l.split("obligation=")[1].split()[0] for l in lines if l.startswith("VIOLATION") and "obligation=" in l][:4]
            meta["rerun"] = {"on_repo_commit": head, "applied": True, "how": how, "checks_run": res, "detected": bool(by), "detected_by": by}
            json.dump(meta, open(mp, "w"), indent=1)
            summary.append((sid, "detected" if by else "NOT detected: " + str({c: res[c]["exit"] for c in res}), by))
            print(sid, summary[-1][1], by[:2], flush=True)
    finally:
        sh(f"git -C /repo worktree remove --force {WT}")
        sh(f"rm -rf {BUILD}")
    print("\nSUMMARY")
    for sid, what, by in summary:
        print(f"{sid:8s} {what:14s} {', '.join(by[:3])}")


if __name__ == "__main__":
    main()
