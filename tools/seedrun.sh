#!/bin/bash
# usage: seedrun.sh <patch.diff> <PROP>...   — run checks against a scratch copy with the patch applied
PATCH=$1; shift
rm -rf /tmp/mut/r; mkdir -p /tmp/mut/r; cp -r /repo/src /tmp/mut/r/src; cp /repo/Cargo.toml /tmp/mut/r/
(cd /tmp/mut/r && patch -p1 -s < $PATCH) || { echo "PATCH DID NOT APPLY"; exit 3; }
for p in "$@"; do (cd /verif && VERIF_REPO=/tmp/mut/r VERIF_BUILD=/tmp/mut/build bin/check $p 2>&1 | cut -c1-260); done
