#!/usr/bin/env python3
"""seedrecord.py <PROP> <n> [<check props...>] — store a confirmed sub-agent mutant under /verif/seeded and record what the checks say.
The mutant is applied in its own scratch worktree (/tmp/wt_<PROP>, a full cargo project) and the checks run with VERIF_REPO pointing there."""
import json, os, re, shutil, subprocess, sys
prop, n = sys.argv[1], sys.argv[2]
checks = sys.argv[3:] or [prop]
# round 2: SEED_WT_PREFIX=/tmp/wt2_ SEED_ID_OFFSET=3 stores out/<n> as <PROP>-<n+3>
wt = os.environ.get("SEED_WT_PREFIX", "/tmp/wt_") + prop
src = f"{wt}/out/{n}"
name = f"{prop}-{int(n) + int(os.environ.get('SEED_ID_OFFSET', '0'))}"
dst = f"/verif/seeded/{name}"
os.makedirs(dst, exist_ok=True)
shutil.copy(f"{src}/patch.diff", f"{dst}/patch.diff")
shutil.copy(f"{src}/demo.rs", f"{dst}/demo.rs")
if os.path.exists(f"{src}/README.md"):
    shutil.copy(f"{src}/README.md", f"{dst}/README.md")
confirm = {}
if os.path.exists(f"{src}/confirm.log"):
    for line in open(f"{src}/confirm.log"):
        m = re.match(r"^(clean_demo|mut_demo|mut_suite|apply)=(.*)$", line.strip())
        if m:
            confirm[m.group(1)] = m.group(2)
# run the checks against the mutant
def sh(cmd, cwd=None, env=None):
    return subprocess.run(cmd, shell=True, cwd=cwd, capture_output=True, text=True, env=env)
sh("git checkout -q -- . && git clean -fdq tests", cwd=wt)
# bring the worktree's sources up to /repo's current HEAD before applying the mutant
r0 = sh("git checkout -q --detach main", cwd=wt)
assert r0.returncode == 0, r0.stderr
head = sh("git rev-parse --short HEAD", cwd=wt).stdout.strip()
sh("cp /repo/tests/verif_replay.rs tests/verif_replay.rs && cp /repo/tests/verif_replay_io.rs tests/verif_replay_io.rs && cp /repo/Cargo.toml Cargo.toml", cwd=wt)
ap = sh(f"git apply {src}/patch.diff", cwd=wt)
results = {}
if ap.returncode != 0:
    results["apply_on_current_head"] = "FAILED: " + ap.stderr[:300]
else:
    env = dict(os.environ, VERIF_REPO=wt, VERIF_BUILD=f"/tmp/mut/build_{prop}_{n}")
    for c in checks:
        r = sh(f"bin/check {c}", cwd="/verif", env=env)
        lines = [l[:400] for l in (r.stdout + r.stderr).split("\n") if l.strip()]
        results[c] = {"exit": r.returncode, "lines": lines[:6]}
sh("git checkout -q -- . && git clean -fdq tests", cwd=wt)
readme = open(f"{src}/README.md").read() if os.path.exists(f"{src}/README.md") else ""
meta = {
    "id": name,
    "property": prop,
    "source": "independent sub-agent given only the property text and a scratch worktree",
    "what_it_breaks_and_needs": readme[:1500],
    "confirmed_in_scratch_worktree": confirm,
    "confirm_cmds": ["cargo test --offline [--features verif] --test demo_<n>   (clean tree: must pass)", "git apply patch.diff; same command (must fail)", "cargo test --offline   (existing suite with the change: must pass)"],
    "applied_on_repo_commit": head,
    "checks_run": results,
    "detected": any(isinstance(v, dict) and v["exit"] == 1 for v in results.values()),
    "detected_by": [f"{c}: " + "; ".join(l for l in v["lines"] if l.startswith("VIOLATION"))[:500] for c, v in results.items() if isinstance(v, dict) and v["exit"] == 1],
}
json.dump(meta, open(f"{dst}/meta.json", "w"), indent=1)
print(name, "confirmed:", confirm, "| detected:", meta["detected"], [ (c, v["exit"] if isinstance(v, dict) else v) for c, v in results.items()])
for c, v in results.items():
    if isinstance(v, dict):
        for l in v["lines"][:3]:
            print("   ", l[:260])
