#!/bin/bash
# usage: seedrun_wt.sh <PROP-of-worktree> <n> <PROP-to-check>...  — apply the mutant in its worktree (full cargo project) and run checks with oracle fallback
W=$1; N=$2; shift 2
WT=/tmp/wt_$W
cd $WT && git checkout -q -- . && git clean -fdq tests && cp /repo/tests/verif_replay.rs tests/verif_replay.rs && cp /repo/Cargo.toml Cargo.toml
git apply $WT/out/$N/patch.diff || { echo "PATCH DID NOT APPLY (worktree may be at an older commit)"; }
for p in "$@"; do (cd /verif && VERIF_REPO=$WT VERIF_BUILD=/tmp/mut/build_$W bin/check $p 2>&1 | cut -c1-330); done
cd $WT && git checkout -q -- . && git clean -fdq tests
