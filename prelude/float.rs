// ======================================================================================
// prelude/float.rs — the abstract float `Fl` (DESIGN.md §3, model M_real).
// TRUSTED: everything marked external_body / axiom below is an assumption about IEEE-754
// arithmetic "treated as mathematical": special values (NaN, ±inf) follow IEEE-754, finite
// values are exact reals (no rounding, no overflow to ±inf, no underflow).
// ======================================================================================
pub mod fl {
    use vstd::prelude::*;
    use vstd::std_specs::ops::*;
    use vstd::std_specs::cmp::*;
    use core::cmp::Ordering;

    pub enum XR { NaN, NegInf, PosInf, Fin(real) }

    #[verifier::external_body]
    pub struct Fl { v: f64 }

    pub uninterp spec fn val(f: Fl) -> XR;
    pub uninterp spec fn mk(x: XR) -> Fl;
    pub broadcast axiom fn ax_val_mk(x: XR) ensures #[trigger] val(mk(x)) == x;

    // ---- extended-real operation tables (IEEE-754 on special values, exact on finite) ----
    pub open spec fn xr_neg(a: XR) -> XR {
        match a { XR::NaN => XR::NaN, XR::NegInf => XR::PosInf, XR::PosInf => XR::NegInf, XR::Fin(x) => XR::Fin(-x) }
    }
    pub open spec fn xr_add(a: XR, b: XR) -> XR {
        match (a, b) {
            (XR::NaN, _) => XR::NaN,
            (_, XR::NaN) => XR::NaN,
            (XR::PosInf, XR::NegInf) => XR::NaN,
            (XR::NegInf, XR::PosInf) => XR::NaN,
            (XR::PosInf, _) => XR::PosInf,
            (_, XR::PosInf) => XR::PosInf,
            (XR::NegInf, _) => XR::NegInf,
            (_, XR::NegInf) => XR::NegInf,
            (XR::Fin(x), XR::Fin(y)) => XR::Fin(x + y),
        }
    }
    pub open spec fn xr_sub(a: XR, b: XR) -> XR { xr_add(a, xr_neg(b)) }
    /// sign of a non-NaN value: -1, 0, 1
    pub open spec fn xr_sgn(a: XR) -> int {
        match a { XR::NaN => 0, XR::NegInf => -1, XR::PosInf => 1, XR::Fin(x) => if x > 0real { 1 } else if x < 0real { -1 } else { 0 } }
    }
    pub open spec fn xr_mul(a: XR, b: XR) -> XR {
        match (a, b) {
            (XR::NaN, _) => XR::NaN,
            (_, XR::NaN) => XR::NaN,
            (XR::Fin(x), XR::Fin(y)) => XR::Fin(x * y),
            _ => {
                let s = xr_sgn(a) * xr_sgn(b);
                if s == 0 { XR::NaN } else if s > 0 { XR::PosInf } else { XR::NegInf }
            }
        }
    }
    pub open spec fn xr_is_zero(a: XR) -> bool { a == XR::Fin(0real) }
    /// division with a non-zero (or non-finite) divisor; x / 0 is handled at the `Fl` level
    /// because its sign depends on the sign of the zero, which `XR` does not carry.
    pub open spec fn xr_div(a: XR, b: XR) -> XR {
        match (a, b) {
            (XR::NaN, _) => XR::NaN,
            (_, XR::NaN) => XR::NaN,
            (XR::Fin(x), XR::Fin(y)) => if y != 0real { XR::Fin(x / y) } else { XR::NaN },
            (XR::Fin(_), _) => XR::Fin(0real),
            (_, XR::Fin(y)) => if y > 0real { a } else if y < 0real { xr_neg(a) } else { XR::NaN },
            _ => XR::NaN,
        }
    }
    pub open spec fn xr_gt(a: XR, b: XR) -> bool {
        match (a, b) {
            (XR::NaN, _) => false,
            (_, XR::NaN) => false,
            (XR::PosInf, XR::PosInf) => false,
            (XR::PosInf, _) => true,
            (_, XR::PosInf) => false,
            (XR::NegInf, _) => false,
            (_, XR::NegInf) => true,
            (XR::Fin(x), XR::Fin(y)) => x > y,
        }
    }
    pub open spec fn xr_lt(a: XR, b: XR) -> bool { xr_gt(b, a) }
    pub open spec fn xr_eq(a: XR, b: XR) -> bool { !(a is NaN) && !(b is NaN) && a == b }
    pub open spec fn xr_ge(a: XR, b: XR) -> bool { xr_gt(a, b) || xr_eq(a, b) }
    pub open spec fn xr_le(a: XR, b: XR) -> bool { xr_ge(b, a) }
    pub open spec fn xr_finite(a: XR) -> bool { a is Fin }
    pub open spec fn xr_pcmp(a: XR, b: XR) -> Option<Ordering> {
        if xr_gt(a, b) { Some(Ordering::Greater) }
        else if xr_gt(b, a) { Some(Ordering::Less) }
        else if a is NaN || b is NaN { None }
        else { Some(Ordering::Equal) }
    }
    /// IEEE minNum / maxNum as implemented by `f32::min`/`f64::min` (a NaN operand is ignored)
    pub open spec fn xr_min(a: XR, b: XR) -> XR { if a is NaN { b } else if b is NaN { a } else if xr_gt(a, b) { b } else { a } }
    pub open spec fn xr_max(a: XR, b: XR) -> XR { if a is NaN { b } else if b is NaN { a } else if xr_gt(b, a) { b } else { a } }
    pub open spec fn xr_abs(a: XR) -> XR {
        match a { XR::NaN => XR::NaN, XR::NegInf => XR::PosInf, XR::PosInf => XR::PosInf, XR::Fin(x) => XR::Fin(if x < 0real { -x } else { x }) }
    }

    // ---- transcendental functions: uninterpreted on the reals, IEEE on special values ----
    pub uninterp spec fn ln_r(x: real) -> real;
    pub uninterp spec fn exp_r(x: real) -> real;
    pub uninterp spec fn sqrt_r(x: real) -> real;
    pub uninterp spec fn powf_r(x: real, y: real) -> real;
    pub open spec fn xr_ln(a: XR) -> XR {
        match a {
            XR::Fin(x) => if x > 0real { XR::Fin(ln_r(x)) } else if x == 0real { XR::NegInf } else { XR::NaN },
            XR::PosInf => XR::PosInf,
            _ => XR::NaN,
        }
    }
    pub open spec fn xr_exp(a: XR) -> XR {
        match a { XR::Fin(x) => XR::Fin(exp_r(x)), XR::PosInf => XR::PosInf, XR::NegInf => XR::Fin(0real), XR::NaN => XR::NaN }
    }
    pub open spec fn xr_sqrt(a: XR) -> XR {
        match a { XR::Fin(x) => if x >= 0real { XR::Fin(sqrt_r(x)) } else { XR::NaN }, XR::PosInf => XR::PosInf, _ => XR::NaN }
    }
    /// `powf` is only pinned down on finite, positive base and finite exponent
    pub uninterp spec fn xr_powf_other(a: XR, b: XR) -> XR;
    pub open spec fn xr_powf(a: XR, b: XR) -> XR {
        match (a, b) {
            (XR::Fin(x), XR::Fin(y)) => if x > 0real { XR::Fin(powf_r(x, y)) } else { xr_powf_other(a, b) },
            _ => xr_powf_other(a, b),
        }
    }
    pub broadcast axiom fn ax_exp_pos(x: real) ensures #[trigger] exp_r(x) > 0real;
    pub broadcast axiom fn ax_exp_ln(x: real) requires x > 0real ensures exp_r(#[trigger] ln_r(x)) == x;
    pub broadcast axiom fn ax_ln_exp(x: real) ensures ln_r(#[trigger] exp_r(x)) == x;
    pub axiom fn ax_ln_one() ensures ln_r(1real) == 0real;
    pub axiom fn ax_ln_mul(x: real, y: real) requires x > 0real, y > 0real ensures ln_r(x * y) == ln_r(x) + ln_r(y);
    pub axiom fn ax_ln_mono(x: real, y: real) requires 0real < x, x < y ensures ln_r(x) < ln_r(y);
    pub axiom fn ax_exp_mono(x: real, y: real) requires x < y ensures exp_r(x) < exp_r(y);
    pub broadcast axiom fn ax_sqrt(x: real) requires x >= 0real ensures (#[trigger] sqrt_r(x)) >= 0real, sqrt_r(x) * sqrt_r(x) == x;
    pub broadcast axiom fn ax_powf_pos(x: real, y: real) requires x > 0real ensures (#[trigger] powf_r(x, y)) > 0real;
    pub axiom fn ax_powf_one(x: real) requires x > 0real ensures powf_r(x, 1real) == x;
    pub axiom fn ax_powf_neg_one(x: real) requires x > 0real ensures powf_r(x, -1real) == 1real / x;

    pub broadcast group fl_axioms { ax_val_mk, ax_exp_pos, ax_exp_ln, ax_ln_exp, ax_sqrt, ax_powf_pos }

    // ---- operators on Fl: the extracted text keeps `a + b`, `a > b` verbatim -------------
    impl Clone for Fl {
        #[verifier::external_body]
        fn clone(&self) -> (r: Fl) ensures r == *self { Fl { v: self.v } }
    }
    impl Copy for Fl {}

    impl core::ops::Add for Fl { type Output = Fl; #[verifier::external_body] fn add(self, rhs: Fl) -> (r: Fl) { Fl { v: self.v + rhs.v } } }
    impl AddSpecImpl for Fl {
        open spec fn obeys_add_spec() -> bool { true }
        open spec fn add_req(self, rhs: Fl) -> bool { true }
        open spec fn add_spec(self, rhs: Fl) -> Fl { mk(xr_add(val(self), val(rhs))) }
    }
    impl core::ops::Sub for Fl { type Output = Fl; #[verifier::external_body] fn sub(self, rhs: Fl) -> (r: Fl) { Fl { v: self.v - rhs.v } } }
    impl SubSpecImpl for Fl {
        open spec fn obeys_sub_spec() -> bool { true }
        open spec fn sub_req(self, rhs: Fl) -> bool { true }
        open spec fn sub_spec(self, rhs: Fl) -> Fl { mk(xr_sub(val(self), val(rhs))) }
    }
    impl core::ops::Mul for Fl { type Output = Fl; #[verifier::external_body] fn mul(self, rhs: Fl) -> (r: Fl) { Fl { v: self.v * rhs.v } } }
    impl MulSpecImpl for Fl {
        open spec fn obeys_mul_spec() -> bool { true }
        open spec fn mul_req(self, rhs: Fl) -> bool { true }
        open spec fn mul_spec(self, rhs: Fl) -> Fl { mk(xr_mul(val(self), val(rhs))) }
    }
    /// x / ±0 for x ≠ 0: ±inf, the sign depends on the (unmodelled) sign of the zero
    pub uninterp spec fn fl_div0(a: Fl, b: Fl) -> Fl;
    pub broadcast axiom fn ax_div0(a: Fl, b: Fl) ensures val(#[trigger] fl_div0(a, b)) is PosInf || val(fl_div0(a, b)) is NegInf;
    pub open spec fn fl_div(a: Fl, b: Fl) -> Fl {
        if xr_is_zero(val(b)) && !(val(a) is NaN) && !xr_is_zero(val(a)) { fl_div0(a, b) } else { mk(xr_div(val(a), val(b))) }
    }
    impl core::ops::Div for Fl { type Output = Fl; #[verifier::external_body] fn div(self, rhs: Fl) -> (r: Fl) { Fl { v: self.v / rhs.v } } }
    impl DivSpecImpl for Fl {
        open spec fn obeys_div_spec() -> bool { true }
        open spec fn div_req(self, rhs: Fl) -> bool { true }
        open spec fn div_spec(self, rhs: Fl) -> Fl { fl_div(self, rhs) }
    }
    impl core::ops::Neg for Fl { type Output = Fl; #[verifier::external_body] fn neg(self) -> (r: Fl) { Fl { v: -self.v } } }
    impl NegSpecImpl for Fl {
        open spec fn obeys_neg_spec() -> bool { true }
        open spec fn neg_req(self) -> bool { true }
        open spec fn neg_spec(self) -> Fl { mk(xr_neg(val(self))) }
    }
    impl PartialEq for Fl { #[verifier::external_body] fn eq(&self, other: &Fl) -> bool { self.v == other.v } }
    impl PartialEqSpecImpl for Fl {
        open spec fn obeys_eq_spec() -> bool { true }
        open spec fn eq_spec(&self, other: &Fl) -> bool { xr_eq(val(*self), val(*other)) }
    }
    impl PartialOrd for Fl { #[verifier::external_body] fn partial_cmp(&self, other: &Fl) -> Option<Ordering> { self.v.partial_cmp(&other.v) } }
    impl PartialOrdSpecImpl for Fl {
        open spec fn obeys_partial_cmp_spec() -> bool { true }
        open spec fn partial_cmp_spec(&self, other: &Fl) -> Option<Ordering> { xr_pcmp(val(*self), val(*other)) }
    }
    impl core::ops::AddAssign for Fl {
        #[verifier::external_body]
        fn add_assign(&mut self, rhs: Fl) { self.v += rhs.v }
    }
    impl AddAssignSpecImpl for Fl {
        open spec fn obeys_add_assign_spec() -> bool { true }
        open spec fn add_assign_req(&self, rhs: Fl) -> bool { true }
        open spec fn add_assign_spec(&self, rhs: Fl) -> &Fl { &mk(xr_add(val(*self), val(rhs))) }
    }

    // ---- conversions (num_traits::NumCast / FromPrimitive / ToPrimitive on f32/f64) -----
    pub trait IntoFl: Sized { spec fn as_real(self) -> real; }
    impl IntoFl for usize { open spec fn as_real(self) -> real { self as real } }
    impl IntoFl for u64 { open spec fn as_real(self) -> real { self as real } }
    impl IntoFl for u32 { open spec fn as_real(self) -> real { self as real } }
    impl IntoFl for i32 { open spec fn as_real(self) -> real { self as real } }
    impl IntoFl for i64 { open spec fn as_real(self) -> real { self as real } }
    impl IntoFl for i8 { open spec fn as_real(self) -> real { self as real } }

    /// a float literal with its exact decimal value num/den (R-lit)
    #[verifier::external_body]
    pub fn fl_lit(num: u64, den: u64) -> (r: Fl)
        requires den > 0
        ensures r == mk(XR::Fin(num as real / den as real))
    { Fl { v: num as f64 / den as f64 } }
    /// `e as f64` / `e as f32` on an integer (R-cast): exact in the real model
    #[verifier::external_body]
    pub fn to_fl<X: IntoFl>(x: X) -> (r: Fl) ensures r == mk(XR::Fin(x.as_real())) { unimplemented!() }

    pub trait FlSource: Sized { spec fn as_xr(self) -> XR; }
    impl FlSource for Fl { open spec fn as_xr(self) -> XR { val(self) } }
    impl FlSource for usize { open spec fn as_xr(self) -> XR { XR::Fin(self as real) } }
    impl FlSource for u64 { open spec fn as_xr(self) -> XR { XR::Fin(self as real) } }
    impl FlSource for i32 { open spec fn as_xr(self) -> XR { XR::Fin(self as real) } }

    pub uninterp spec fn pi_r() -> real;
    pub axiom fn ax_pi() ensures 3real < pi_r(), pi_r() < 4real;
    pub uninterp spec fn eps_r() -> real;
    pub axiom fn ax_eps() ensures 0real < eps_r(), eps_r() < 1real;

    impl Fl {
        /// `T::from(x)` of num_traits::NumCast: total on the numeric types used (never None for f32/f64 targets)
        #[verifier::external_body]
        pub fn from<X: FlSource>(x: X) -> (r: Option<Fl>) ensures r == Some(mk(x.as_xr())) { unimplemented!() }
        #[verifier::external_body]
        pub fn from_f64(x: Fl) -> (r: Option<Fl>) ensures r == Some(x) { Some(x) }
        #[verifier::external_body]
        pub fn from_usize(x: usize) -> (r: Option<Fl>) ensures r == Some(mk(XR::Fin(x as real))) { unimplemented!() }
        #[verifier::external_body]
        pub fn to_f64(self) -> (r: Fl) ensures r == self { self }
        #[verifier::external_body]
        pub fn to_f32(&self) -> (r: Option<Fl>) ensures r == Some(*self) { unimplemented!() }
        #[verifier::external_body]
        pub fn zero() -> (r: Fl) ensures r == mk(XR::Fin(0real)) { Fl { v: 0.0 } }
        #[verifier::external_body]
        pub fn one() -> (r: Fl) ensures r == mk(XR::Fin(1real)) { Fl { v: 1.0 } }
        #[verifier::external_body]
        pub fn infinity() -> (r: Fl) ensures r == mk(XR::PosInf) { Fl { v: f64::INFINITY } }
        #[verifier::external_body]
        pub fn neg_infinity() -> (r: Fl) ensures r == mk(XR::NegInf) { Fl { v: f64::NEG_INFINITY } }
        #[verifier::external_body]
        pub fn epsilon() -> (r: Fl) ensures r == mk(XR::Fin(eps_r())) { Fl { v: f64::EPSILON } }
        #[allow(non_snake_case)]
        #[verifier::external_body]
        pub fn PI() -> (r: Fl) ensures r == mk(XR::Fin(pi_r())) { Fl { v: 3.14 } }
        #[verifier::external_body]
        pub fn ln(self) -> (r: Fl) ensures r == mk(xr_ln(val(self))) { Fl { v: self.v.ln() } }
        #[verifier::external_body]
        pub fn exp(self) -> (r: Fl) ensures r == mk(xr_exp(val(self))) { Fl { v: self.v.exp() } }
        #[verifier::external_body]
        pub fn sqrt(self) -> (r: Fl) ensures r == mk(xr_sqrt(val(self))) { Fl { v: self.v.sqrt() } }
        #[verifier::external_body]
        pub fn powf(self, e: Fl) -> (r: Fl) ensures r == mk(xr_powf(val(self), val(e))) { Fl { v: self.v.powf(e.v) } }
        #[verifier::external_body]
        pub fn recip(self) -> (r: Fl) ensures r == fl_div(mk(XR::Fin(1real)), self) { Fl { v: 1.0 / self.v } }
        #[verifier::external_body]
        pub fn abs(self) -> (r: Fl) ensures r == mk(xr_abs(val(self))) { Fl { v: self.v.abs() } }
        #[verifier::external_body]
        pub fn min(self, o: Fl) -> (r: Fl) ensures r == mk(xr_min(val(self), val(o))) { Fl { v: self.v.min(o.v) } }
        #[verifier::external_body]
        pub fn max(self, o: Fl) -> (r: Fl) ensures r == mk(xr_max(val(self), val(o))) { Fl { v: self.v.max(o.v) } }
        #[verifier::external_body]
        pub fn is_nan(self) -> (r: bool) ensures r == (val(self) is NaN) { self.v.is_nan() }
        #[verifier::external_body]
        pub fn is_finite(self) -> (r: bool) ensures r == (val(self) is Fin) { self.v.is_finite() }
    }
    /// `f32::total_cmp` / `f64::total_cmp`: the IEEE-754 totalOrder — a total order on *all* values (NaN
    /// included) that agrees with `<` on every pair the partial order can compare.
    pub uninterp spec fn tc_key(f: Fl) -> int;
    pub broadcast axiom fn ax_tc_consistent(a: Fl, b: Fl) requires xr_gt(val(a), val(b)) ensures #![trigger tc_key(a), tc_key(b)] tc_key(a) > tc_key(b);
    pub open spec fn tc_spec(a: Fl, b: Fl) -> Ordering {
        if tc_key(a) < tc_key(b) { Ordering::Less } else if tc_key(a) > tc_key(b) { Ordering::Greater } else { Ordering::Equal }
    }
    impl Fl {
        #[verifier::external_body]
        pub fn total_cmp(&self, other: &Fl) -> (r: Ordering) ensures r == tc_spec(*self, *other) { unimplemented!() }
    }
    /// `std::f64::consts::PI`
    #[allow(non_snake_case)]
    #[verifier::external_body]
    pub fn PI_const() -> (r: Fl) ensures r == mk(XR::Fin(pi_r())) { Fl { v: 3.14 } }

    pub open spec fn vx_min_spec(a: usize, b: usize) -> usize { if a <= b { a } else { b } }
    /// length of a `zip` (R-zip)
    pub fn vx_min(a: usize, b: usize) -> (r: usize) ensures r == vx_min_spec(a, b) { if a <= b { a } else { b } }
}
