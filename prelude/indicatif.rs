// ---- prelude/indicatif.rs: progress bars (console UI only; no contract beyond "does not panic") ----
pub mod pbar {
    use vstd::prelude::*;
    /// ASSUMED: the indicatif calls below never panic and have no effect on sampler state
    #[verifier::external_body]
    pub struct ProgressBar { _p: u8 }
    #[verifier::external_body]
    pub struct ProgressStyle { _p: u8 }
    pub struct TemplateError;
    impl core::fmt::Debug for TemplateError { #[verifier::external_body] fn fmt(&self, f: &mut core::fmt::Formatter<'_>) -> core::fmt::Result { Ok(()) } }
    impl ProgressBar {
        #[verifier::external_body]
        pub fn new(len: u64) -> ProgressBar { unimplemented!() }
        #[verifier::external_body]
        pub fn set_style(&self, style: ProgressStyle) { unimplemented!() }
        #[verifier::external_body]
        pub fn set_prefix(&self, prefix: &str) { unimplemented!() }
        #[verifier::external_body]
        pub fn set_message(&self, msg: String) { unimplemented!() }
        #[verifier::external_body]
        pub fn inc(&self, delta: u64) { unimplemented!() }
        #[verifier::external_body]
        pub fn finish_with_message(&self, msg: &str) { unimplemented!() }
    }
    impl ProgressStyle {
        #[verifier::external_body]
        pub fn default_bar() -> ProgressStyle { unimplemented!() }
        /// ASSUMED: the literal templates used in this crate are valid indicatif templates
        #[verifier::external_body]
        pub fn template(self, s: &str) -> (r: Result<ProgressStyle, TemplateError>) ensures r is Ok { unimplemented!() }
        #[verifier::external_body]
        pub fn progress_chars(self, s: &str) -> ProgressStyle { unimplemented!() }
    }
    /// `format!(..)` after rule R-fmt: an unspecified String
    #[verifier::external_body]
    pub fn fmt_opaque() -> String { unimplemented!() }
}
