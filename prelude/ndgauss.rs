// ---- prelude/ndgauss.rs: the small-matrix ndarray operations used by Gaussian2D (ASSUMED contracts of ndarray) ----
pub mod ndg {
    use vstd::prelude::*;
    use super::fl::*;
    use super::nd::*;
    use super::ndf::*;
    use super::ndt::*;

    /// `m[(i, j)]` (rule R-index): ndarray panics when out of bounds
    #[verifier::external_body]
    pub fn nd_index2(m: &Array2<Fl>, ij: (usize, usize)) -> (r: Fl)
        requires ij.0 < odim2(*m).0, ij.1 < odim2(*m).1
        ensures r == a2(*m)[ij.0 as int][ij.1 as int]
    { unimplemented!() }
    /// `arr1(slice)`
    #[verifier::external_body]
    pub fn arr1(s: &[Fl]) -> (r: Array1<Fl>) ensures a1(r) == s@ { unimplemented!() }
    /// `arr2(&[[a, b], [c, d]])`
    #[verifier::external_body]
    pub fn arr2(m: &[[Fl; 2]; 2]) -> (r: Array2<Fl>)
        ensures odim2(r) == (2int, 2int), a2(r) == seq![seq![m@[0]@[0], m@[0]@[1]], seq![m@[1]@[0], m@[1]@[1]]]
    { unimplemented!() }
    /// `v.dot(&m)` (row vector times matrix) and `v.dot(&w)` (inner product): sums taken left to right from 0
    pub trait DotArg: Sized { type Out; spec fn dot_req(self, v: Seq<Fl>) -> bool; spec fn dot_res(self, v: Seq<Fl>, out: Self::Out) -> bool; }
    pub open spec fn fsum_prod(v: Seq<Fl>, w: Seq<Fl>, k: int) -> Fl decreases k {
        if k <= 0 { mk(XR::Fin(0real)) } else { f_add(fsum_prod(v, w, k - 1), f_mul(v[k - 1], w[k - 1])) }
    }
    pub open spec fn col_of(m: Seq<Seq<Fl>>, j: int) -> Seq<Fl> { Seq::new(m.len(), |i: int| m[i][j]) }
    impl<'a> DotArg for &'a Array2<Fl> {
        type Out = Array1<Fl>;
        open spec fn dot_req(self, v: Seq<Fl>) -> bool { v.len() == odim2(*self).0 }
        open spec fn dot_res(self, v: Seq<Fl>, out: Array1<Fl>) -> bool {
            a1(out).len() == odim2(*self).1 && forall |j: int| 0 <= j < odim2(*self).1 ==> (#[trigger] a1(out)[j]) == fsum_prod(v, col_of(a2(*self), j), v.len() as int)
        }
    }
    impl<'a> DotArg for &'a Array1<Fl> {
        type Out = Fl;
        open spec fn dot_req(self, v: Seq<Fl>) -> bool { v.len() == a1(*self).len() }
        open spec fn dot_res(self, v: Seq<Fl>, out: Fl) -> bool { out == fsum_prod(v, a1(*self), v.len() as int) }
    }
    impl Array1<Fl> {
        #[verifier::external_body]
        pub fn dot<R: DotArg>(&self, rhs: R) -> (r: R::Out)
            requires rhs.dot_req(a1(*self))
            ensures rhs.dot_res(a1(*self), r)
        { unimplemented!() }
    }
}
