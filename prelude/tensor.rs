// ======================================================================================
// prelude/tensor.rs — ASSUMED contracts for the burn tensor operations the samplers call.
// Tensors are opaque; `v1/v2/v3` give their contents as (nested) sequences of extended reals,
// `b1/b2` for boolean tensors.  As in burn, the stubs live in rank-generic impls; an operation
// that only makes sense at one rank `requires` it.  Element-wise operations state their effect
// on every view.  Autodiff: `backward()` records (leaf, gradient) as uninterpreted functions of
// the output tensor; the *target trait law* (in the unit) says what they are for a user target —
// so the plumbing (which tensor is differentiated w.r.t. which leaf) is proved, while "burn's
// autodiff computes the true gradient" is the assumption.
// AMBIENT: `Tensor::random` uses burn's process-global generator: values unconstrained.
// ======================================================================================
pub mod tn {
    use vstd::prelude::*;
    use vstd::std_specs::ops::*;
    use super::fl::*;

    pub type V = Seq<XR>;
    pub type M = Seq<Seq<XR>>;
    pub type C3 = Seq<Seq<Seq<XR>>>;
    pub open spec fn vadd(a: V, b: V) -> V { Seq::new(a.len(), |i: int| xr_add(a[i], b[i])) }
    pub open spec fn vsub(a: V, b: V) -> V { Seq::new(a.len(), |i: int| xr_sub(a[i], b[i])) }
    pub open spec fn vmul(a: V, b: V) -> V { Seq::new(a.len(), |i: int| xr_mul(a[i], b[i])) }
    pub open spec fn vneg(a: V) -> V { Seq::new(a.len(), |i: int| xr_neg(a[i])) }
    pub open spec fn vscale(a: V, c: XR) -> V { Seq::new(a.len(), |i: int| xr_mul(a[i], c)) }
    pub open spec fn vpow(a: V, e: XR) -> V { Seq::new(a.len(), |i: int| xr_powf(a[i], e)) }
    pub open spec fn vln(a: V) -> V { Seq::new(a.len(), |i: int| xr_ln(a[i])) }
    /// left-to-right sum (burn's reduction order is not specified; in the real model the order is irrelevant for finite data)
    pub open spec fn vsum(a: V) -> XR decreases a.len() { if a.len() == 0 { XR::Fin(0real) } else { xr_add(vsum(a.drop_last()), a.last()) } }
    pub open spec fn vdot(a: V, b: V) -> XR { vsum(vmul(a, b)) }
    pub open spec fn madd(a: M, b: M) -> M { Seq::new(a.len(), |i: int| vadd(a[i], b[i])) }
    pub open spec fn msub(a: M, b: M) -> M { Seq::new(a.len(), |i: int| vsub(a[i], b[i])) }
    pub open spec fn mneg(a: M) -> M { Seq::new(a.len(), |i: int| vneg(a[i])) }
    pub open spec fn mscale(a: M, c: XR) -> M { Seq::new(a.len(), |i: int| vscale(a[i], c)) }
    pub open spec fn mpow(a: M, e: XR) -> M { Seq::new(a.len(), |i: int| vpow(a[i], e)) }
    pub open spec fn rect(a: M, n: int, d: int) -> bool { a.len() == n && forall |i: int| 0 <= i < n ==> (#[trigger] a[i]).len() == d }
    pub open spec fn rect3(a: C3, n: int, m: int, d: int) -> bool { a.len() == n && forall |i: int| 0 <= i < n ==> rect(#[trigger] a[i], m, d) }
    pub open spec fn xrs(s: Seq<Fl>) -> V { Seq::new(s.len(), |i: int| val(s[i])) }

    // ---- backends, devices, shapes ------------------------------------------------------
    pub trait DeviceDefault: Sized { fn default() -> Self; }
    /// `float_is_f32`: the backend's float element type is f32 (NdArray<f32>) rather than f64 (NdArray<f64>)
    pub trait Backend: Sized { type Device: DeviceDefault; spec fn float_is_f32() -> bool; }
    /// the sampler's own scalar type parameter `T` (erased to Fl in the units) is f32 rather than f64 — an arbitrary
    /// boolean, independent of the backend's: every (T, backend float) combination is inside the quantifier
    pub uninterp spec fn scalar_is_f32() -> bool;
    /// a scalar argument of `add_scalar` / `mul_scalar` (`E: ElementConversion`): the sampler scalar or an integer literal
    pub trait ScalarArg: Sized { spec fn sx(self) -> XR; }
    impl ScalarArg for Fl { open spec fn sx(self) -> XR { val(self) } }
    impl ScalarArg for i32 { open spec fn sx(self) -> XR { XR::Fin(self as real) } }
    pub trait ElemTag: Sized { spec fn tag_f32() -> bool; }
    impl ElemTag for Fl { open spec fn tag_f32() -> bool { scalar_is_f32() } }
    pub struct DataError;
    impl core::fmt::Debug for DataError { #[verifier::external_body] fn fmt(&self, f: &mut core::fmt::Formatter<'_>) -> core::fmt::Result { Ok(()) } }
    pub trait AutodiffBackend: Backend { type InnerBackend: Backend; }
    pub struct Float;
    pub struct Bool;
    pub struct Shape<const D: usize> { pub dims: [usize; D] }
    impl<const D: usize> Shape<D> {
        pub fn new(dims: [usize; D]) -> (r: Self) ensures r.dims == dims { Shape { dims } }
    }
    pub mod burn {
        pub mod tensor {
            /// `Distribution::Normal(mean, std)` / `Distribution::Default` (uniform on [0,1))
            pub enum Distribution { Default, Normal(super::super::super::fl::Fl, super::super::super::fl::Fl) }
        }
    }
    /// `TensorData::new(values, shape)`: row-major values with a shape (burn panics unless the element count matches)
    pub struct TensorData { pub ghost flat: Seq<Fl>, pub ghost shape: Seq<usize>, pub ghost is_f32: bool, pub ghost src: TKey }
    /// an opaque name for "the content of this tensor" / "that content converted to f32" (used only to state that a summary is a
    /// function of the sample it is computed from)
    #[verifier::external_body]
    pub struct TKey { _p: u8 }
    pub uninterp spec fn tkey<B, const D: usize, K>(t: Tensor<B, D, K>) -> TKey;
    pub uninterp spec fn key32(k: TKey) -> TKey;
    pub uninterp spec fn slice_key<E>(s: Seq<E>) -> TKey;
    /// the shape of a rank-3 tensor
    pub uninterp spec fn tdim3<B, const D: usize, K>(t: Tensor<B, D, K>) -> (int, int, int);
    impl ElemTag for f32 { open spec fn tag_f32() -> bool { true } }
    impl TensorData {
        /// `iter::<E>()`: the elements converted to E, in order (never fails); only the count is tracked
        #[verifier::external_body]
        pub fn iter(&self) -> (r: TdIter) ensures tdi_len(r) == self.flat.len() { unimplemented!() }
        /// `as_slice::<E>()`: Err(TypeMismatch) unless E is the stored element type
        #[verifier::external_body]
        pub fn as_slice<E: ElemTag>(&self) -> (r: Result<&[E], DataError>)
            ensures (r is Ok) == (E::tag_f32() == self.is_f32), r is Ok ==> r->Ok_0@.len() == self.flat.len() && slice_key(r->Ok_0@) == self.src
        { unimplemented!() }
        /// `convert::<E>()`: the same values converted to element type E
        #[verifier::external_body]
        pub fn convert<E: ElemTag>(self) -> (r: TensorData)
            ensures r.is_f32 == E::tag_f32(), r.flat.len() == self.flat.len(), r.shape == self.shape,
                r.src == (if E::tag_f32() && !self.is_f32 { key32(self.src) } else { self.src })
        { unimplemented!() }
        #[verifier::external_body]
        pub fn new<const D: usize>(values: Vec<Fl>, shape: [usize; D]) -> (r: TensorData)
            requires D == 1 ==> values@.len() == shape@[0], D == 2 ==> values@.len() == shape@[0] * shape@[1]
            ensures r.flat == values@, r.shape == shape@, r.is_f32 == scalar_is_f32()
        { unimplemented!() }
    }

    #[verifier::external_body]
    pub struct TdIter { _p: u8 }
    pub uninterp spec fn tdi_len(i: TdIter) -> int;
    #[verifier::external_body]
    #[verifier::reject_recursive_types(F)]
    pub struct TdMap<F> { _f: core::marker::PhantomData<F> }
    pub uninterp spec fn tdm_len<F>(i: TdMap<F>) -> int;
    impl TdIter {
        #[verifier::external_body]
        pub fn map<F: Fn(Fl) -> Fl>(self, f: F) -> (r: TdMap<F>)
            requires forall |x: Fl| #[trigger] f.requires((x,))
            ensures tdm_len(r) == tdi_len(self)
        { unimplemented!() }
    }
    impl<F: Fn(Fl) -> Fl> TdMap<F> {
        #[verifier::external_body]
        pub fn collect(self) -> (r: Vec<Fl>) ensures r@.len() == tdm_len(self) { unimplemented!() }
    }
    /// `burn::tensor::ToElement::to_f32`
    pub trait ToElement: Sized { fn to_f32(&self) -> Fl; }
    impl ToElement for Fl { #[verifier::external_body] fn to_f32(&self) -> Fl { unimplemented!() } }
    pub trait IntoTensorData: Sized { spec fn td_flat(self) -> Seq<Fl>; spec fn td_shape(self) -> Seq<usize>; }
    impl IntoTensorData for TensorData {
        open spec fn td_flat(self) -> Seq<Fl> { self.flat }
        open spec fn td_shape(self) -> Seq<usize> { self.shape }
    }
    impl<'a> IntoTensorData for &'a [Fl] {
        open spec fn td_flat(self) -> Seq<Fl> { self@ }
        open spec fn td_shape(self) -> Seq<usize> { seq![self@.len() as usize] }
    }

    #[verifier::external_body]
    #[verifier::accept_recursive_types(B)]
    #[verifier::accept_recursive_types(K)]
    pub struct Tensor<B, const D: usize, K = Float> { _b: core::marker::PhantomData<(B, K)> }
    #[verifier::external_body]
    #[verifier::accept_recursive_types(B)]
    pub struct Gradients<B> { _b: core::marker::PhantomData<B> }

    pub uninterp spec fn v1<B, const D: usize, K>(t: Tensor<B, D, K>) -> V;
    pub uninterp spec fn v2<B, const D: usize, K>(t: Tensor<B, D, K>) -> M;
    pub uninterp spec fn v3<B, const D: usize, K>(t: Tensor<B, D, K>) -> C3;
    pub uninterp spec fn b1<B, const D: usize, K>(t: Tensor<B, D, K>) -> Seq<bool>;
    pub uninterp spec fn b2<B, const D: usize, K>(t: Tensor<B, D, K>) -> Seq<Seq<bool>>;
    /// what a Gradients value was computed from: (leaf contents, d out / d leaf) — 2-D and 1-D forms
    pub uninterp spec fn g_of<B>(g: Gradients<B>) -> (M, M);
    pub uninterp spec fn g1_of<B>(g: Gradients<B>) -> (V, V);
    pub uninterp spec fn ad_leaf2<B, const D: usize>(t: Tensor<B, D>) -> M;
    pub uninterp spec fn ad_grad2<B, const D: usize>(t: Tensor<B, D>) -> M;
    pub uninterp spec fn ad_leaf1<B, const D: usize>(t: Tensor<B, D>) -> V;
    pub uninterp spec fn ad_grad1<B, const D: usize>(t: Tensor<B, D>) -> V;
    /// a tensor with given views (used by the operator impls, whose spec must be a function)
    pub uninterp spec fn t_of<B, const D: usize>(a: V, b: M) -> Tensor<B, D>;
    pub broadcast axiom fn ax_t_of<B, const D: usize>(a: V, b: M) ensures v1(#[trigger] t_of::<B, D>(a, b)) == a, v2(t_of::<B, D>(a, b)) == b;
    pub broadcast group tn_axioms { ax_t_of }

    /// a 2-D shape: all rows have one length (burn tensors are rectangular); `dims()`/`shape()` report it
    pub uninterp spec fn tdim2<B, const D: usize, K>(t: Tensor<B, D, K>) -> (int, int);
    pub broadcast axiom fn ax_tdim2<B, const D: usize>(t: Tensor<B, D>)
        ensures (#[trigger] tdim2(t)).0 >= 0, tdim2(t).1 >= 0, rect(v2(t), tdim2(t).0, tdim2(t).1),
            tdim2(t).0 * tdim2(t).1 <= usize::MAX;   // the element count of a tensor fits in usize

    impl<B: Backend, const D: usize> Tensor<B, D> {
        /// AMBIENT randomness (burn's global generator): only the shape is known
        #[verifier::external_body]
        pub fn random(shape: Shape<D>, dist: burn::tensor::Distribution, dev: &B::Device) -> (r: Self)
            ensures D == 2 ==> rect(v2(r), shape.dims@[0] as int, shape.dims@[1] as int) && tdim2(r) == (shape.dims@[0] as int, shape.dims@[1] as int),
                D == 1 ==> v1(r).len() == shape.dims@[0]
        { unimplemented!() }
        #[verifier::external_body]
        pub fn shape(&self) -> (r: Shape<D>)
            ensures D == 2 ==> r.dims@[0] == tdim2(*self).0 && r.dims@[1] == tdim2(*self).1, D == 1 ==> v1(*self).len() == r.dims@[0]
        { unimplemented!() }
        #[verifier::external_body]
        pub fn dims(&self) -> (r: [usize; D])
            ensures D == 2 ==> r@[0] == tdim2(*self).0 && r@[1] == tdim2(*self).1, D == 1 ==> v1(*self).len() == r@[0],
                D == 3 ==> r@[0] == tdim3(*self).0 && r@[1] == tdim3(*self).1 && r@[2] == tdim3(*self).2
        { unimplemented!() }
        #[verifier::external_body]
        pub fn clone(&self) -> (r: Self) ensures r == *self { unimplemented!() }
        /// `to_data()`: the values in the backend's float element type, row-major
        #[verifier::external_body]
        pub fn to_data(&self) -> (r: TensorData)
            ensures r.is_f32 == B::float_is_f32(), D == 2 ==> r.flat.len() == tdim2(*self).0 * tdim2(*self).1, D == 1 ==> r.flat.len() == v1(*self).len(),
                D == 3 ==> r.flat.len() == tdim3(*self).0 * tdim3(*self).1 * tdim3(*self).2, r.src == tkey(*self)
        { unimplemented!() }
        /// `from_data(TensorData::new(values, [n, d]), dev)` (row-major) or `from_data(slice, dev)` (1-D)
        #[verifier::external_body]
        pub fn from_data<X: IntoTensorData>(x: X, dev: &B::Device) -> (r: Self)
            requires x.td_shape().len() == D
            ensures
                D == 2 ==> tdim2(r) == (x.td_shape()[0] as int, x.td_shape()[1] as int) && rect(v2(r), x.td_shape()[0] as int, x.td_shape()[1] as int)
                    && forall |i: int, j: int| 0 <= i < x.td_shape()[0] && 0 <= j < x.td_shape()[1] ==> (#[trigger] v2(r)[i][j]) == val(x.td_flat()[i * x.td_shape()[1] + j]),
                D == 1 ==> v1(r) == xrs(x.td_flat()),
        { unimplemented!() }
        #[verifier::external_body]
        pub fn zeros_like(t: &Self) -> (r: Self) ensures D == 2 ==> tdim2(r) == tdim2(*t), v2(r).len() == v2(*t).len(), v1(r).len() == v1(*t).len() { unimplemented!() }
        #[verifier::external_body]
        pub fn add(self, o: Self) -> (r: Self) ensures v2(r) == madd(v2(self), v2(o)), v1(r) == vadd(v1(self), v1(o)), D == 2 ==> tdim2(r) == tdim2(self) { unimplemented!() }
        #[verifier::external_body]
        pub fn sub(self, o: Self) -> (r: Self) ensures v2(r) == msub(v2(self), v2(o)), v1(r) == vsub(v1(self), v1(o)) { unimplemented!() }
        #[verifier::external_body]
        pub fn mul_scalar<E: ScalarArg>(self, c: E) -> (r: Self) ensures v2(r) == mscale(v2(self), c.sx()), v1(r) == vscale(v1(self), c.sx()), D == 2 ==> tdim2(r) == tdim2(self) { unimplemented!() }
        #[verifier::external_body]
        pub fn powf_scalar(self, e: Fl) -> (r: Self) ensures v2(r) == mpow(v2(self), val(e)), v1(r) == vpow(v1(self), val(e)), D == 2 ==> tdim2(r) == tdim2(self) { unimplemented!() }
        #[verifier::external_body]
        pub fn log(self) -> (r: Self) ensures v1(r) == vln(v1(self)) { unimplemented!() }
        /// `sum_dim(1)` of an [n, d] tensor: [n, 1], row sums
        #[verifier::external_body]
        pub fn sum_dim(self, dim: usize) -> (r: Self)
            requires D == 2, dim == 1
            ensures v2(r).len() == v2(self).len(), forall |i: int| 0 <= i < v2(self).len() ==> #[trigger] v2(r)[i] == seq![vsum(v2(self)[i])]
        { unimplemented!() }
        /// `squeeze(1)` of an [n, 1] tensor: [n]
        #[verifier::external_body]
        pub fn squeeze<const D2: usize>(self, dim: usize) -> (r: Tensor<B, D2>)
            requires D == 2, dim == 1, D2 == 1, forall |i: int| 0 <= i < v2(self).len() ==> (#[trigger] v2(self)[i]).len() == 1
            ensures v1(r).len() == v2(self).len(), forall |i: int| 0 <= i < v2(self).len() ==> #[trigger] v1(r)[i] == v2(self)[i][0]
        { unimplemented!() }
        /// `t.inplace(f)`: `*t = f(*t)`
        #[verifier::external_body]
        pub fn inplace<F: FnOnce(Self) -> Self>(&mut self, f: F)
            requires f.requires((*old(self),))
            ensures f.ensures((*old(self),), *final(self))
        { unimplemented!() }
        /// `mask_where(mask, value)`: `value` where the mask is true, `self` elsewhere
        #[verifier::external_body]
        pub fn mask_where(self, mask: Tensor<B, D, Bool>, value: Self) -> (r: Self)
            requires D == 2, v2(self).len() == b2(mask).len(), v2(value).len() == b2(mask).len()
            ensures v2(r).len() == v2(self).len(), tdim2(r) == tdim2(self),
                forall |i: int| 0 <= i < v2(self).len() ==> (#[trigger] v2(r)[i]).len() == v2(self)[i].len(),
                forall |i: int, j: int| 0 <= i < v2(self).len() && 0 <= j < v2(self)[i].len() ==> #[trigger] v2(r)[i][j] == (if b2(mask)[i][j] { v2(value)[i][j] } else { v2(self)[i][j] })
        { unimplemented!() }
        #[verifier::external_body]
        pub fn greater_equal(self, o: Self) -> (r: Tensor<B, D, Bool>)
            requires D == 1
            ensures b1(r).len() == v1(self).len(), forall |i: int| 0 <= i < v1(self).len() ==> #[trigger] b1(r)[i] == xr_ge(v1(self)[i], v1(o)[i])
        { unimplemented!() }
        /// `unsqueeze_dim(0)` of an [n, d] tensor: [1, n, d]
        #[verifier::external_body]
        pub fn unsqueeze_dim<const D2: usize>(self, dim: usize) -> (r: Tensor<B, D2>)
            requires D == 2, dim == 0, D2 == 3
            ensures v3(r) == seq![v2(self)]
        { unimplemented!() }
        /// `empty(shape, dev)`: contents arbitrary
        #[verifier::external_body]
        pub fn empty(shape: [usize; D], dev: &B::Device) -> (r: Self)
            ensures D == 3 ==> rect3(v3(r), shape@[0] as int, shape@[1] as int, shape@[2] as int),
                D == 2 ==> tdim2(r) == (shape@[0] as int, shape@[1] as int)
        { unimplemented!() }
        /// `slice_assign(ranges, value)` replacing one slab: on a [s, n, d] tensor `[a..a+1, 0..n, 0..d]` with a [1, n, d] value;
        /// on an [n, d] tensor `[a..a+1, 0..d]` with a [1, d] value (burn panics when a range is out of bounds)
        #[verifier::external_body]
        pub fn slice_assign(self, ranges: [core::ops::Range<usize>; D], value: Self) -> (r: Self)
            requires D == 3 || D == 2,
                D == 3 ==> ranges@[0].end == ranges@[0].start + 1 && ranges@[0].start < v3(self).len() && ranges@[1].start == 0 && ranges@[2].start == 0
                    && v3(value).len() == 1 && rect(v3(value)[0], ranges@[1].end as int, ranges@[2].end as int)
                    && rect(v3(self)[ranges@[0].start as int], ranges@[1].end as int, ranges@[2].end as int),
                D == 2 ==> ranges@[0].end == ranges@[0].start + 1 && ranges@[0].start < tdim2(self).0 && ranges@[1].start == 0 && ranges@[1].end == tdim2(self).1
                    && v2(value).len() == 1 && v2(value)[0].len() == tdim2(self).1,
            ensures D == 3 ==> v3(r) == v3(self).update(ranges@[0].start as int, v3(value)[0]),
                D == 2 ==> v2(r) == v2(self).update(ranges@[0].start as int, v2(value)[0]) && tdim2(r) == tdim2(self)
        { unimplemented!() }
        /// `permute([1, 0, 2])`: swaps the first two axes
        #[verifier::external_body]
        pub fn permute(self, axes: [usize; 3]) -> (r: Self)
            requires D == 3, axes@[0] == 1, axes@[1] == 0, axes@[2] == 2
            ensures v3(self).len() > 0 ==> v3(r).len() == v3(self)[0].len(),
                forall |c: int, k: int| 0 <= k < v3(self).len() && 0 <= c < v3(self)[k].len() ==> (#[trigger] v3(r)[c][k]) == v3(self)[k][c],
                forall |c: int| 0 <= c < v3(r).len() ==> (#[trigger] v3(r)[c]).len() == v3(self).len()
        { unimplemented!() }
    }
    impl<B: Backend, const D: usize> core::ops::Neg for Tensor<B, D> { type Output = Self; #[verifier::external_body] fn neg(self) -> (r: Self) { unimplemented!() } }
    impl<B: Backend, const D: usize> NegSpecImpl for Tensor<B, D> {
        open spec fn obeys_neg_spec() -> bool { true }
        open spec fn neg_req(self) -> bool { true }
        open spec fn neg_spec(self) -> Self { t_of::<B, D>(vneg(v1(self)), mneg(v2(self))) }
    }
    impl<B: Backend, const D: usize> core::ops::Add for Tensor<B, D> { type Output = Self; #[verifier::external_body] fn add(self, o: Self) -> (r: Self) { unimplemented!() } }
    impl<B: Backend, const D: usize> AddSpecImpl for Tensor<B, D> {
        open spec fn obeys_add_spec() -> bool { true }
        open spec fn add_req(self, o: Self) -> bool { true }
        open spec fn add_spec(self, o: Self) -> Self { t_of::<B, D>(vadd(v1(self), v1(o)), madd(v2(self), v2(o))) }
    }
    impl<B: Backend, const D: usize> Tensor<B, D, Bool> {
        #[verifier::external_body]
        pub fn clone(&self) -> (r: Self) ensures r == *self { unimplemented!() }
        /// `unsqueeze_dim(1)` of a boolean [n] tensor: [n, 1]
        #[verifier::external_body]
        pub fn unsqueeze_dim<const D2: usize>(self, dim: usize) -> (r: Tensor<B, D2, Bool>)
            requires D == 1, dim == 1, D2 == 2
            ensures b2(r).len() == b1(self).len(), forall |i: int| 0 <= i < b1(self).len() ==> #[trigger] b2(r)[i] == seq![b1(self)[i]]
        { unimplemented!() }
        /// `expand([n, d])` of an [n, 1] tensor
        #[verifier::external_body]
        pub fn expand(self, shape: [usize; 2]) -> (r: Self)
            requires D == 2, b2(self).len() == shape@[0], forall |i: int| 0 <= i < b2(self).len() ==> (#[trigger] b2(self)[i]).len() == 1
            ensures b2(r).len() == shape@[0], forall |i: int| 0 <= i < shape@[0] ==> (#[trigger] b2(r)[i]).len() == shape@[1],
                forall |i: int, j: int| 0 <= i < shape@[0] && 0 <= j < shape@[1] ==> #[trigger] b2(r)[i][j] == b2(self)[i][0]
        { unimplemented!() }
    }
    impl<B: AutodiffBackend, const D: usize> Tensor<B, D> {
        #[verifier::external_body]
        pub fn detach(self) -> (r: Self) ensures v2(r) == v2(self), v1(r) == v1(self), v3(r) == v3(self), D == 2 ==> tdim2(r) == tdim2(self) { unimplemented!() }
        #[verifier::external_body]
        pub fn require_grad(self) -> (r: Self) ensures v2(r) == v2(self), v1(r) == v1(self), D == 2 ==> tdim2(r) == tdim2(self) { unimplemented!() }
        /// `leaf.grad(&grads)`: Some(d out / d leaf) when `grads` came from a value computed from this very leaf
        #[verifier::external_body]
        pub fn grad(&self, g: &Gradients<B>) -> (r: Option<Tensor<B::InnerBackend, D>>)
            ensures D == 2 && g_of(*g).0 == v2(*self) ==> (r is Some && v2(r->Some_0) == g_of(*g).1),
                D == 1 && g1_of(*g).0 == v1(*self) ==> (r is Some && v1(r->Some_0) == g1_of(*g).1)
        { unimplemented!() }
        #[verifier::external_body]
        pub fn from_inner(t: Tensor<B::InnerBackend, D>) -> (r: Self) ensures v2(r) == v2(t), v1(r) == v1(t) { unimplemented!() }
        #[verifier::external_body]
        pub fn backward(&self) -> (g: Gradients<B>) ensures g_of(g) == (ad_leaf2(*self), ad_grad2(*self)), g1_of(g) == (ad_leaf1(*self), ad_grad1(*self)) { unimplemented!() }
    }

    // ---- 1-D operations used by src/nuts.rs ------------------------------------------------
    /// an element extracted from a boolean tensor (`into_scalar()` then `.to_bool()`)
    pub struct BoolElem { pub b: bool }
    impl BoolElem { pub fn to_bool(self) -> (r: bool) ensures r == self.b { self.b } }
    /// scalars that burn's `*_elem` / `*_scalar` methods accept
    pub trait ElemLike: Sized { spec fn xr(&self) -> XR; }
    impl ElemLike for Fl { open spec fn xr(&self) -> XR { val(*self) } }
    impl ElemLike for i32 { open spec fn xr(&self) -> XR { XR::Fin(*self as real) } }
    impl ElemLike for usize { open spec fn xr(&self) -> XR { XR::Fin(*self as real) } }

    impl<B: Backend, const D: usize> Tensor<B, D> {
        /// `sum()`: a 1-element tensor holding the sum of all elements (1-D use)
        #[verifier::external_body]
        pub fn sum(self) -> (r: Tensor<B, 1>) requires D == 1 ensures v1(r) == seq![vsum(v1(self))] { unimplemented!() }
        /// `into_scalar()` of a 1-element tensor
        #[verifier::external_body]
        pub fn into_scalar(self) -> (r: Fl) requires v1(self).len() == 1 ensures val(r) == v1(self)[0] { unimplemented!() }
        #[verifier::external_body]
        pub fn greater_equal_elem<E: ElemLike>(self, e: E) -> (r: Tensor<B, D, Bool>)
            ensures b1(r).len() == v1(self).len(), forall |i: int| 0 <= i < v1(self).len() ==> #[trigger] b1(r)[i] == xr_ge(v1(self)[i], e.xr())
        { unimplemented!() }
        #[verifier::external_body]
        pub fn greater_elem<E: ElemLike>(self, e: E) -> (r: Tensor<B, D, Bool>)
            ensures b1(r).len() == v1(self).len(), forall |i: int| 0 <= i < v1(self).len() ==> #[trigger] b1(r)[i] == xr_gt(v1(self)[i], e.xr())
        { unimplemented!() }
        #[verifier::external_body]
        pub fn lower_elem<E: ElemLike>(self, e: E) -> (r: Tensor<B, D, Bool>)
            ensures b1(r).len() == v1(self).len(), forall |i: int| 0 <= i < v1(self).len() ==> #[trigger] b1(r)[i] == xr_lt(v1(self)[i], e.xr())
        { unimplemented!() }
        #[verifier::external_body]
        pub fn lower_equal_elem<E: ElemLike>(self, e: E) -> (r: Tensor<B, D, Bool>)
            ensures b1(r).len() == v1(self).len(), forall |i: int| 0 <= i < v1(self).len() ==> #[trigger] b1(r)[i] == xr_le(v1(self)[i], e.xr())
        { unimplemented!() }
        #[verifier::external_body]
        pub fn not_equal_elem<E: ElemLike>(self, e: E) -> (r: Tensor<B, D, Bool>)
            ensures b1(r).len() == v1(self).len(), forall |i: int| 0 <= i < v1(self).len() ==> #[trigger] b1(r)[i] == !xr_eq(v1(self)[i], e.xr())
        { unimplemented!() }
        #[verifier::external_body]
        pub fn equal_elem<E: ElemLike>(self, e: E) -> (r: Tensor<B, D, Bool>)
            ensures b1(r).len() == v1(self).len(), forall |i: int| #![trigger b1(r)[i]] #![trigger v1(self)[i]] 0 <= i < v1(self).len() ==> b1(r)[i] == xr_eq(v1(self)[i], e.xr())
        { unimplemented!() }
        #[verifier::external_body]
        pub fn is_nan(self) -> (r: Tensor<B, D, Bool>)
            ensures b1(r).len() == v1(self).len(), forall |i: int| #![trigger b1(r)[i]] #![trigger v1(self)[i]] 0 <= i < v1(self).len() ==> b1(r)[i] == (v1(self)[i] is NaN)
        { unimplemented!() }
        /// `unsqueeze()` of a [d] tensor to [1, d]
        #[verifier::external_body]
        pub fn unsqueeze<const D2: usize>(self) -> (r: Tensor<B, D2>) requires D == 1, D2 == 2 ensures v2(r) == seq![v1(self)], tdim2(r) == (1int, v1(self).len() as int) { unimplemented!() }
        /// `Tensor::stack(list, 0)` of [n, d] tensors: [k, n, d] in list order (burn panics on unequal shapes)
        #[verifier::external_body]
        pub fn stack<const D2: usize>(ts: Vec<Tensor<B, D>>, dim: usize) -> (r: Tensor<B, D2>)
            requires D == 2, D2 == 3, dim == 0, ts@.len() >= 1, forall |i: int| 0 <= i < ts@.len() ==> tdim2(#[trigger] ts@[i]) == tdim2(ts@[0])
            ensures v3(r).len() == ts@.len(), forall |i: int| 0 <= i < ts@.len() ==> (#[trigger] v3(r)[i]) == v2(ts@[i])
        { unimplemented!() }
    }
    impl<B: Backend, const D: usize> Tensor<B, D, Bool> {
        #[verifier::external_body]
        pub fn into_scalar(self) -> (r: BoolElem) requires b1(self).len() == 1 ensures r.b == b1(self)[0] { unimplemented!() }
        #[verifier::external_body]
        pub fn bool_or(self, o: Self) -> (r: Self) ensures b1(r).len() == b1(self).len(), forall |i: int| #![trigger b1(r)[i]] #![trigger b1(self)[i]] #![trigger b1(o)[i]] 0 <= i < b1(self).len() ==> b1(r)[i] == (b1(self)[i] || b1(o)[i]) { unimplemented!() }
        #[verifier::external_body]
        pub fn bool_not(self) -> (r: Self) ensures b1(r).len() == b1(self).len(), forall |i: int| #![trigger b1(r)[i]] #![trigger b1(self)[i]] 0 <= i < b1(self).len() ==> b1(r)[i] == !b1(self)[i] { unimplemented!() }
        /// `any()`: a 1-element boolean tensor
        #[verifier::external_body]
        pub fn any(self) -> (r: Tensor<B, 1, Bool>) ensures b1(r).len() == 1, b1(r)[0] == (exists |i: int| 0 <= i < b1(self).len() && #[trigger] b1(self)[i]) { unimplemented!() }
    }
    impl<B: Backend, const D: usize> core::ops::Sub for Tensor<B, D> { type Output = Self; #[verifier::external_body] fn sub(self, o: Self) -> (r: Self) { unimplemented!() } }
    impl<B: Backend, const D: usize> SubSpecImpl for Tensor<B, D> {
        open spec fn obeys_sub_spec() -> bool { true }
        open spec fn sub_req(self, o: Self) -> bool { true }
        open spec fn sub_spec(self, o: Self) -> Self { t_of::<B, D>(vsub(v1(self), v1(o)), msub(v2(self), v2(o))) }
    }
    impl<B: Backend, const D: usize> core::ops::Mul for Tensor<B, D> { type Output = Self; #[verifier::external_body] fn mul(self, o: Self) -> (r: Self) { unimplemented!() } }
    pub open spec fn mmul(a: M, b: M) -> M { Seq::new(a.len(), |i: int| vmul(a[i], b[i])) }
    impl<B: Backend, const D: usize> MulSpecImpl for Tensor<B, D> {
        open spec fn obeys_mul_spec() -> bool { true }
        open spec fn mul_req(self, o: Self) -> bool { true }
        open spec fn mul_spec(self, o: Self) -> Self { t_of::<B, D>(vmul(v1(self), v1(o)), mmul(v2(self), v2(o))) }
    }
    /// `tensor * scalar`
    impl<B: Backend, const D: usize> core::ops::Mul<Fl> for Tensor<B, D> { type Output = Self; #[verifier::external_body] fn mul(self, o: Fl) -> (r: Self) { unimplemented!() } }
    impl<B: Backend, const D: usize> MulSpecImpl<Fl> for Tensor<B, D> {
        open spec fn obeys_mul_spec() -> bool { true }
        open spec fn mul_req(self, o: Fl) -> bool { true }
        open spec fn mul_spec(self, o: Fl) -> Self { t_of::<B, D>(vscale(v1(self), val(o)), mscale(v2(self), val(o))) }
    }
}
