// ---- prelude/tensorops.rs: element-wise / slicing burn operations used by the built-in tensor targets ----
// Every contract is stated on the value views of prelude/tensor.rs (v1: rank 1, v2: rank 2) in the extended-real
// float model; each is an ASSUMED contract of burn 0.18 (documented behaviour, panics turned into `requires`).
pub mod tno {
    use vstd::prelude::*;
    use super::fl::*;
    use super::tn::*;

    /// `s![a..b]` (rule R-smacro)
    pub struct SPatR(pub usize, pub usize);
    /// the ranges argument of `slice`: lo/hi per axis
    pub trait RangesArg<const D: usize>: Sized { spec fn lo(self, ax: int) -> int; spec fn hi(self, ax: int) -> int; }
    impl RangesArg<2> for [core::ops::Range<usize>; 2] {
        open spec fn lo(self, ax: int) -> int { self@[ax].start as int }
        open spec fn hi(self, ax: int) -> int { self@[ax].end as int }
    }
    impl RangesArg<1> for SPatR {
        open spec fn lo(self, ax: int) -> int { self.0 as int }
        open spec fn hi(self, ax: int) -> int { self.1 as int }
    }
    pub open spec fn vadds(a: V, c: XR) -> V { Seq::new(a.len(), |i: int| xr_add(a[i], c)) }
    pub open spec fn madds(a: M, c: XR) -> M { Seq::new(a.len(), |i: int| vadds(a[i], c)) }
    pub open spec fn vsq(a: V) -> V { Seq::new(a.len(), |i: int| xr_mul(a[i], a[i])) }
    pub open spec fn msq(a: M) -> M { Seq::new(a.len(), |i: int| vsq(a[i])) }
    pub open spec fn msub_range(a: M, lo0: int, hi0: int, lo1: int, hi1: int) -> M { Seq::new((hi0 - lo0) as nat, |i: int| a[lo0 + i].subrange(lo1, hi1)) }

    impl<B: Backend, const D: usize> Tensor<B, D> {
        /// `slice(ranges)`: burn panics on an empty/descending range or one that exceeds the dimension
        #[verifier::external_body]
        pub fn slice<R: RangesArg<D>>(self, r: R) -> (out: Self)
            requires
                D == 1 ==> 0 <= r.lo(0) < r.hi(0) <= v1(self).len(),
                D == 2 ==> 0 <= r.lo(0) < r.hi(0) <= tdim2(self).0 && 0 <= r.lo(1) < r.hi(1) <= tdim2(self).1,
                D == 1 || D == 2,
            ensures
                D == 1 ==> v1(out) == v1(self).subrange(r.lo(0), r.hi(0)),
                D == 2 ==> tdim2(out) == (r.hi(0) - r.lo(0), r.hi(1) - r.lo(1)) && v2(out) == msub_range(v2(self), r.lo(0), r.hi(0), r.lo(1), r.hi(1)),
        { unimplemented!() }
        #[verifier::external_body]
        pub fn add_scalar<E: ScalarArg>(self, c: E) -> (r: Self)
            ensures v1(r) == vadds(v1(self), c.sx()), v2(r) == madds(v2(self), c.sx()), D == 2 ==> tdim2(r) == tdim2(self)
        { unimplemented!() }
        /// `powi_scalar(2)`: the square (only exponent 2 is used)
        #[verifier::external_body]
        pub fn powi_scalar(self, e: i32) -> (r: Self)
            requires e == 2
            ensures v1(r) == vsq(v1(self)), v2(r) == msq(v2(self)), D == 2 ==> tdim2(r) == tdim2(self)
        { unimplemented!() }
        /// `.neg()` (method form of unary minus)
        #[verifier::external_body]
        pub fn neg(self) -> (r: Self)
            ensures v1(r) == vneg(v1(self)), v2(r) == mneg(v2(self)), D == 2 ==> tdim2(r) == tdim2(self)
        { unimplemented!() }
        /// `flatten(0, 1)` of an [n, 1] tensor: [n]
        #[verifier::external_body]
        pub fn flatten<const D2: usize>(self, start: usize, end: usize) -> (r: Tensor<B, D2>)
            requires D == 2, D2 == 1, start == 0, end == 1, forall |i: int| 0 <= i < v2(self).len() ==> (#[trigger] v2(self)[i]).len() == 1
            ensures v1(r).len() == v2(self).len(), forall |i: int| 0 <= i < v2(self).len() ==> #[trigger] v1(r)[i] == v2(self)[i][0]
        { unimplemented!() }
        /// `expand([n, d])` of a [1, d] tensor: every row is the one row
        #[verifier::external_body]
        pub fn expand(self, shape: [usize; 2]) -> (r: Self)
            requires D == 2, tdim2(self) == (1int, shape@[1] as int)
            ensures tdim2(r) == (shape@[0] as int, shape@[1] as int), v2(r) == Seq::new(shape@[0] as nat, |i: int| v2(self)[0])
        { unimplemented!() }
        /// `matmul` of [n, k] by [k, m]: entry (i, j) is the dot product of row i and column j (burn panics on a k mismatch)
        #[verifier::external_body]
        pub fn matmul(self, o: Self) -> (r: Self)
            requires D == 2, tdim2(self).1 == tdim2(o).0
            ensures tdim2(r) == (tdim2(self).0, tdim2(o).1), v2(r) == mm(v2(self), v2(o), tdim2(o).1)
        { unimplemented!() }
        /// `reshape(dims)`: the same elements in row-major order under a new shape (burn panics unless the counts agree)
        #[verifier::external_body]
        pub fn reshape<const D2: usize, S: ReshapeArg<D2>>(self, shape: S) -> (r: Tensor<B, D2>)
            requires D == 1 || D == 2, D2 == 1 || D2 == 2,
                (if D == 1 { v1(self).len() as int } else { numel2(tdim2(self).0, tdim2(self).1) }) == (if D2 == 1 { shape.rd(0) } else { numel2(shape.rd(0), shape.rd(1)) }),
                shape.rd(0) >= 1, D2 == 2 ==> shape.rd(1) >= 1,
            ensures
                D2 == 1 ==> v1(r).len() == shape.rd(0) && forall |f: int| 0 <= f < shape.rd(0) ==> (#[trigger] v1(r)[f]) == flat_at(self, f),
                D2 == 2 ==> tdim2(r) == (shape.rd(0), shape.rd(1))
                    && forall |i: int, j: int| 0 <= i < shape.rd(0) && 0 <= j < shape.rd(1) ==> (#[trigger] v2(r)[i][j]) == flat_at(self, lin2(i, shape.rd(1), j)),
        { unimplemented!() }
        /// `Tensor::from_floats(array, dev)`
        #[verifier::external_body]
        pub fn from_floats<A: FloatsArg<D>>(a: A, dev: &B::Device) -> (r: Self)
            ensures D == 1 ==> v1(r) == a.fv1(), D == 2 ==> v2(r) == a.fv2() && tdim2(r) == a.fdim2()
        { unimplemented!() }
        /// `Tensor::ones(shape, dev)` (rank 1)
        #[verifier::external_body]
        pub fn ones(shape: Shape<D>, dev: &B::Device) -> (r: Self)
            requires D == 1
            ensures v1(r) == Seq::new(shape.dims@[0] as nat, |i: int| XR::Fin(1real))
        { unimplemented!() }
    }
    /// element f of the row-major flattening of a rank-1 or rank-2 tensor
    pub open spec fn flat_at<B, const D: usize>(t: Tensor<B, D>, f: int) -> XR {
        if D == 1 { v1(t)[f] } else if tdim2(t).0 == 1 { v2(t)[0][f] } else { v2(t)[f / tdim2(t).1][f % tdim2(t).1] }
    }
    /// r * c and i * w + j, with the small cases spelled out so that no nonlinear reasoning is needed for them
    pub open spec fn numel2(r: int, c: int) -> int { if r == 1 { c } else if r == 2 { c + c } else { r * c } }
    pub open spec fn lin2(i: int, w: int, j: int) -> int { if i == 0 { j } else if i == 1 { w + j } else { i * w + j } }
    pub open spec fn mcol(b: M, j: int) -> V { Seq::new(b.len(), |k: int| b[k][j]) }
    pub open spec fn mm(a: M, b: M, m: int) -> M { Seq::new(a.len(), |i: int| Seq::new(m as nat, |j: int| vdot(a[i], mcol(b, j)))) }
    pub trait ReshapeArg<const D2: usize>: Sized { spec fn rd(self, ax: int) -> int; }
    impl<const N: usize> ReshapeArg<N> for [usize; N] { open spec fn rd(self, ax: int) -> int { self@[ax] as int } }
    impl<const N: usize> ReshapeArg<N> for [i32; N] { open spec fn rd(self, ax: int) -> int { self@[ax] as int } }
    pub trait FloatsArg<const D: usize>: Sized { spec fn fv1(self) -> V; spec fn fv2(self) -> M; spec fn fdim2(self) -> (int, int); }
    impl<const N: usize> FloatsArg<1> for [Fl; N] {
        open spec fn fv1(self) -> V { Seq::new(N as nat, |i: int| val(self@[i])) }
        open spec fn fv2(self) -> M { Seq::empty() }
        open spec fn fdim2(self) -> (int, int) { (0, 0) }
    }
    impl<const N: usize, const K: usize> FloatsArg<2> for [[Fl; N]; K] {
        open spec fn fv1(self) -> V { Seq::empty() }
        open spec fn fv2(self) -> M { Seq::new(K as nat, |i: int| Seq::new(N as nat, |j: int| val(self@[i]@[j]))) }
        open spec fn fdim2(self) -> (int, int) { (K as int, N as int) }
    }
    /// `tensor + scalar`
    impl<B: Backend, const D: usize> core::ops::Add<Fl> for Tensor<B, D> { type Output = Self; #[verifier::external_body] fn add(self, o: Fl) -> (r: Self) { unimplemented!() } }
    impl<B: Backend, const D: usize> vstd::std_specs::ops::AddSpecImpl<Fl> for Tensor<B, D> {
        open spec fn obeys_add_spec() -> bool { true }
        open spec fn add_req(self, o: Fl) -> bool { true }
        open spec fn add_spec(self, o: Fl) -> Self { t_of::<B, D>(vadds(v1(self), val(o)), madds(v2(self), val(o))) }
    }
    /// `assert!`/`assert_eq!` at run time (rule R-assert): a panic unless the condition holds
    pub fn rt_assert(c: bool) requires c { }
}
