// ---- prelude/ndgen.rs: shape queries and axis iteration on generic ndarray arrays (ASSUMED contracts of ndarray) ----
pub mod ndx {
    use vstd::prelude::*;
    use super::nd::*;

    /// the shape of a 3-D array / 2-D view (defined also when some axis has length 0, where the nested sequences cannot tell)
    pub uninterp spec fn gdim3<T>(a: Array3<T>) -> (int, int, int);
    pub uninterp spec fn vdim2<'a, T>(a: ArrayView2<'a, T>) -> (int, int);
    pub broadcast axiom fn ax_gdim3<T>(a: Array3<T>)
        ensures (#[trigger] gdim3(a)).0 >= 0, gdim3(a).1 >= 0, gdim3(a).2 >= 0, rect3(a3(a), gdim3(a).0, gdim3(a).1, gdim3(a).2);
    pub broadcast axiom fn ax_vdim2<'a, T>(a: ArrayView2<'a, T>)
        ensures (#[trigger] vdim2(a)).0 >= 0, vdim2(a).1 >= 0, rect2(v2(a), vdim2(a).0, vdim2(a).1);
    pub broadcast group ndx_axioms { ax_gdim3, ax_vdim2 }

    impl<T> Array3<T> {
        #[verifier::external_body]
        pub fn shape(&self) -> (r: &[usize]) ensures r@.len() == 3, r@[0] == gdim3(*self).0, r@[1] == gdim3(*self).1, r@[2] == gdim3(*self).2 { unimplemented!() }
        #[verifier::external_body]
        pub fn len_of(&self, axis: Axis) -> (r: usize) requires axis.0 == 0 ensures r == gdim3(*self).0 { unimplemented!() }
        /// `index_axis(Axis(0), i)`: the i-th sub-array along axis 0 (panics when out of bounds)
        #[verifier::external_body]
        pub fn index_axis<'a>(&'a self, axis: Axis, i: usize) -> (r: ArrayView2<'a, T>)
            requires axis.0 == 0, i < gdim3(*self).0
            ensures v2(r) == a3(*self)[i as int], vdim2(r) == (gdim3(*self).1, gdim3(*self).2)
        { unimplemented!() }
    }
    impl<'a, T> ArrayView2<'a, T> {
        #[verifier::external_body]
        pub fn len_of(&self, axis: Axis) -> (r: usize) requires axis.0 == 0 ensures r == vdim2(*self).0 { unimplemented!() }
        #[verifier::external_body]
        pub fn index_axis(&self, axis: Axis, i: usize) -> (r: ArrayView1<'a, T>)
            requires axis.0 == 0, i < vdim2(*self).0
            ensures v1(r) == v2(*self)[i as int], v1(r).len() == vdim2(*self).1
        { unimplemented!() }
    }
    impl<'a, T> ArrayView1<'a, T> {
        #[verifier::external_body]
        pub fn len(&self) -> (r: usize) ensures r == v1(*self).len() { unimplemented!() }
    }
    /// `view[k]` (rule R-index) on a 1-D view
    #[verifier::external_body]
    pub fn nd_at1<'a, 'b, T>(v: &'b ArrayView1<'a, T>, k: usize) -> (r: &'b T)
        requires k < v1(*v).len()
        ensures *r == v1(*v)[k as int]
    { unimplemented!() }
}
