// ======================================================================================
// prelude/rng.rs — functional model of rand's SmallRng and of the draw kinds the library uses.
// TRUSTED (assumed contract): "a PRNG is a deterministic function of its state"; each draw
// kind k has an uninterpreted output function and an uninterpreted state-advance function.
// Sources the sampler does not own (`from_os_rng`, `rand::rng()`) are *ambient*: their stubs
// promise nothing about the resulting state, so no determinism/distinctness claim can be
// proved through them.
// ======================================================================================
pub mod rng {
    use vstd::prelude::*;
    use super::fl::*;

    #[verifier::external_body]
    pub struct RngState { _p: u8 }

    #[verifier::external_body]
    pub struct SmallRng { _p: u64 }

    pub uninterp spec fn state(r: SmallRng) -> RngState;
    pub uninterp spec fn seeded(seed: u64) -> RngState;

    /// the state came from operating-system entropy
    pub uninterp spec fn os_seeded(s: RngState) -> bool;
    /// ASSUMPTION `os_fresh` (probabilistic, used by C08 only): a generator seeded from OS entropy does not coincide with
    /// one seeded from a 64-bit integer (256-bit state vs. a 64-bit seed expansion)
    pub axiom fn ax_os_fresh(s: RngState, x: u64) requires os_seeded(s) ensures s != seeded(x);

    // draw kinds
    pub uninterp spec fn unif_out(s: RngState) -> Fl;
    pub uninterp spec fn unif_next(s: RngState) -> RngState;
    pub uninterp spec fn normal_out(s: RngState) -> Fl;
    pub uninterp spec fn normal_next(s: RngState) -> RngState;
    pub uninterp spec fn exp1_out(s: RngState) -> Fl;
    pub uninterp spec fn exp1_next(s: RngState) -> RngState;
    pub uninterp spec fn u64_out(s: RngState) -> u64;
    pub uninterp spec fn u64_next(s: RngState) -> RngState;

    /// StandardUniform on floats: a finite value in [0, 1)
    pub broadcast axiom fn ax_unif_range(s: RngState)
        ensures (#[trigger] val(unif_out(s))) is Fin, 0real <= val(unif_out(s))->Fin_0, val(unif_out(s))->Fin_0 < 1real;
    /// StandardNormal / Exp1 produce finite values; Exp1 is non-negative
    pub broadcast axiom fn ax_normal_finite(s: RngState) ensures (#[trigger] val(normal_out(s))) is Fin;
    pub broadcast axiom fn ax_exp1_range(s: RngState) ensures (#[trigger] val(exp1_out(s))) is Fin, val(exp1_out(s))->Fin_0 >= 0real;
    pub broadcast group rng_axioms { ax_unif_range, ax_normal_finite, ax_exp1_range }

    /// n successive draws of one kind: outputs and final state
    pub open spec fn normal_seq(s: RngState, n: nat) -> Seq<Fl> decreases n {
        if n == 0 { Seq::empty() } else { normal_seq(s, (n - 1) as nat).push(normal_out(normal_state(s, (n - 1) as nat))) }
    }
    pub open spec fn normal_state(s: RngState, n: nat) -> RngState decreases n {
        if n == 0 { s } else { normal_next(normal_state(s, (n - 1) as nat)) }
    }
    pub open spec fn unif_seq(s: RngState, n: nat) -> Seq<Fl> decreases n {
        if n == 0 { Seq::empty() } else { unif_seq(s, (n - 1) as nat).push(unif_out(unif_state(s, (n - 1) as nat))) }
    }
    pub open spec fn unif_state(s: RngState, n: nat) -> RngState decreases n {
        if n == 0 { s } else { unif_next(unif_state(s, (n - 1) as nat)) }
    }

    pub trait RandomValue: Sized {
        spec fn out(s: RngState) -> Self;
        spec fn next(s: RngState) -> RngState;
    }
    impl RandomValue for Fl {
        open spec fn out(s: RngState) -> Fl { unif_out(s) }
        open spec fn next(s: RngState) -> RngState { unif_next(s) }
    }
    impl RandomValue for u64 {
        open spec fn out(s: RngState) -> u64 { u64_out(s) }
        open spec fn next(s: RngState) -> RngState { u64_next(s) }
    }

    pub struct StandardNormal;
    pub struct Exp1;
    pub trait DrawKind: Sized {
        spec fn out(s: RngState) -> Fl;
        spec fn next(s: RngState) -> RngState;
    }
    impl DrawKind for StandardNormal {
        open spec fn out(s: RngState) -> Fl { normal_out(s) }
        open spec fn next(s: RngState) -> RngState { normal_next(s) }
    }
    impl DrawKind for Exp1 {
        open spec fn out(s: RngState) -> Fl { exp1_out(s) }
        open spec fn next(s: RngState) -> RngState { exp1_next(s) }
    }

    impl SmallRng {
        /// rand::SeedableRng::seed_from_u64
        #[verifier::external_body]
        pub fn seed_from_u64(seed: u64) -> (r: SmallRng) ensures state(r) == seeded(seed) { unimplemented!() }
        /// AMBIENT: operating-system entropy; nothing is known about the state except `os_seeded`
        #[verifier::external_body]
        pub fn from_os_rng() -> (r: SmallRng) ensures os_seeded(state(r)) { unimplemented!() }
        /// rand::Rng::random::<T>()
        #[verifier::external_body]
        pub fn random<T: RandomValue>(&mut self) -> (r: T)
            ensures r == T::out(state(*old(self))), state(*final(self)) == T::next(state(*old(self)))
        { unimplemented!() }
        /// rand::Rng::sample(distr)
        #[verifier::external_body]
        pub fn sample<D: DrawKind>(&mut self, d: D) -> (r: Fl)
            ensures r == D::out(state(*old(self))), state(*final(self)) == D::next(state(*old(self)))
        { unimplemented!() }
    }
    impl Clone for SmallRng {
        #[verifier::external_body]
        fn clone(&self) -> (r: SmallRng) ensures r == *self { unimplemented!() }
    }
    impl StandardNormal {
        /// rand_distr::Distribution::sample(&self, rng)
        #[verifier::external_body]
        pub fn sample(&self, rng: &mut SmallRng) -> (r: Fl)
            ensures r == normal_out(state(*old(rng))), state(*final(rng)) == normal_next(state(*old(rng)))
        { unimplemented!() }
    }

    /// rand_distr::Normal { mean, std_dev }: `sample` is `mean + std_dev * z` with z one StandardNormal draw
    pub struct Normal { pub mean: Fl, pub std_dev: Fl }
    pub struct NormalError;
    impl core::fmt::Debug for NormalError { #[verifier::external_body] fn fmt(&self, f: &mut core::fmt::Formatter<'_>) -> core::fmt::Result { Ok(()) } }
    impl Normal {
        /// Err for a non-finite standard deviation (rand_distr: `BadVariance`); nothing is promised for other inputs beyond the fields
        #[verifier::external_body]
        pub fn new(mean: Fl, std_dev: Fl) -> (r: Result<Normal, NormalError>)
            ensures val(std_dev) is Fin ==> r is Ok, r is Ok ==> r->Ok_0.mean == mean && r->Ok_0.std_dev == std_dev
        { unimplemented!() }
        #[verifier::external_body]
        pub fn sample(&self, rng: &mut SmallRng) -> (r: Fl)
            ensures r == mk(xr_add(val(self.mean), xr_mul(val(self.std_dev), val(normal_out(state(*old(rng))))))),
                state(*final(rng)) == normal_next(state(*old(rng)))
        { unimplemented!() }
    }

    /// R-sampleiter: `(&mut rng).sample_iter(StandardNormal).take(n).collect::<Vec<T>>()` —
    /// rand documents `sample_iter` as repeated `sample`; `take(n).collect()` keeps the first n.
    #[verifier::external_body]
    pub fn vx_sample_n(rng: &mut SmallRng, d: StandardNormal, n: usize) -> (r: Vec<Fl>)
        ensures r@ == normal_seq(state(*old(rng)), n as nat), state(*final(rng)) == normal_state(state(*old(rng)), n as nat)
    { unimplemented!() }

    /// std: a `Vec` of a non-zero-sized element type never holds more than isize::MAX elements
    /// ("Vec never allocates more than isize::MAX bytes"). Invoked explicitly, only for such types.
    pub axiom fn ax_vec_len_le_isize_max<X>(v: &Vec<X>) ensures v@.len() <= isize::MAX as int;

    /// AMBIENT: `rand::rng()` — the thread-local generator
    #[verifier::external_body]
    pub struct ThreadRng { _p: u8 }
    #[verifier::external_body]
    pub fn rng() -> (r: ThreadRng) { unimplemented!() }
    impl ThreadRng {
        #[verifier::external_body]
        pub fn random<T>(&mut self) -> (r: T) { unimplemented!() }
    }
}
