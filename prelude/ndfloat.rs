// ======================================================================================
// prelude/ndfloat.rs — ASSUMED contracts for ndarray's numeric operations on float arrays
// (element type = the abstract float `Fl`).  Reductions are specified in real arithmetic on
// all-finite data and left unconstrained otherwise (rounding and overflow are not modelled).
// ======================================================================================
pub mod ndf {
    use vstd::prelude::*;
    use vstd::std_specs::ops::*;
    use super::fl::*;
    use super::nd::*;
    use core::cmp::Ordering;

    pub open spec fn rv(f: Fl) -> real { val(f)->Fin_0 }
    pub open spec fn fin1(s: Seq<Fl>) -> bool { forall |i: int| 0 <= i < s.len() ==> val(#[trigger] s[i]) is Fin }
    pub open spec fn fin2(m: Seq<Seq<Fl>>) -> bool { forall |i: int| 0 <= i < m.len() ==> fin1(#[trigger] m[i]) }
    pub open spec fn fin3(m: Seq<Seq<Seq<Fl>>>) -> bool { forall |i: int| 0 <= i < m.len() ==> fin2(#[trigger] m[i]) }
    /// sum of the first k entries (as reals)
    pub open spec fn rsum(s: Seq<Fl>, k: int) -> real decreases k {
        if k <= 0 { 0real } else { rsum(s, k - 1) + rv(s[k - 1]) }
    }
    pub open spec fn rmean(s: Seq<Fl>) -> real { rsum(s, s.len() as int) / (s.len() as real) }
    /// sum of squared deviations from m over the first k entries
    pub open spec fn rssd(s: Seq<Fl>, m: real, k: int) -> real decreases k {
        if k <= 0 { 0real } else { rssd(s, m, k - 1) + (rv(s[k - 1]) - m) * (rv(s[k - 1]) - m) }
    }
    pub open spec fn fl(x: real) -> Fl { mk(XR::Fin(x)) }
    pub open spec fn pow2_spec(s: Seq<Fl>) -> Seq<Fl> { Seq::new(s.len(), |i: int| mk(xr_mul(val(s[i]), val(s[i])))) }

    // ---- shapes -----------------------------------------------------------------------
    pub uninterp spec fn dim3<'a>(a: ArrayView3<'a, Fl>) -> (int, int, int);
    pub broadcast axiom fn ax_dim3<'a>(a: ArrayView3<'a, Fl>)
        ensures (#[trigger] dim3(a)).0 >= 0, dim3(a).1 >= 0, dim3(a).2 >= 0, rect3(v3(a), dim3(a).0, dim3(a).1, dim3(a).2);
    pub uninterp spec fn dim2<'a>(a: ArrayView2<'a, Fl>) -> (int, int);
    pub broadcast axiom fn ax_dim2<'a>(a: ArrayView2<'a, Fl>)
        ensures (#[trigger] dim2(a)).0 >= 0, dim2(a).1 >= 0, rect2(v2(a), dim2(a).0, dim2(a).1);
    pub uninterp spec fn odim3(a: Array3<Fl>) -> (int, int, int);
    pub broadcast axiom fn ax_odim3(a: Array3<Fl>)
        ensures (#[trigger] odim3(a)).0 >= 0, odim3(a).1 >= 0, odim3(a).2 >= 0, rect3(a3(a), odim3(a).0, odim3(a).1, odim3(a).2);
    pub uninterp spec fn odim2(a: Array2<Fl>) -> (int, int);
    pub broadcast axiom fn ax_odim2(a: Array2<Fl>)
        ensures (#[trigger] odim2(a)).0 >= 0, odim2(a).1 >= 0, rect2(a2(a), odim2(a).0, odim2(a).1);
    pub broadcast group ndf_axioms { ax_dim3, ax_dim2, ax_odim3, ax_odim2 }

    // ---- slicing patterns produced by rule R-smacro ------------------------------------
    /// `s![.., ..e, ..]`
    pub struct SPatATA(pub i32);
    /// `s![.., -e.., ..]`
    pub struct SPatANA(pub i32);
    /// `s![.., .., i]`
    pub struct SPatAAI(pub usize);
    /// `s![i, ..]`
    pub struct SPatIA(pub usize);

    pub trait Slice3<'a>: Sized {
        type Out;
        spec fn req(self, src: ArrayView3<'a, Fl>) -> bool;
        spec fn rel(self, src: ArrayView3<'a, Fl>, out: Self::Out) -> bool;
    }
    impl<'a> Slice3<'a> for SPatATA {
        type Out = ArrayView3<'a, Fl>;
        /// `..e` with 0 <= e <= len (a negative e would count from the end; not used by the library's callers here)
        open spec fn req(self, src: ArrayView3<'a, Fl>) -> bool { 0 <= self.0 <= dim3(src).1 }
        open spec fn rel(self, src: ArrayView3<'a, Fl>, out: ArrayView3<'a, Fl>) -> bool {
            &&& dim3(out) == (dim3(src).0, self.0 as int, dim3(src).2)
            &&& forall |c: int, t: int| 0 <= c < dim3(src).0 && 0 <= t < self.0 ==> (#[trigger] v3(out)[c][t]) == v3(src)[c][t]
        }
    }
    impl<'a> Slice3<'a> for SPatANA {
        type Out = ArrayView3<'a, Fl>;
        /// `-e..` with 0 < e <= len: the last e rows.  (`-0..` is `0..`, the whole axis.)
        open spec fn req(self, src: ArrayView3<'a, Fl>) -> bool { 0 <= self.0 <= dim3(src).1 }
        open spec fn rel(self, src: ArrayView3<'a, Fl>, out: ArrayView3<'a, Fl>) -> bool {
            let e: int = if self.0 == 0 { dim3(src).1 } else { self.0 as int };
            &&& dim3(out) == (dim3(src).0, e, dim3(src).2)
            &&& forall |c: int, t: int| 0 <= c < dim3(src).0 && 0 <= t < e ==> (#[trigger] v3(out)[c][t]) == v3(src)[c][dim3(src).1 - e + t]
        }
    }
    impl<'a> Slice3<'a> for SPatAAI {
        type Out = ArrayView2<'a, Fl>;
        open spec fn req(self, src: ArrayView3<'a, Fl>) -> bool { self.0 < dim3(src).2 }
        open spec fn rel(self, src: ArrayView3<'a, Fl>, out: ArrayView2<'a, Fl>) -> bool {
            &&& dim2(out) == (dim3(src).0, dim3(src).1)
            &&& forall |c: int, t: int| 0 <= c < dim3(src).0 && 0 <= t < dim3(src).1 ==> (#[trigger] v2(out)[c][t]) == v3(src)[c][t][self.0 as int]
        }
    }
    impl<'a> ArrayView3<'a, Fl> {
        #[verifier::external_body]
        pub fn shape(&self) -> (r: &[usize]) ensures r@.len() == 3, r@[0] == dim3(*self).0, r@[1] == dim3(*self).1, r@[2] == dim3(*self).2 { unimplemented!() }
        /// ndarray `slice(s![..])`: panics when an index/range is out of bounds
        #[verifier::external_body]
        pub fn slice<P: Slice3<'a>>(&self, p: P) -> (r: P::Out) requires p.req(*self) ensures p.rel(*self, r) { unimplemented!() }
    }
    impl<'a> ArrayView2<'a, Fl> {
        /// `slice(s![i, ..])`: row i
        #[verifier::external_body]
        pub fn slice(&self, p: SPatIA) -> (r: ArrayView1<'a, Fl>) requires p.0 < dim2(*self).0 ensures v1(r) == v2(*self)[p.0 as int] { unimplemented!() }
        /// `mean_axis(Axis(1))`: None iff the axis has length 0; else the mean of every row
        #[verifier::external_body]
        pub fn mean_axis(&self, axis: Axis) -> (r: Option<Array1<Fl>>)
            requires axis.0 == 1
            ensures (r is Some) == (dim2(*self).1 > 0),
                r is Some ==> a1(r->Some_0).len() == dim2(*self).0,
                r is Some ==> forall |i: int| 0 <= i < dim2(*self).0 && fin1(v2(*self)[i]) ==> (#[trigger] a1(r->Some_0)[i]) == fl(rmean(v2(*self)[i]))
        { unimplemented!() }
    }
    impl<'a> ArrayView1<'a, Fl> {
        #[verifier::external_body]
        pub fn len(&self) -> (r: usize) ensures r == v1(*self).len() { unimplemented!() }
        #[verifier::external_body]
        pub fn to_owned(&self) -> (r: Array1<Fl>) ensures a1(r) == v1(*self) { unimplemented!() }
    }
    /// `view[i]` (ndarray Index): panics when out of bounds
    #[verifier::external_body]
    pub fn nd_index_v1<'a, 'b>(a: &'b ArrayView1<'a, Fl>, i: usize) -> (r: &'b Fl) requires i < v1(*a).len() ensures *r == v1(*a)[i as int] { unimplemented!() }

    impl Array1<Fl> {
        #[verifier::external_body]
        pub fn len(&self) -> (r: usize) ensures r == a1(*self).len() { unimplemented!() }
        #[verifier::external_body]
        pub fn view<'a>(&'a self) -> (r: ArrayView1<'a, Fl>) ensures v1(r) == a1(*self) { unimplemented!() }
        /// `mean()`: None iff empty
        #[verifier::external_body]
        pub fn mean(&self) -> (r: Option<Fl>)
            ensures (r is Some) == (a1(*self).len() > 0), r is Some && fin1(a1(*self)) ==> r->Some_0 == fl(rmean(a1(*self)))
        { unimplemented!() }
        #[verifier::external_body]
        pub fn sum(&self) -> (r: Fl) ensures fin1(a1(*self)) ==> r == fl(rsum(a1(*self), a1(*self).len() as int)) { unimplemented!() }
        /// element-wise square
        #[verifier::external_body]
        pub fn pow2(&self) -> (r: Array1<Fl>) ensures a1(r) == pow2_spec(a1(*self)) { unimplemented!() }
        /// element-wise square root
        #[verifier::external_body]
        pub fn sqrt(&self) -> (r: Array1<Fl>)
            ensures a1(r).len() == a1(*self).len(), forall |i: int| 0 <= i < a1(*self).len() ==> (#[trigger] a1(r)[i]) == mk(xr_sqrt(val(a1(*self)[i])))
        { unimplemented!() }
        #[verifier::external_body]
        pub fn from_vec(v: Vec<Fl>) -> (r: Array1<Fl>) ensures a1(r) == v@ { unimplemented!() }
        /// `Array1::from(vec)`
        #[verifier::external_body]
        pub fn from(v: Vec<Fl>) -> (r: Array1<Fl>) ensures a1(r) == v@ { unimplemented!() }
        /// sample standard deviation `std(ddof)`; only its totality matters here
        #[verifier::external_body]
        pub fn std(&self, ddof: Fl) -> (r: Fl) { unimplemented!() }
        /// `as_slice_mut()`: Some for a contiguous owned 1-D array (always the case for `Array1` built by from_vec/sqrt)
        #[verifier::external_body]
        pub fn as_slice_mut(&mut self) -> (r: Option<&mut [Fl]>)
            ensures r is Some, r->Some_0@ == a1(*old(self)), a1(*final(self)) == final(r->Some_0)@
        { unimplemented!() }
        #[verifier::external_body]
        pub fn first(&self) -> (r: Option<&Fl>) ensures (r is Some) == (a1(*self).len() > 0), r is Some ==> *(r->Some_0) == a1(*self)[0] { unimplemented!() }
        #[verifier::external_body]
        pub fn last(&self) -> (r: Option<&Fl>) ensures (r is Some) == (a1(*self).len() > 0), r is Some ==> *(r->Some_0) == a1(*self)[a1(*self).len() - 1] { unimplemented!() }
    }
    /// `arr[i]` on an owned 1-D array
    #[verifier::external_body]
    pub fn nd_index_a1(a: &Array1<Fl>, i: usize) -> (r: Fl) requires i < a1(*a).len() ensures r == a1(*a)[i as int] { unimplemented!() }

    /// `&arr - scalar` (R-binop): element-wise
    #[verifier::external_body]
    pub fn nd_sub_scalar(a: &Array1<Fl>, rhs: Fl) -> (r: Array1<Fl>)
        ensures a1(r).len() == a1(*a).len(), forall |i: int| 0 <= i < a1(*a).len() ==> (#[trigger] a1(r)[i]) == mk(xr_sub(val(a1(*a)[i]), val(rhs)))
    { unimplemented!() }
    pub uninterp spec fn mk_a1(s: Seq<Fl>) -> Array1<Fl>;
    pub broadcast axiom fn ax_mk_a1(s: Seq<Fl>) ensures a1(#[trigger] mk_a1(s)) == s;
    // `arr / view` (element-wise; ndarray panics on a shape mismatch)
    impl<'a> core::ops::Div<ArrayView1<'a, Fl>> for Array1<Fl> {
        type Output = Array1<Fl>;
        #[verifier::external_body]
        fn div(self, rhs: ArrayView1<'a, Fl>) -> (r: Array1<Fl>) { unimplemented!() }
    }
    impl<'a> DivSpecImpl<ArrayView1<'a, Fl>> for Array1<Fl> {
        open spec fn obeys_div_spec() -> bool { true }
        open spec fn div_req(self, rhs: ArrayView1<'a, Fl>) -> bool { a1(self).len() == v1(rhs).len() }
        open spec fn div_spec(self, rhs: ArrayView1<'a, Fl>) -> Array1<Fl> { mk_a1(Seq::new(a1(self).len(), |i: int| fl_div(a1(self)[i], v1(rhs)[i]))) }
    }
    // `&Fl - Fl` (element reference minus scalar)
    impl<'b> core::ops::Sub<Fl> for &'b Fl {
        type Output = Fl;
        #[verifier::external_body]
        fn sub(self, rhs: Fl) -> (r: Fl) { unimplemented!() }
    }
    impl<'b> SubSpecImpl<Fl> for &'b Fl {
        open spec fn obeys_sub_spec() -> bool { true }
        open spec fn sub_req(self, rhs: Fl) -> bool { true }
        open spec fn sub_spec(self, rhs: Fl) -> Fl { mk(xr_sub(val(*self), val(rhs))) }
    }

    /// `concatenate(Axis(0), &[a, b])`: Err unless the other two dimensions agree; then a followed by b
    #[verifier::external_body]
    pub fn concatenate<'a>(axis: Axis, parts: &[ArrayView3<'a, Fl>; 2]) -> (r: Result<Array3<Fl>, ShapeError>)
        requires axis.0 == 0
        ensures (r is Ok) == (dim3(parts[0]).1 == dim3(parts[1]).1 && dim3(parts[0]).2 == dim3(parts[1]).2),
            r is Ok ==> odim3(r->Ok_0) == (dim3(parts[0]).0 + dim3(parts[1]).0, dim3(parts[0]).1, dim3(parts[0]).2)
                && a3(r->Ok_0) == v3(parts[0]) + v3(parts[1])
    { unimplemented!() }
    impl Array3<Fl> {
        #[verifier::external_body]
        pub fn view<'a>(&'a self) -> (r: ArrayView3<'a, Fl>) ensures v3(r) == a3(*self), dim3(r) == odim3(*self) { unimplemented!() }
    }

    /// the additive identity `Sum::sum` starts from (R-mapsum)
    #[verifier::external_body]
    pub fn vx_sum_zero() -> (r: Fl) ensures r == fl(0real) { unimplemented!() }

    // ---- slice::sort_by: the std-documented requirement that the comparator is a total order ----
    pub open spec fn rev(o: Ordering) -> Ordering { match o { Ordering::Less => Ordering::Greater, Ordering::Greater => Ordering::Less, Ordering::Equal => Ordering::Equal } }
    pub open spec fn total_on<F: Fn(&Fl, &Fl) -> Ordering>(f: F, s: Seq<Fl>) -> bool {
        &&& forall |i: int, j: int| 0 <= i < s.len() && 0 <= j < s.len() ==> #[trigger] f.requires((&s[i], &s[j]))
        &&& forall |i: int, j: int, o1: Ordering, o2: Ordering| 0 <= i < s.len() && 0 <= j < s.len()
                && #[trigger] f.ensures((&s[i], &s[j]), o1) && #[trigger] f.ensures((&s[j], &s[i]), o2) ==> o2 == rev(o1)
        &&& forall |i: int, j: int, k: int, o1: Ordering, o2: Ordering, o3: Ordering| 0 <= i < s.len() && 0 <= j < s.len() && 0 <= k < s.len()
                && #[trigger] f.ensures((&s[i], &s[j]), o1) && #[trigger] f.ensures((&s[j], &s[k]), o2) && #[trigger] f.ensures((&s[i], &s[k]), o3)
                ==> ((o1 != Ordering::Greater && o2 != Ordering::Greater ==> o3 != Ordering::Greater)
                     && (o1 == Ordering::Equal && o2 == Ordering::Equal ==> o3 == Ordering::Equal))
    }
    /// the comparator can answer "not Greater" for (a, b)
    pub open spec fn sorted_pair<F: Fn(&Fl, &Fl) -> Ordering>(f: F, a: Fl, b: Fl) -> bool {
        exists |o: Ordering| #[trigger] f.ensures((&a, &b), o) && o != Ordering::Greater
    }
    /// "May panic if the implementation of Ord/the comparator does not implement a total order" (std docs of sort_by).
    /// Result: a permutation of the input, ordered by the comparator.
    #[verifier::external_body]
    pub fn slice_sort_by<F: Fn(&Fl, &Fl) -> Ordering>(v: &mut [Fl], f: F)
        requires total_on(f, old(v)@)
        ensures final(v)@.len() == old(v)@.len(), final(v)@.to_multiset() == old(v)@.to_multiset(),
            forall |i: int, j: int| 0 <= i < j < final(v)@.len() ==> #[trigger] sorted_pair(f, final(v)@[i], final(v)@[j])
    { unimplemented!() }
}
