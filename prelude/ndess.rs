// ======================================================================================
// prelude/ndess.rs — ASSUMED contracts for the ndarray operations used by ess / autocov
// (src/stats.rs): columns, windows, 3-D reductions, broadcasting against (n, p), element-wise
// operators on 2-D arrays.  Same conventions as prelude/ndfloat.rs and prelude/ndtrack.rs.
// ======================================================================================
pub mod nde {
    use vstd::prelude::*;
    use vstd::std_specs::ops::*;
    use super::fl::*;
    use super::nd::*;
    use super::ndf::*;
    use super::ndt::*;

    // ---- views of 2-D data ----------------------------------------------------------------
    impl<'a> ArrayView2<'a, Fl> {
        #[verifier::external_body]
        pub fn nrows(&self) -> (r: usize) ensures r == dim2(*self).0 { unimplemented!() }
        #[verifier::external_body]
        pub fn dim(&self) -> (r: (usize, usize)) ensures r.0 == dim2(*self).0, r.1 == dim2(*self).1 { unimplemented!() }
        /// `column(j)`: panics when out of bounds
        #[verifier::external_body]
        pub fn column(&self, j: usize) -> (r: ArrayView1<'a, Fl>) requires j < dim2(*self).1
            ensures v1(r) == Seq::new(dim2(*self).0 as nat, |t: int| v2(*self)[t][j as int])
        { unimplemented!() }
    }
    impl<'a> ArrayView1<'a, Fl> {
        /// `mean()`: None iff empty
        #[verifier::external_body]
        pub fn mean(&self) -> (r: Option<Fl>)
            ensures (r is Some) == (v1(*self).len() > 0), r is Some && fin1(v1(*self)) ==> r->Some_0 == fl(rmean(v1(*self)))
        { unimplemented!() }
    }
    /// `arr1 - scalar`
    impl core::ops::Sub<Fl> for Array1<Fl> { type Output = Array1<Fl>; #[verifier::external_body] fn sub(self, rhs: Fl) -> Array1<Fl> { unimplemented!() } }
    pub open spec fn subs1(s: Seq<Fl>, c: Fl) -> Seq<Fl> { Seq::new(s.len(), |i: int| f_sub(s[i], c)) }
    impl SubSpecImpl<Fl> for Array1<Fl> {
        open spec fn obeys_sub_spec() -> bool { true }
        open spec fn sub_req(self, rhs: Fl) -> bool { true }
        open spec fn sub_spec(self, rhs: Fl) -> Array1<Fl> { mk_a1(subs1(a1(self), rhs)) }
    }
    impl Array2<Fl> {
        #[verifier::external_body]
        pub fn ncols(&self) -> (r: usize) ensures r == odim2(*self).1 { unimplemented!() }
        /// `index_axis(Axis(1), j).to_owned()` is split by the source into two calls: the column view
        #[verifier::external_body]
        pub fn index_axis<'a>(&'a self, axis: Axis, j: usize) -> (r: ArrayView1<'a, Fl>) requires axis.0 == 1, j < odim2(*self).1
            ensures v1(r) == Seq::new(odim2(*self).0 as nat, |t: int| a2(*self)[t][j as int])
        { unimplemented!() }
    }
    /// R-axisiter: `col[i] = e` on column j of `a` (a view obtained from `axis_iter_mut(Axis(1))`)
    #[verifier::external_body]
    pub fn nd_set2(a: &mut Array2<Fl>, i: usize, j: usize, e: Fl)
        requires i < odim2(*old(a)).0, j < odim2(*old(a)).1
        ensures odim2(*final(a)) == odim2(*old(a)), a2(*final(a)) == a2(*old(a)).update(i as int, a2(*old(a))[i as int].update(j as int, e))
    { unimplemented!() }
    /// zeros with a known shape (the generic `zeros` of prelude/ndarray.rs says nothing about `odim2`)
    pub broadcast axiom fn ax_zeros_dim(a: Array2<Fl>, r: int, c: int)
        requires rect2(a2(a), r, c), r > 0
        ensures #![trigger rect2(a2(a), r, c)] odim2(a) == (r, c);

    // ---- windows (R-windows) ---------------------------------------------------------------
    pub open spec fn win_count(len: int, n: int, s: int) -> int { if len < n || s <= 0 { 0 } else { (len - n) / s + 1 } }
    pub fn vx_win_count(len: usize, n: usize, s: usize) -> (r: usize) requires s > 0, n > 0 ensures r == win_count(len as int, n as int, s as int) {
        if len < n { 0 } else {
            proof { assert((len - n) as int / (s as int) <= (len - n) as int) by(nonlinear_arith) requires s >= 1, len - n >= 0; }
            (len - n) / s + 1
        }
    }
    /// the window of `n` elements starting at `start` (ndarray `windows_with_stride(n, s)` yields them for start = 0, s, 2s, ...)
    #[verifier::external_body]
    pub fn nd_window<'a>(a: &'a Array1<Fl>, start: usize, n: usize) -> (r: ArrayView1<'a, Fl>)
        requires start + n <= a1(*a).len()
        ensures v1(r) == a1(*a).subrange(start as int, start + n)
    { unimplemented!() }
    /// `view[i]` by value (Fl is Copy)
    #[verifier::external_body]
    pub fn nd_index_v1c<'a>(a: &ArrayView1<'a, Fl>, i: usize) -> (r: Fl) requires i < v1(*a).len() ensures r == v1(*a)[i as int] { unimplemented!() }
    /// `arr[[i]]`
    #[verifier::external_body]
    pub fn nd_index_a1x(a: &Array1<Fl>, i: [usize; 1]) -> (r: Fl) requires i@[0] < a1(*a).len() ensures r == a1(*a)[i@[0] as int] { unimplemented!() }

    // ---- 3-D: chains x lags x params -----------------------------------------------------------
    impl<'a> ArrayView3<'a, Fl> {
        /// `index_axis(Axis(0), c)`: chain c
        #[verifier::external_body]
        pub fn index_axis(&self, axis: Axis, c: usize) -> (r: ArrayView2<'a, Fl>) requires axis.0 == 0, c < dim3(*self).0
            ensures v2(r) == v3(*self)[c as int], dim2(r) == (dim3(*self).1, dim3(*self).2)
        { unimplemented!() }
    }
    impl Array2<Fl> {
        #[verifier::external_body]
        pub fn view2<'a>(&'a self) -> (r: ArrayView2<'a, Fl>) ensures v2(r) == a2(*self), dim2(r) == odim2(*self) { unimplemented!() }
    }
    /// `stack(Axis(0), &views)` of equally shaped 2-D views
    #[verifier::external_body]
    pub fn stack3<'a>(axis: Axis, views: &Vec<ArrayView2<'a, Fl>>) -> (r: Result<Array3<Fl>, ShapeError>)
        requires axis.0 == 0
        ensures (r is Ok) == (forall |i: int| 0 <= i < views@.len() ==> dim2(#[trigger] views@[i]) == dim2(views@[0])),
            r is Ok ==> a3(r->Ok_0).len() == views@.len() && (views@.len() > 0 ==> odim3(r->Ok_0) == (views@.len() as int, dim2(views@[0]).0, dim2(views@[0]).1))
                && forall |i: int| 0 <= i < views@.len() ==> (#[trigger] a3(r->Ok_0)[i]) == v2(views@[i])
    { unimplemented!() }
    /// sum over the first k slabs of entry (t, p)
    pub open spec fn ssum(x: Seq<Seq<Seq<Fl>>>, t: int, p: int, k: int) -> real decreases k {
        if k <= 0 { 0real } else { ssum(x, t, p, k - 1) + rv(x[k - 1][t][p]) }
    }
    impl Array3<Fl> {
        /// `mean_axis(Axis(0))`: None iff there are no slabs; else the entry-wise mean over the slabs
        #[verifier::external_body]
        pub fn mean_axis(&self, axis: Axis) -> (r: Option<Array2<Fl>>)
            requires axis.0 == 0
            ensures (r is Some) == (odim3(*self).0 > 0),
                r is Some ==> odim2(r->Some_0) == (odim3(*self).1, odim3(*self).2),
                r is Some && fin3(a3(*self)) ==> forall |t: int, p: int| 0 <= t < odim3(*self).1 && 0 <= p < odim3(*self).2 ==>
                    (#[trigger] a2(r->Some_0)[t][p]) == fl(ssum(a3(*self), t, p, odim3(*self).0) / (odim3(*self).0 as real))
        { unimplemented!() }
    }
    // `-arr2`, `arr2 + view2`, `arr2 / view2`, `arr2 + scalar`
    impl core::ops::Neg for Array2<Fl> { type Output = Array2<Fl>; #[verifier::external_body] fn neg(self) -> Array2<Fl> { unimplemented!() } }
    pub open spec fn neg2(a: Seq<Seq<Fl>>) -> Seq<Seq<Fl>> { Seq::new(a.len(), |i: int| Seq::new(a[i].len(), |j: int| mk(xr_neg(val(a[i][j]))))) }
    impl NegSpecImpl for Array2<Fl> {
        open spec fn obeys_neg_spec() -> bool { true }
        open spec fn neg_req(self) -> bool { true }
        open spec fn neg_spec(self) -> Array2<Fl> { mk_a2(neg2(a2(self))) }
    }
    impl<'a> core::ops::Add<ArrayView2<'a, Fl>> for Array2<Fl> { type Output = Array2<Fl>; #[verifier::external_body] fn add(self, rhs: ArrayView2<'a, Fl>) -> Array2<Fl> { unimplemented!() } }
    impl<'a> AddSpecImpl<ArrayView2<'a, Fl>> for Array2<Fl> {
        open spec fn obeys_add_spec() -> bool { true }
        open spec fn add_req(self, rhs: ArrayView2<'a, Fl>) -> bool { dim2(rhs) == odim2(self) }
        open spec fn add_spec(self, rhs: ArrayView2<'a, Fl>) -> Array2<Fl> { mk_a2(add2(a2(self), v2(rhs))) }
    }
    pub open spec fn div2(a: Seq<Seq<Fl>>, b: Seq<Seq<Fl>>) -> Seq<Seq<Fl>> { Seq::new(a.len(), |i: int| div1(a[i], b[i])) }
    impl<'a> core::ops::Div<ArrayView2<'a, Fl>> for Array2<Fl> { type Output = Array2<Fl>; #[verifier::external_body] fn div(self, rhs: ArrayView2<'a, Fl>) -> Array2<Fl> { unimplemented!() } }
    impl<'a> DivSpecImpl<ArrayView2<'a, Fl>> for Array2<Fl> {
        open spec fn obeys_div_spec() -> bool { true }
        open spec fn div_req(self, rhs: ArrayView2<'a, Fl>) -> bool { dim2(rhs) == odim2(self) }
        open spec fn div_spec(self, rhs: ArrayView2<'a, Fl>) -> Array2<Fl> { mk_a2(div2(a2(self), v2(rhs))) }
    }
    pub open spec fn adds2(a: Seq<Seq<Fl>>, c: Fl) -> Seq<Seq<Fl>> { Seq::new(a.len(), |i: int| Seq::new(a[i].len(), |j: int| f_add(a[i][j], c))) }
    impl core::ops::Add<Fl> for Array2<Fl> { type Output = Array2<Fl>; #[verifier::external_body] fn add(self, rhs: Fl) -> Array2<Fl> { unimplemented!() } }
    impl AddSpecImpl<Fl> for Array2<Fl> {
        open spec fn obeys_add_spec() -> bool { true }
        open spec fn add_req(self, rhs: Fl) -> bool { true }
        open spec fn add_spec(self, rhs: Fl) -> Array2<Fl> { mk_a2(adds2(a2(self), rhs)) }
    }
    /// element-wise operations keep the shape of the left operand
    pub broadcast axiom fn ax_dim_neg2(a: Array2<Fl>) ensures odim2(#[trigger] mk_a2(neg2(a2(a)))) == odim2(a);
    pub broadcast axiom fn ax_dim_add2v<'a>(a: Array2<Fl>, v: ArrayView2<'a, Fl>) ensures odim2(#[trigger] mk_a2(add2(a2(a), v2(v)))) == odim2(a);
    pub broadcast axiom fn ax_dim_div2v<'a>(a: Array2<Fl>, v: ArrayView2<'a, Fl>) ensures odim2(#[trigger] mk_a2(div2(a2(a), v2(v)))) == odim2(a);
    pub broadcast axiom fn ax_dim_adds2(a: Array2<Fl>, c: Fl) ensures odim2(#[trigger] mk_a2(adds2(a2(a), c))) == odim2(a);
    pub broadcast group nde_axioms { ax_dim_neg2, ax_dim_add2v, ax_dim_div2v, ax_dim_adds2, ax_zeros_dim }

    impl<'a> ArrayView1<'a, Fl> {
        /// `broadcast((n, p))` of a length-p view: Some iff the lengths agree; every row is the view
        #[verifier::external_body]
        pub fn broadcast(&self, shape: (usize, usize)) -> (r: Option<ArrayView2<'a, Fl>>)
            ensures (r is Some) == (shape.1 == v1(*self).len() || v1(*self).len() == 1),
                r is Some && shape.1 == v1(*self).len() ==> dim2(r->Some_0) == (shape.0 as int, shape.1 as int) && v2(r->Some_0) == Seq::new(shape.0 as nat, |i: int| v1(*self))
        { unimplemented!() }
    }
    impl Array1<Fl> {
        /// element-wise reciprocal
        #[verifier::external_body]
        pub fn recip(&self) -> (r: Array1<Fl>) ensures a1(r) == Seq::new(a1(*self).len(), |i: int| fl_div(fl(1real), a1(*self)[i])) { unimplemented!() }
    }
}
