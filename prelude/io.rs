// ---- prelude/io.rs: files, text rendering and the csv writer (ASSUMED contracts of std / the csv crate) ----
// Text is `Seq<char>`.  `Display` renderings are uninterpreted functions of the value (`disp`): nothing is assumed about
// them here; that Rust's float/integer `Display` round-trips through `parse` is a property of std, outside this unit.
pub mod iox {
    use vstd::prelude::*;

    pub type Text = Seq<char>;
    /// the `Display` rendering of a value
    pub trait DispV { spec fn disp(&self) -> Text; }
    pub uninterp spec fn disp_usize(n: usize) -> Text;
    impl DispV for usize { open spec fn disp(&self) -> Text { disp_usize(*self) } }
    impl<'a> DispV for &'a str { open spec fn disp(&self) -> Text { (*self)@ } }
    impl DispV for String { open spec fn disp(&self) -> Text { self@ } }
    /// `Display` of a reference is the rendering of the referent
    impl<'a, X: DispV> DispV for &'a X { open spec fn disp(&self) -> Text { (**self).disp() } }
    /// `x.to_string()` (rule R-tostring): the Display rendering
    #[verifier::external_body]
    pub fn vx_to_string<X: DispV>(x: &X) -> (r: String) ensures r@ == x.disp() { unimplemented!() }
    /// `format!("lit {}", a)` (rule R-fmtargs): a function of the literal and the rendering of the argument
    pub uninterp spec fn fmt1_spec(lit: Text, a: Text) -> Text;
    #[verifier::external_body]
    pub fn vx_fmt1<A: DispV>(lit: &str, a: &A) -> (r: String) ensures r@ == fmt1_spec(lit@, a.disp()) { unimplemented!() }
    /// `format!(..)` with captured identifiers / debug placeholders (rule R-fmt): an unspecified String (error messages only)
    #[verifier::external_body]
    pub fn fmt_opaque() -> String { unimplemented!() }

    // ---- errors and files ----
    pub struct BoxDynError;
    pub struct IoError;
    pub struct CsvError;
    impl From<IoError> for BoxDynError { #[verifier::external_body] fn from(e: IoError) -> BoxDynError { BoxDynError } }
    impl From<CsvError> for BoxDynError { #[verifier::external_body] fn from(e: CsvError) -> BoxDynError { BoxDynError } }
    impl From<String> for BoxDynError { #[verifier::external_body] fn from(e: String) -> BoxDynError { BoxDynError } }
    /// `File::create(path)`: may fail for any reason (unwritable path, ...): nothing is promised about `is Ok`
    #[verifier::external_body]
    pub struct File { _p: u8 }
    impl File {
        #[verifier::external_body]
        pub fn create(path: &str) -> Result<File, IoError> { unimplemented!() }
    }

    // ---- csv::Writer: the records handed over so far, and whether they were flushed ----
    #[verifier::external_body]
    pub struct Writer { _p: u8 }
    pub uninterp spec fn w_recs(w: Writer) -> Seq<Seq<Text>>;
    pub uninterp spec fn w_flushed(w: Writer) -> bool;
    pub open spec fn texts(v: Seq<String>) -> Seq<Text> { Seq::new(v.len(), |i: int| v[i]@) }
    impl Writer {
        #[verifier::external_body]
        pub fn from_writer(f: File) -> (r: Writer) ensures w_recs(r) == Seq::<Seq<Text>>::empty(), !w_flushed(r) { unimplemented!() }
        /// `write_record(&fields)`: on success the record is appended; on failure nothing is promised
        #[verifier::external_body]
        pub fn write_record(&mut self, rec: &Vec<String>) -> (r: Result<(), CsvError>)
            ensures r is Ok ==> w_recs(*final(self)) == w_recs(*old(self)).push(texts(rec@)) && !w_flushed(*final(self))
        { unimplemented!() }
        #[verifier::external_body]
        pub fn flush(&mut self) -> (r: Result<(), IoError>)
            ensures r is Ok ==> w_recs(*final(self)) == w_recs(*old(self)) && w_flushed(*final(self))
        { unimplemented!() }
    }

    // ---- burn tensors as far as the save functions use them: shape, and the elements rendered in an element type E ----
    pub trait Backend: Sized {}
    pub struct Float;
    #[verifier::external_body]
    #[verifier::accept_recursive_types(B)]
    #[verifier::accept_recursive_types(K)]
    pub struct Tensor<B, const D: usize, K = Float> { _b: core::marker::PhantomData<(B, K)> }
    /// the logical content of a rank-3 tensor (opaque), its shape, and element [a][b][j] rendered in element type E
    #[verifier::external_body]
    pub struct TView { _p: u8 }
    pub uninterp spec fn tview<B, const D: usize, K>(t: Tensor<B, D, K>) -> TView;
    pub uninterp spec fn tdims3<B, const D: usize, K>(t: Tensor<B, D, K>) -> (int, int, int);
    pub uninterp spec fn tcell<E>(v: TView, a: int, b: int, j: int) -> E;
    /// the element count of a tensor fits in usize (it is the length of a Vec)
    pub broadcast axiom fn ax_tdims3<B, const D: usize, K>(t: Tensor<B, D, K>)
        ensures (#[trigger] tdims3(t)).0 >= 0, tdims3(t).1 >= 0, tdims3(t).2 >= 0, tdims3(t).0 * tdims3(t).1 * tdims3(t).2 <= usize::MAX;
    #[verifier::external_body]
    pub struct TensorData { _p: u8 }
    pub uninterp spec fn td_view(t: TensorData) -> TView;
    pub uninterp spec fn td_dims(t: TensorData) -> (int, int, int);
    pub struct DataError;
    impl<B: Backend, const D: usize, K> Tensor<B, D, K> {
        #[verifier::external_body]
        pub fn dims(&self) -> (r: [usize; D]) requires D == 3 ensures r@[0] == tdims3(*self).0, r@[1] == tdims3(*self).1, r@[2] == tdims3(*self).2 { unimplemented!() }
        #[verifier::external_body]
        pub fn to_data(&self) -> (r: TensorData) ensures td_view(r) == tview(*self), td_dims(r) == tdims3(*self) { unimplemented!() }
    }
    /// the content after `convert::<E>()` (it is the same content only when E is the stored element type, which this model cannot tell)
    pub uninterp spec fn conv_view<E>(v: TView) -> TView;
    impl TensorData {
        /// `convert::<E>()`: the elements converted (possibly lossily) to element type E
        #[verifier::external_body]
        pub fn convert<E>(self) -> (r: TensorData) ensures td_dims(r) == td_dims(self), td_view(r) == conv_view::<E>(td_view(self)) { unimplemented!() }
        /// `to_vec::<E>()`: Err when E is not the stored element type; else the elements in row-major order
        #[verifier::external_body]
        pub fn to_vec<E>(&self) -> (r: Result<Vec<E>, DataError>)
            ensures r is Ok ==> r->Ok_0@.len() == td_dims(*self).0 * td_dims(*self).1 * td_dims(*self).2
                && forall |a: int, b: int, j: int| 0 <= a < td_dims(*self).0 && 0 <= b < td_dims(*self).1 && 0 <= j < td_dims(*self).2
                    ==> r->Ok_0@[(a * td_dims(*self).1 + b) * td_dims(*self).2 + j] == #[trigger] tcell::<E>(td_view(*self), a, b, j)
        { unimplemented!() }
    }
    /// `&v[a..b]` (rule R-subslice): panics unless a <= b <= len
    #[verifier::external_body]
    pub fn vx_subslice<'a, E>(v: &'a Vec<E>, a: usize, b: usize) -> (r: &'a [E])
        requires a <= b <= v@.len()
        ensures r@ == v@.subrange(a as int, b as int)
    { unimplemented!() }
    impl DispV for f32 { uninterp spec fn disp(&self) -> Text; }
}
