// ======================================================================================
// prelude/ndarray.rs — ASSUMED contracts for the ndarray operations the library calls.
// Arrays are opaque; `a1/a2/a3` (owned) and `v1/v2/v3` (views) give their contents as nested
// sequences in logical (row-major index) order.  Each contract is transcribed from ndarray's
// documentation; spot-checked against the real crate by tests/verif_replay.rs (thorough tier).
// ======================================================================================
pub mod nd {
    use vstd::prelude::*;

    #[verifier::external_body]
    #[verifier::accept_recursive_types(T)]
    pub struct Array1<T> { _t: core::marker::PhantomData<T> }
    #[verifier::external_body]
    #[verifier::accept_recursive_types(T)]
    pub struct Array2<T> { _t: core::marker::PhantomData<T> }
    #[verifier::external_body]
    #[verifier::accept_recursive_types(T)]
    pub struct Array3<T> { _t: core::marker::PhantomData<T> }
    #[verifier::external_body]
    #[verifier::accept_recursive_types(T)]
    pub struct ArrayView1<'a, T> { _t: core::marker::PhantomData<&'a T> }
    #[verifier::external_body]
    #[verifier::accept_recursive_types(T)]
    pub struct ArrayView2<'a, T> { _t: core::marker::PhantomData<&'a T> }
    #[verifier::external_body]
    #[verifier::accept_recursive_types(T)]
    pub struct ArrayView3<'a, T> { _t: core::marker::PhantomData<&'a T> }
    pub struct ShapeError;
    impl core::fmt::Debug for ShapeError {
        #[verifier::external_body]
        fn fmt(&self, f: &mut core::fmt::Formatter<'_>) -> core::fmt::Result { Ok(()) }
    }
    pub struct Axis(pub usize);
    /// the dimension-generic `ArrayView::from_shape(len, slice)` used with a `usize` shape
    pub struct ArrayView;

    pub uninterp spec fn a1<T>(a: Array1<T>) -> Seq<T>;
    pub uninterp spec fn a2<T>(a: Array2<T>) -> Seq<Seq<T>>;
    pub uninterp spec fn a3<T>(a: Array3<T>) -> Seq<Seq<Seq<T>>>;
    pub uninterp spec fn v1<'a, T>(a: ArrayView1<'a, T>) -> Seq<T>;
    pub uninterp spec fn v2<'a, T>(a: ArrayView2<'a, T>) -> Seq<Seq<T>>;
    pub uninterp spec fn v3<'a, T>(a: ArrayView3<'a, T>) -> Seq<Seq<Seq<T>>>;

    /// rectangular: every row has `c` entries
    pub open spec fn rect2<T>(m: Seq<Seq<T>>, r: int, c: int) -> bool {
        m.len() == r && forall |i: int| 0 <= i < r ==> (#[trigger] m[i]).len() == c
    }
    pub open spec fn rect3<T>(m: Seq<Seq<Seq<T>>>, a: int, b: int, c: int) -> bool {
        m.len() == a && forall |i: int| 0 <= i < a ==> rect2(#[trigger] m[i], b, c)
    }

    /// the (rows, cols) shape of an owned matrix and "is `T::zero()`" (both given meaning per element type in later preludes)
    pub uninterp spec fn gdim2<T>(a: Array2<T>) -> (int, int);
    pub uninterp spec fn is_zero_elem<T>(x: T) -> bool;
    impl<T> Array2<T> {
        /// `Array2::zeros((r, c))`: shape (r, c), every element `T::zero()`
        #[verifier::external_body]
        pub fn zeros(shape: (usize, usize)) -> (r: Self)
            ensures rect2(a2(r), shape.0 as int, shape.1 as int), gdim2(r) == (shape.0 as int, shape.1 as int),
                forall |i: int, j: int| 0 <= i < shape.0 && 0 <= j < shape.1 ==> is_zero_elem(#[trigger] a2(r)[i][j])
        { unimplemented!() }
        #[verifier::external_body]
        pub fn view<'a>(&'a self) -> (r: ArrayView2<'a, T>) ensures v2(r) == a2(*self) { unimplemented!() }
    }
    impl ArrayView {
        /// `ArrayView::from_shape(n, slice)`: Err iff the slice is too short; a longer slice is accepted and its first n
        /// elements are viewed (ndarray checks `len >= n`, not equality — confirmed by tests/verif_replay.rs assumed_ndarray_contracts)
        #[verifier::external_body]
        pub fn from_shape<'a, T>(n: usize, s: &'a [T]) -> (r: Result<ArrayView1<'a, T>, ShapeError>)
            ensures (r is Ok) == (n <= s@.len()), r is Ok ==> v1(r->Ok_0) == s@.subrange(0, n as int)
        { unimplemented!() }
    }
    impl<'a, T> ArrayView1<'a, T> {
        #[verifier::external_body]
        pub fn from_shape(n: usize, s: &'a [T]) -> (r: Result<ArrayView1<'a, T>, ShapeError>)
            ensures (r is Ok) == (n <= s@.len()), r is Ok ==> v1(r->Ok_0) == s@.subrange(0, n as int)
        { unimplemented!() }
    }
    /// R-fuse: `a.row_mut(k).assign(&v)` — panics unless k is a row index and the lengths agree;
    /// then row k holds v and every other row is unchanged.
    #[verifier::external_body]
    pub fn nd_row_assign<T>(a: &mut Array2<T>, k: usize, src: &ArrayView1<T>)
        requires k < a2(*old(a)).len(), a2(*old(a))[k as int].len() == v1(*src).len()
        ensures a2(*final(a)) == a2(*old(a)).update(k as int, v1(*src))
    { unimplemented!() }

    /// `ndarray::stack(Axis(0), &views)`: Err unless all views have one shape; Ok(stacked) with
    /// `stacked[c] == views[c]` in the order given.  (Err also for an empty list? ndarray returns an
    /// array of shape (0, ..) then — not relied upon: nothing is promised about `is Ok`.)
    #[verifier::external_body]
    pub fn stack<'a, T>(axis: Axis, views: &Vec<ArrayView2<'a, T>>) -> (r: Result<Array3<T>, ShapeError>)
        requires axis.0 == 0
        ensures r is Ok ==> a3(r->Ok_0).len() == views@.len() && forall |c: int| 0 <= c < views@.len() ==> (#[trigger] a3(r->Ok_0)[c]) == v2(views@[c])
    { unimplemented!() }
}
