// ======================================================================================
// prelude/ndtrack.rs — ASSUMED contracts for the ndarray operations used by the streaming
// trackers of src/stats.rs (element-wise arithmetic on owned arrays, axis reductions, stack,
// broadcast, Zip::fold over rows).  Element-wise results are given exactly (per element, in the
// extended-real float model); reductions in real arithmetic on all-finite data.
// ======================================================================================
pub mod ndt {
    use vstd::prelude::*;
    use vstd::std_specs::ops::*;
    use super::fl::*;
    use super::nd::*;
    use super::ndf::*;
    pub use super::nd::{ArrayView1, ArrayView2, Array1, Array2, Axis, ShapeError};

    /// stand-in for `Box<dyn Error>` (rule R-dynerr): an opaque error value
    pub struct BoxDynError;
    impl From<ShapeError> for BoxDynError { #[verifier::external_body] fn from(e: ShapeError) -> BoxDynError { BoxDynError } }
    impl<'a> From<&'a str> for BoxDynError { #[verifier::external_body] fn from(e: &'a str) -> BoxDynError { BoxDynError } }
    impl core::fmt::Debug for BoxDynError { #[verifier::external_body] fn fmt(&self, f: &mut core::fmt::Formatter<'_>) -> core::fmt::Result { Ok(()) } }

    pub uninterp spec fn mk_a2(s: Seq<Seq<Fl>>) -> Array2<Fl>;
    pub broadcast axiom fn ax_mk_a2(s: Seq<Seq<Fl>>) ensures a2(#[trigger] mk_a2(s)) == s;
    pub broadcast group ndt_axioms { ax_mk_a1, ax_mk_a2 }

    // element-wise results as explicit sequences (no higher-order spec functions: equal terms stay equal)
    pub open spec fn f_add(a: Fl, b: Fl) -> Fl { mk(xr_add(val(a), val(b))) }
    pub open spec fn f_sub(a: Fl, b: Fl) -> Fl { mk(xr_sub(val(a), val(b))) }
    pub open spec fn f_mul(a: Fl, b: Fl) -> Fl { mk(xr_mul(val(a), val(b))) }
    pub open spec fn f_sq(a: Fl) -> Fl { mk(xr_mul(val(a), val(a))) }
    pub open spec fn f_sqrt(a: Fl) -> Fl { mk(xr_sqrt(val(a))) }
    pub open spec fn scale1(s: Seq<Fl>, c: Fl) -> Seq<Fl> { Seq::new(s.len(), |i: int| f_mul(s[i], c)) }
    pub open spec fn divs1(s: Seq<Fl>, c: Fl) -> Seq<Fl> { Seq::new(s.len(), |i: int| fl_div(s[i], c)) }
    pub open spec fn add1(a: Seq<Fl>, b: Seq<Fl>) -> Seq<Fl> { Seq::new(a.len(), |i: int| f_add(a[i], b[i])) }
    pub open spec fn sub1(a: Seq<Fl>, b: Seq<Fl>) -> Seq<Fl> { Seq::new(a.len(), |i: int| f_sub(a[i], b[i])) }
    pub open spec fn div1(a: Seq<Fl>, b: Seq<Fl>) -> Seq<Fl> { Seq::new(a.len(), |i: int| fl_div(a[i], b[i])) }
    pub open spec fn sq1(a: Seq<Fl>) -> Seq<Fl> { Seq::new(a.len(), |i: int| f_sq(a[i])) }
    pub open spec fn sqrt1(a: Seq<Fl>) -> Seq<Fl> { Seq::new(a.len(), |i: int| f_sqrt(a[i])) }
    pub open spec fn scale2(s: Seq<Seq<Fl>>, c: Fl) -> Seq<Seq<Fl>> { Seq::new(s.len(), |i: int| scale1(s[i], c)) }
    pub open spec fn divs2(s: Seq<Seq<Fl>>, c: Fl) -> Seq<Seq<Fl>> { Seq::new(s.len(), |i: int| divs1(s[i], c)) }
    pub open spec fn add2(a: Seq<Seq<Fl>>, b: Seq<Seq<Fl>>) -> Seq<Seq<Fl>> { Seq::new(a.len(), |i: int| add1(a[i], b[i])) }
    pub open spec fn sub2(a: Seq<Seq<Fl>>, b: Seq<Seq<Fl>>) -> Seq<Seq<Fl>> { Seq::new(a.len(), |i: int| sub1(a[i], b[i])) }
    pub open spec fn subrow2(a: Seq<Seq<Fl>>, row: Seq<Fl>) -> Seq<Seq<Fl>> { Seq::new(a.len(), |i: int| sub1(a[i], row)) }
    pub open spec fn sq2(a: Seq<Seq<Fl>>) -> Seq<Seq<Fl>> { Seq::new(a.len(), |i: int| sq1(a[i])) }

    // ---- Array1<Fl>: by-value operators ------------------------------------------------
    impl Clone for Array1<Fl> { #[verifier::external_body] fn clone(&self) -> (r: Array1<Fl>) ensures r == *self { unimplemented!() } }
    impl Clone for Array2<Fl> { #[verifier::external_body] fn clone(&self) -> (r: Array2<Fl>) ensures r == *self { unimplemented!() } }
    impl Array1<Fl> {
        #[verifier::external_body]
        pub fn zeros(n: usize) -> (r: Array1<Fl>) ensures a1(r) == Seq::new(n as nat, |i: int| fl(0real)) { unimplemented!() }
    }
    impl core::ops::Mul<Fl> for Array1<Fl> { type Output = Array1<Fl>; #[verifier::external_body] fn mul(self, rhs: Fl) -> Array1<Fl> { unimplemented!() } }
    impl MulSpecImpl<Fl> for Array1<Fl> {
        open spec fn obeys_mul_spec() -> bool { true }
        open spec fn mul_req(self, rhs: Fl) -> bool { true }
        open spec fn mul_spec(self, rhs: Fl) -> Array1<Fl> { mk_a1(scale1(a1(self), rhs)) }
    }
    impl core::ops::Div<Fl> for Array1<Fl> { type Output = Array1<Fl>; #[verifier::external_body] fn div(self, rhs: Fl) -> Array1<Fl> { unimplemented!() } }
    impl DivSpecImpl<Fl> for Array1<Fl> {
        open spec fn obeys_div_spec() -> bool { true }
        open spec fn div_req(self, rhs: Fl) -> bool { true }
        open spec fn div_spec(self, rhs: Fl) -> Array1<Fl> { mk_a1(divs1(a1(self), rhs)) }
    }
    /// element-wise on equal shapes (ndarray panics when the shapes cannot be broadcast together)
    impl core::ops::Add<Array1<Fl>> for Array1<Fl> { type Output = Array1<Fl>; #[verifier::external_body] fn add(self, rhs: Array1<Fl>) -> Array1<Fl> { unimplemented!() } }
    impl AddSpecImpl<Array1<Fl>> for Array1<Fl> {
        open spec fn obeys_add_spec() -> bool { true }
        open spec fn add_req(self, rhs: Array1<Fl>) -> bool { a1(self).len() == a1(rhs).len() }
        open spec fn add_spec(self, rhs: Array1<Fl>) -> Array1<Fl> { mk_a1(add1(a1(self), a1(rhs))) }
    }
    impl core::ops::Sub<Array1<Fl>> for Array1<Fl> { type Output = Array1<Fl>; #[verifier::external_body] fn sub(self, rhs: Array1<Fl>) -> Array1<Fl> { unimplemented!() } }
    impl SubSpecImpl<Array1<Fl>> for Array1<Fl> {
        open spec fn obeys_sub_spec() -> bool { true }
        open spec fn sub_req(self, rhs: Array1<Fl>) -> bool { a1(self).len() == a1(rhs).len() }
        open spec fn sub_spec(self, rhs: Array1<Fl>) -> Array1<Fl> { mk_a1(sub1(a1(self), a1(rhs))) }
    }
    impl core::ops::Div<Array1<Fl>> for Array1<Fl> { type Output = Array1<Fl>; #[verifier::external_body] fn div(self, rhs: Array1<Fl>) -> Array1<Fl> { unimplemented!() } }
    impl DivSpecImpl<Array1<Fl>> for Array1<Fl> {
        open spec fn obeys_div_spec() -> bool { true }
        open spec fn div_req(self, rhs: Array1<Fl>) -> bool { a1(self).len() == a1(rhs).len() }
        open spec fn div_spec(self, rhs: Array1<Fl>) -> Array1<Fl> { mk_a1(div1(a1(self), a1(rhs))) }
    }

    /// `ndarray_stats::QuantileExt::max`: Err for an empty array or when some pair is unordered (NaN); else a maximal element
    pub struct MinMaxError;
    impl From<MinMaxError> for BoxDynError { #[verifier::external_body] fn from(e: MinMaxError) -> BoxDynError { BoxDynError } }
    impl Array1<Fl> {
        #[verifier::external_body]
        pub fn max(&self) -> (r: Result<&Fl, MinMaxError>)
            ensures (r is Ok) == (a1(*self).len() > 0 && forall |i: int| 0 <= i < a1(*self).len() ==> !(val(#[trigger] a1(*self)[i]) is NaN)),
                r is Ok ==> (exists |k: int| 0 <= k < a1(*self).len() && a1(*self)[k] == *r->Ok_0) && forall |i: int| 0 <= i < a1(*self).len() ==> xr_le(val(#[trigger] a1(*self)[i]), val(*r->Ok_0))
        { unimplemented!() }
    }
    // ---- Array2<Fl> --------------------------------------------------------------------
    impl Array2<Fl> {
        #[verifier::external_body]
        pub fn zeros_f(shape: (usize, usize)) -> (r: Array2<Fl>) ensures a2(r) == Seq::new(shape.0 as nat, |i: int| Seq::new(shape.1 as nat, |j: int| fl(0real))), odim2(r) == (shape.0 as int, shape.1 as int) { unimplemented!() }
        #[verifier::external_body]
        pub fn pow2(&self) -> (r: Array2<Fl>) ensures a2(r) == sq2(a2(*self)), odim2(r) == odim2(*self) { unimplemented!() }
        /// `mean_axis(Axis(0))`: None iff there are no rows; else the mean of every column
        #[verifier::external_body]
        pub fn mean_axis(&self, axis: Axis) -> (r: Option<Array1<Fl>>)
            requires axis.0 == 0
            ensures (r is Some) == (odim2(*self).0 > 0),
                r is Some ==> a1(r->Some_0).len() == odim2(*self).1,
                r is Some && fin2(a2(*self)) ==> forall |p: int| 0 <= p < odim2(*self).1 ==> (#[trigger] a1(r->Some_0)[p]) == fl(csum(a2(*self), p, odim2(*self).0) / (odim2(*self).0 as real))
        { unimplemented!() }
        /// `sum_axis(Axis(0))`: column sums
        #[verifier::external_body]
        pub fn sum_axis(&self, axis: Axis) -> (r: Array1<Fl>)
            requires axis.0 == 0
            ensures a1(r).len() == odim2(*self).1,
                fin2(a2(*self)) ==> forall |p: int| 0 <= p < odim2(*self).1 ==> (#[trigger] a1(r)[p]) == fl(csum(a2(*self), p, odim2(*self).0))
        { unimplemented!() }
        /// total number of elements
        #[verifier::external_body]
        pub fn len(&self) -> (r: usize) ensures r == odim2(*self).0 * odim2(*self).1 { unimplemented!() }
        #[verifier::external_body]
        pub fn nrows(&self) -> (r: usize) ensures r == odim2(*self).0 { unimplemented!() }
        #[verifier::external_body]
        pub fn shape(&self) -> (r: &[usize]) ensures r@.len() == 2, r@[0] == odim2(*self).0, r@[1] == odim2(*self).1 { unimplemented!() }
    }
    /// column sum of the first k rows (as reals)
    pub open spec fn csum(m: Seq<Seq<Fl>>, p: int, k: int) -> real decreases k {
        if k <= 0 { 0real } else { csum(m, p, k - 1) + rv(m[k - 1][p]) }
    }
    /// column sum of squares of the first k rows
    pub open spec fn csumsq(m: Seq<Seq<Fl>>, p: int, k: int) -> real decreases k {
        if k <= 0 { 0real } else { csumsq(m, p, k - 1) + rv(m[k - 1][p]) * rv(m[k - 1][p]) }
    }

    /// `ndarray::stack(Axis(0), &views)` of 1-D views: Err unless all have one length (or none given); rows in order
    #[verifier::external_body]
    pub fn stack<'a>(axis: Axis, views: &Vec<ArrayView1<'a, Fl>>) -> (r: Result<Array2<Fl>, ShapeError>)
        requires axis.0 == 0
        ensures (r is Ok) == (forall |i: int| 0 <= i < views@.len() ==> v1(#[trigger] views@[i]).len() == v1(views@[0]).len()),
            r is Ok ==> a2(r->Ok_0).len() == views@.len() && odim2(r->Ok_0).0 == views@.len()
                && (views@.len() > 0 ==> odim2(r->Ok_0).1 == v1(views@[0]).len())
                && forall |i: int| 0 <= i < views@.len() ==> (#[trigger] a2(r->Ok_0)[i]) == v1(views@[i])
    { unimplemented!() }

    // `arr2 - row` where row is the 1-D array broadcast along axis 0 (`broadcast(shape)` then `into_dimensionality`)
    #[verifier::external_body]
    pub struct ArrayViewD<'a> { _p: core::marker::PhantomData<&'a Fl> }
    #[verifier::external_body]
    pub struct ArrayD { _p: u8 }
    pub uninterp spec fn vd2<'a>(a: ArrayViewD<'a>) -> Seq<Seq<Fl>>;
    pub uninterp spec fn ad2(a: ArrayD) -> Seq<Seq<Fl>>;
    impl Array1<Fl> {
        /// `broadcast(&[r, c])`: Some iff c == len; every row is the array
        #[verifier::external_body]
        pub fn broadcast<'a>(&'a self, shape: &[usize]) -> (r: Option<ArrayViewD<'a>>)
            requires shape@.len() == 2
            ensures (r is Some) == (shape@[1] == a1(*self).len() || a1(*self).len() == 1),
                r is Some && shape@[1] == a1(*self).len() ==> vd2(r->Some_0) == Seq::new(shape@[0] as nat, |i: int| a1(*self))
        { unimplemented!() }
        /// `insert_axis(Axis(0))`: a 1 x len matrix
        #[verifier::external_body]
        pub fn insert_axis(self, axis: Axis) -> (r: Array2<Fl>)
            requires axis.0 == 0
            ensures a2(r) == seq![a1(self)], odim2(r) == (1int, a1(self).len() as int)
        { unimplemented!() }
    }
    impl<'a> core::ops::Sub<ArrayViewD<'a>> for Array2<Fl> { type Output = ArrayD; #[verifier::external_body] fn sub(self, rhs: ArrayViewD<'a>) -> ArrayD { unimplemented!() } }
    pub uninterp spec fn mk_ad(s: Seq<Seq<Fl>>) -> ArrayD;
    pub broadcast axiom fn ax_mk_ad(s: Seq<Seq<Fl>>) ensures ad2(#[trigger] mk_ad(s)) == s;
    impl<'a> SubSpecImpl<ArrayViewD<'a>> for Array2<Fl> {
        open spec fn obeys_sub_spec() -> bool { true }
        open spec fn sub_req(self, rhs: ArrayViewD<'a>) -> bool { vd2(rhs).len() == a2(self).len() }
        open spec fn sub_spec(self, rhs: ArrayViewD<'a>) -> ArrayD { mk_ad(sub2(a2(self), vd2(rhs))) }
    }
    impl ArrayD {
        /// `into_dimensionality::<Ix2>()`: Ok for a 2-D dynamic array
        #[verifier::external_body]
        pub fn into_dimensionality(self) -> (r: Result<Array2<Fl>, ShapeError>)
            ensures r is Ok, a2(r->Ok_0) == ad2(self), odim2(r->Ok_0).0 == ad2(self).len(), ad2(self).len() > 0 ==> odim2(r->Ok_0).1 == ad2(self)[0].len()
        { unimplemented!() }
    }
    /// `arr2 - one_row_matrix` (broadcast along axis 0): ndarray panics unless the column counts agree
    impl core::ops::Sub<Array2<Fl>> for Array2<Fl> { type Output = Array2<Fl>; #[verifier::external_body] fn sub(self, rhs: Array2<Fl>) -> Array2<Fl> { unimplemented!() } }
    impl SubSpecImpl<Array2<Fl>> for Array2<Fl> {
        open spec fn obeys_sub_spec() -> bool { true }
        open spec fn sub_req(self, rhs: Array2<Fl>) -> bool {
            (odim2(rhs).0 == 1 && odim2(rhs).1 == odim2(self).1) || odim2(rhs) == odim2(self)
        }
        open spec fn sub_spec(self, rhs: Array2<Fl>) -> Array2<Fl> {
            if odim2(rhs).0 == 1 && odim2(self).0 != 1 { mk_a2(subrow2(a2(self), a2(rhs)[0])) }
            else { mk_a2(sub2(a2(self), a2(rhs))) }
        }
    }
    impl core::ops::Mul<Fl> for Array2<Fl> { type Output = Array2<Fl>; #[verifier::external_body] fn mul(self, rhs: Fl) -> Array2<Fl> { unimplemented!() } }
    impl MulSpecImpl<Fl> for Array2<Fl> {
        open spec fn obeys_mul_spec() -> bool { true }
        open spec fn mul_req(self, rhs: Fl) -> bool { true }
        open spec fn mul_spec(self, rhs: Fl) -> Array2<Fl> { mk_a2(scale2(a2(self), rhs)) }
    }
    impl core::ops::Div<Fl> for Array2<Fl> { type Output = Array2<Fl>; #[verifier::external_body] fn div(self, rhs: Fl) -> Array2<Fl> { unimplemented!() } }
    impl DivSpecImpl<Fl> for Array2<Fl> {
        open spec fn obeys_div_spec() -> bool { true }
        open spec fn div_req(self, rhs: Fl) -> bool { true }
        open spec fn div_spec(self, rhs: Fl) -> Array2<Fl> { mk_a2(divs2(a2(self), rhs)) }
    }
    impl core::ops::Add<Array2<Fl>> for Array2<Fl> { type Output = Array2<Fl>; #[verifier::external_body] fn add(self, rhs: Array2<Fl>) -> Array2<Fl> { unimplemented!() } }
    impl AddSpecImpl<Array2<Fl>> for Array2<Fl> {
        open spec fn obeys_add_spec() -> bool { true }
        open spec fn add_req(self, rhs: Array2<Fl>) -> bool { odim2(rhs) == odim2(self) }
        open spec fn add_spec(self, rhs: Array2<Fl>) -> Array2<Fl> { mk_a2(add2(a2(self), a2(rhs))) }
    }
    /// `Array2::<f32>::zeros`: the generic shape is the f32 shape, and `f32::zero()` is 0.0
    pub broadcast axiom fn ax_gdim2_fl(a: Array2<Fl>) ensures #[trigger] gdim2(a) == odim2(a);
    pub broadcast axiom fn ax_zero_fl(x: Fl) ensures #[trigger] is_zero_elem(x) ==> x == fl(0real);
    /// shapes of element-wise results (ndarray keeps the left operand's shape)
    pub broadcast axiom fn ax_odim2_mk(s: Seq<Seq<Fl>>, r: int, c: int)
        requires rect2(s, r, c), r >= 0, c >= 0
        ensures #![trigger odim2(mk_a2(s)), rect2(s, r, c)] r > 0 ==> odim2(mk_a2(s)) == (r, c);

    // ---- element conversion (`num_traits::ToPrimitive::to_f32`) and mapv -------------------
    /// ASSUMED: `to_f32` is a function of the value (total for the primitive numeric types)
    pub trait ToPrimitive: Sized {
        spec fn f32_of(&self) -> Option<Fl>;
        fn to_f32(&self) -> (r: Option<Fl>) ensures r == self.f32_of();
    }
    impl ToPrimitive for Fl {
        open spec fn f32_of(&self) -> Option<Fl> { Some(*self) }
        #[verifier::external_body]
        fn to_f32(&self) -> (r: Option<Fl>) { unimplemented!() }
    }
    impl<'a, T> ArrayView1<'a, T> {
        /// `mapv(f)`: f applied to every element (by value), in order
        #[verifier::external_body]
        pub fn mapv<F: Fn(T) -> Fl>(&self, f: F) -> (r: Array1<Fl>)
            requires forall |i: int| 0 <= i < v1(*self).len() ==> f.requires((#[trigger] v1(*self)[i],))
            ensures a1(r).len() == v1(*self).len(), forall |i: int| 0 <= i < v1(*self).len() ==> f.ensures((v1(*self)[i],), #[trigger] a1(r)[i])
        { unimplemented!() }
    }
    impl<'a, T> ArrayView2<'a, T> {
        /// `ArrayView2::from_shape((r, c), slice)`: Err iff the slice has fewer than r*c elements (a longer slice is accepted and
        /// its first r*c elements are viewed); row-major
        #[verifier::external_body]
        pub fn from_shape(shape: (usize, usize), s: &'a [T]) -> (r: Result<ArrayView2<'a, T>, ShapeError>)
            ensures (r is Ok) == (shape.0 * shape.1 <= s@.len()),
                r is Ok ==> v2(r->Ok_0).len() == shape.0 && forall |i: int| 0 <= i < shape.0 ==> (#[trigger] v2(r->Ok_0)[i]).len() == shape.1,
                r is Ok ==> v2(r->Ok_0) == Seq::new(shape.0 as nat, |i: int| Seq::new(shape.1 as nat, |j: int| s@[i * shape.1 + j])),
                // (row-major positions are positions of the slice: 0 <= i*c + j < r*c)
                r is Ok ==> forall |i: int, j: int| 0 <= i < shape.0 && 0 <= j < shape.1 ==> 0 <= i * shape.1 + j < s@.len() && (#[trigger] v2(r->Ok_0)[i][j]) == s@[i * shape.1 + j]
        { unimplemented!() }
        #[verifier::external_body]
        pub fn mapv<F: Fn(T) -> Fl>(&self, f: F) -> (r: Array2<Fl>)
            requires forall |i: int, j: int| 0 <= i < v2(*self).len() && 0 <= j < v2(*self)[i].len() ==> f.requires((#[trigger] v2(*self)[i][j],))
            ensures a2(r).len() == v2(*self).len(), odim2(r).0 == v2(*self).len(), v2(*self).len() > 0 ==> odim2(r).1 == v2(*self)[0].len(),
                forall |i: int| 0 <= i < v2(*self).len() ==> (#[trigger] a2(r)[i]).len() == v2(*self)[i].len(),
                forall |i: int, j: int| 0 <= i < v2(*self).len() && 0 <= j < v2(*self)[i].len() ==> f.ensures((v2(*self)[i][j],), #[trigger] a2(r)[i][j])
        { unimplemented!() }
    }

    /// shape of a 3-d view of any element type
    pub uninterp spec fn vdim3<'a, T>(a: ArrayView3<'a, T>) -> (int, int, int);
    impl<'a, T> ArrayView3<'a, T> {
        /// `mapv(f)`: f applied to every element (by value); the result has the same shape
        #[verifier::external_body]
        pub fn mapv<F: Fn(T) -> Fl>(&self, f: F) -> (r: Array3<Fl>)
            requires forall |i: int, j: int, k: int| 0 <= i < vdim3(*self).0 && 0 <= j < vdim3(*self).1 && 0 <= k < vdim3(*self).2 ==> f.requires((#[trigger] v3(*self)[i][j][k],))
            ensures odim3(r) == vdim3(*self), rect3(a3(r), vdim3(*self).0, vdim3(*self).1, vdim3(*self).2),
                forall |i: int, j: int, k: int| 0 <= i < vdim3(*self).0 && 0 <= j < vdim3(*self).1 && 0 <= k < vdim3(*self).2 ==> f.ensures((v3(*self)[i][j][k],), #[trigger] a3(r)[i][j][k])
        { unimplemented!() }
    }

    // ---- rows(), index_axis, ne, Zip::fold ------------------------------------------------
    /// float array equality as `PartialEq` computes it: same shape and every pair of elements `==` (NaN != NaN)
    pub open spec fn arr_eq(a: Seq<Fl>, b: Seq<Fl>) -> bool { a.len() == b.len() && forall |i: int| 0 <= i < a.len() ==> xr_eq(val(#[trigger] a[i]), val(b[i])) }
    #[verifier::external_body]
    pub struct ArrayView0<'a> { _p: core::marker::PhantomData<&'a Fl> }
    pub uninterp spec fn v0<'a>(a: ArrayView0<'a>) -> Fl;
    impl<'a> ArrayView0<'a> {
        #[verifier::external_body]
        pub fn ne(&self, other: &ArrayView0<'a>) -> (r: bool) ensures r == !xr_eq(val(v0(*self)), val(v0(*other))) { unimplemented!() }
    }
    impl<'a> ArrayView1<'a, Fl> {
        #[verifier::external_body]
        pub fn ne(&self, other: &ArrayView1<'a, Fl>) -> (r: bool) ensures r == !arr_eq(v1(*self), v1(*other)) { unimplemented!() }
    }
    /// the lanes `rows()` iterates over: for a 1-D array the array itself (one lane), for a 2-D array its rows
    #[verifier::external_body]
    pub struct Lanes<'a> { _p: core::marker::PhantomData<&'a Fl> }
    pub uninterp spec fn lanes<'a>(l: Lanes<'a>) -> Seq<Seq<Fl>>;
    impl Array1<Fl> {
        #[verifier::external_body]
        pub fn rows<'a>(&'a self) -> (r: Lanes<'a>) ensures lanes(r) == seq![a1(*self)] { unimplemented!() }
        /// `index_axis(Axis(0), i)`: the 0-dimensional view of element i (panics when out of bounds)
        #[verifier::external_body]
        pub fn index_axis<'a>(&'a self, axis: Axis, i: usize) -> (r: ArrayView0<'a>) requires axis.0 == 0, i < a1(*self).len() ensures v0(r) == a1(*self)[i as int] { unimplemented!() }
    }
    impl Array2<Fl> {
        #[verifier::external_body]
        pub fn rows<'a>(&'a self) -> (r: Lanes<'a>) ensures lanes(r) == a2(*self) { unimplemented!() }
    }
    #[verifier::external_body]
    pub struct Zip1<'a> { _p: core::marker::PhantomData<&'a Fl> }
    #[verifier::external_body]
    pub struct Zip2<'a> { _p: core::marker::PhantomData<&'a Fl> }
    pub uninterp spec fn zip1_lanes<'a>(z: Zip1<'a>) -> Seq<Seq<Fl>>;
    pub uninterp spec fn zip2_lanes<'a>(z: Zip2<'a>) -> (Seq<Seq<Fl>>, Seq<Seq<Fl>>);
    pub struct Zip;
    impl Zip {
        #[verifier::external_body]
        pub fn from<'a>(l: Lanes<'a>) -> (r: Zip1<'a>) ensures zip1_lanes(r) == lanes(l) { unimplemented!() }
    }
    impl<'a> Zip1<'a> {
        /// `.and(p)`: panics unless p has the same number of lanes
        #[verifier::external_body]
        pub fn and(self, l: Lanes<'a>) -> (r: Zip2<'a>) requires lanes(l).len() == zip1_lanes(self).len() ensures zip2_lanes(r) == (zip1_lanes(self), lanes(l)) { unimplemented!() }
    }
    /// accs witnesses an in-order fold of f over the paired lanes
    pub open spec fn fold_ok<F: Fn(Fl, ArrayView1<Fl>, ArrayView1<Fl>) -> Fl>(f: F, a: Seq<Seq<Fl>>, b: Seq<Seq<Fl>>, init: Fl, accs: Seq<Fl>, res: Fl) -> bool {
        &&& accs.len() == a.len() + 1 && accs[0] == init && accs[a.len() as int] == res
        &&& forall |i: int| 0 <= i < a.len() ==> #[trigger] fold_step(f, accs[i], a[i], b[i], accs[i + 1])
    }
    /// one application of the folding closure to views of the two lanes
    pub open spec fn fold_step<F: Fn(Fl, ArrayView1<Fl>, ArrayView1<Fl>) -> Fl>(f: F, acc: Fl, a: Seq<Fl>, b: Seq<Fl>, next: Fl) -> bool {
        exists |x: ArrayView1<Fl>, y: ArrayView1<Fl>| v1(x) == a && v1(y) == b && #[trigger] f.ensures((acc, x, y), next)
    }
    impl<'a> Zip2<'a> {
        /// `Zip::fold(init, f)`: folds f over the lanes in order
        #[verifier::external_body]
        pub fn fold<F: Fn(Fl, ArrayView1<Fl>, ArrayView1<Fl>) -> Fl>(self, init: Fl, f: F) -> (r: Fl)
            requires forall |acc: Fl, x: ArrayView1<Fl>, y: ArrayView1<Fl>| #[trigger] f.requires((acc, x, y))
            ensures exists |accs: Seq<Fl>| #[trigger] fold_ok(f, zip2_lanes(self).0, zip2_lanes(self).1, init, accs, r)
        { unimplemented!() }
    }
}
