// ---- prelude/arrowio.rs: arrow schema/builders/record batches and the Arrow IPC / Parquet writers ----
// ASSUMED contracts of the arrow 56 / parquet 56 crates, transcribed from their documentation.  Every object is opaque with
// an uninterpreted view; f64 values are the Rust type `f64` used as an opaque value sort (no arithmetic here).
pub mod arw {
    use vstd::prelude::*;
    use super::iox::*;

    #[derive(PartialEq, Eq)]
    pub enum DataType { UInt32, Float64 }
    pub trait IntoText: Sized { spec fn text(self) -> Text; }
    impl<'a> IntoText for &'a str { open spec fn text(self) -> Text { self@ } }
    impl IntoText for String { open spec fn text(self) -> Text { self@ } }
    pub ghost struct FieldV { pub name: Text, pub ty: DataType, pub nullable: bool }
    #[verifier::external_body]
    pub struct Field { _p: u8 }
    pub uninterp spec fn field_v(f: Field) -> FieldV;
    impl Field {
        #[verifier::external_body]
        pub fn new<N: IntoText>(name: N, ty: DataType, nullable: bool) -> (r: Field)
            ensures field_v(r) == (FieldV { name: name.text(), ty: ty, nullable: nullable })
        { unimplemented!() }
    }
    #[verifier::external_body]
    pub struct Schema { _p: u8 }
    pub uninterp spec fn schema_v(s: Schema) -> Seq<FieldV>;
    impl Schema {
        #[verifier::external_body]
        pub fn new(fields: Vec<Field>) -> (r: Schema)
            ensures schema_v(r) == Seq::new(fields@.len(), |i: int| field_v(fields@[i]))
        { unimplemented!() }
    }
    /// `std::sync::Arc` (shared ownership; only `new`, `clone` and reading are used)
    #[verifier::external_body]
    #[verifier::accept_recursive_types(X)]
    pub struct Arc<X> { _p: core::marker::PhantomData<X> }
    pub uninterp spec fn arc_v<X>(a: Arc<X>) -> X;
    impl<X> Arc<X> {
        #[verifier::external_body]
        pub fn new(x: X) -> (r: Arc<X>) ensures arc_v(r) == x { unimplemented!() }
    }
    impl<X> Clone for Arc<X> { #[verifier::external_body] fn clone(&self) -> (r: Arc<X>) ensures r == *self { unimplemented!() } }

    // ---- columns ----
    pub ghost enum ColV { U32(Seq<u32>), F64(Seq<f64>) }
    pub open spec fn col_len(c: ColV) -> nat { match c { ColV::U32(s) => s.len(), ColV::F64(s) => s.len() } }
    pub open spec fn col_ty(c: ColV) -> DataType { match c { ColV::U32(_) => DataType::UInt32, ColV::F64(_) => DataType::Float64 } }
    #[verifier::external_body]
    pub struct UInt32Builder { _p: u8 }
    #[verifier::external_body]
    pub struct Float64Builder { _p: u8 }
    #[verifier::external_body]
    pub struct UInt32Array { _p: u8 }
    #[verifier::external_body]
    pub struct Float64Array { _p: u8 }
    pub uninterp spec fn b_u32(b: UInt32Builder) -> Seq<u32>;
    pub uninterp spec fn b_f64(b: Float64Builder) -> Seq<f64>;
    pub uninterp spec fn arr_u32(a: UInt32Array) -> Seq<u32>;
    pub uninterp spec fn arr_f64(a: Float64Array) -> Seq<f64>;
    impl UInt32Builder {
        #[verifier::external_body]
        pub fn new() -> (r: UInt32Builder) ensures b_u32(r) == Seq::<u32>::empty() { unimplemented!() }
        #[verifier::external_body]
        pub fn append_value(&mut self, v: u32) ensures b_u32(*final(self)) == b_u32(*old(self)).push(v) { unimplemented!() }
        /// `finish()`: the array of the values appended so far; the builder is reset
        #[verifier::external_body]
        pub fn finish(&mut self) -> (r: UInt32Array) ensures arr_u32(r) == b_u32(*old(self)), b_u32(*final(self)) == Seq::<u32>::empty() { unimplemented!() }
    }
    impl Float64Builder {
        #[verifier::external_body]
        pub fn new() -> (r: Float64Builder) ensures b_f64(r) == Seq::<f64>::empty() { unimplemented!() }
        #[verifier::external_body]
        pub fn append_value(&mut self, v: f64) ensures b_f64(*final(self)) == b_f64(*old(self)).push(v) { unimplemented!() }
        #[verifier::external_body]
        pub fn finish(&mut self) -> (r: Float64Array) ensures arr_f64(r) == b_f64(*old(self)), b_f64(*final(self)) == Seq::<f64>::empty() { unimplemented!() }
    }
    pub trait ArrowArr: Sized { spec fn colv(self) -> ColV; }
    impl ArrowArr for UInt32Array { open spec fn colv(self) -> ColV { ColV::U32(arr_u32(self)) } }
    impl ArrowArr for Float64Array { open spec fn colv(self) -> ColV { ColV::F64(arr_f64(self)) } }
    #[verifier::external_body]
    pub struct ArrayRef { _p: u8 }
    pub uninterp spec fn col_v(a: ArrayRef) -> ColV;
    /// `Arc::new(array) as ArrayRef` (rule R-ascast): the same column behind a trait object
    #[verifier::external_body]
    pub fn vx_array_ref<A: ArrowArr>(a: Arc<A>) -> (r: ArrayRef) ensures col_v(r) == arc_v(a).colv() { unimplemented!() }
    /// `x.into()` with target f64 (rule R-into): the value widened to f64
    pub trait WidenF64: Sized { spec fn widen(self) -> f64; }
    #[verifier::external_body]
    pub fn vx_into<X: WidenF64>(x: X) -> (r: f64) ensures r == x.widen() { unimplemented!() }

    // ---- record batches ----
    pub struct ArrowError;
    pub struct ParquetError;
    impl From<ArrowError> for BoxDynError { #[verifier::external_body] fn from(e: ArrowError) -> BoxDynError { BoxDynError } }
    impl From<ParquetError> for BoxDynError { #[verifier::external_body] fn from(e: ParquetError) -> BoxDynError { BoxDynError } }
    pub ghost struct TableV { pub fields: Seq<FieldV>, pub cols: Seq<ColV> }
    pub open spec fn cols_of(a: Seq<ArrayRef>) -> Seq<ColV> { Seq::new(a.len(), |i: int| col_v(a[i])) }
    /// what `RecordBatch::try_new` validates: one column per field (at least one), equal lengths, matching types
    pub open spec fn batch_ok(fields: Seq<FieldV>, cols: Seq<ColV>) -> bool {
        &&& fields.len() == cols.len() && cols.len() >= 1
        &&& forall |i: int| 0 <= i < cols.len() ==> col_len(#[trigger] cols[i]) == col_len(cols[0])
        &&& forall |i: int| 0 <= i < cols.len() ==> col_ty(#[trigger] cols[i]) == fields[i].ty
    }
    #[verifier::external_body]
    pub struct RecordBatch { _p: u8 }
    pub uninterp spec fn rb_v(b: RecordBatch) -> TableV;
    impl RecordBatch {
        #[verifier::external_body]
        pub fn try_new(schema: Arc<Schema>, columns: Vec<ArrayRef>) -> (r: Result<RecordBatch, ArrowError>)
            ensures (r is Ok) == batch_ok(schema_v(arc_v(schema)), cols_of(columns@)),
                r is Ok ==> rb_v(r->Ok_0) == (TableV { fields: schema_v(arc_v(schema)), cols: cols_of(columns@) })
        { unimplemented!() }
    }
    // ---- Arrow IPC file writer ----
    #[verifier::external_body]
    pub struct FileWriter { _p: u8 }
    pub uninterp spec fn fw_schema(w: FileWriter) -> Seq<FieldV>;
    pub uninterp spec fn fw_batches(w: FileWriter) -> Seq<TableV>;
    pub uninterp spec fn fw_finished(w: FileWriter) -> bool;
    impl FileWriter {
        #[verifier::external_body]
        pub fn try_new(file: File, schema: &Arc<Schema>) -> (r: Result<FileWriter, ArrowError>)
            ensures r is Ok ==> fw_schema(r->Ok_0) == schema_v(arc_v(*schema)) && fw_batches(r->Ok_0) == Seq::<TableV>::empty() && !fw_finished(r->Ok_0)
        { unimplemented!() }
        #[verifier::external_body]
        pub fn write(&mut self, batch: &RecordBatch) -> (r: Result<(), ArrowError>)
            ensures r is Ok ==> fw_batches(*final(self)) == fw_batches(*old(self)).push(rb_v(*batch)) && fw_schema(*final(self)) == fw_schema(*old(self)) && !fw_finished(*final(self))
        { unimplemented!() }
        #[verifier::external_body]
        pub fn finish(&mut self) -> (r: Result<(), ArrowError>)
            ensures r is Ok ==> fw_batches(*final(self)) == fw_batches(*old(self)) && fw_schema(*final(self)) == fw_schema(*old(self)) && fw_finished(*final(self))
        { unimplemented!() }
    }
    // ---- Parquet ArrowWriter ----
    #[verifier::external_body]
    pub struct WriterProperties { _p: u8 }
    #[verifier::external_body]
    pub struct WriterPropertiesBuilder { _p: u8 }
    impl WriterProperties { #[verifier::external_body] pub fn builder() -> WriterPropertiesBuilder { unimplemented!() } }
    impl WriterPropertiesBuilder { #[verifier::external_body] pub fn build(self) -> WriterProperties { unimplemented!() } }
    #[verifier::external_body]
    pub struct ArrowWriter { _p: u8 }
    #[verifier::external_body]
    pub struct FileMetaData { _p: u8 }
    pub uninterp spec fn aw_schema(w: ArrowWriter) -> Seq<FieldV>;
    pub uninterp spec fn aw_batches(w: ArrowWriter) -> Seq<TableV>;
    impl ArrowWriter {
        #[verifier::external_body]
        pub fn try_new(file: File, schema: Arc<Schema>, props: Option<WriterProperties>) -> (r: Result<ArrowWriter, ParquetError>)
            ensures r is Ok ==> aw_schema(r->Ok_0) == schema_v(arc_v(schema)) && aw_batches(r->Ok_0) == Seq::<TableV>::empty()
        { unimplemented!() }
        #[verifier::external_body]
        pub fn write(&mut self, batch: &RecordBatch) -> (r: Result<(), ParquetError>)
            ensures r is Ok ==> aw_batches(*final(self)) == aw_batches(*old(self)).push(rb_v(*batch)) && aw_schema(*final(self)) == aw_schema(*old(self))
        { unimplemented!() }
        /// `close()`: writes the footer; Ok means the file holds the schema and the batches written
        #[verifier::external_body]
        pub fn close(self) -> (r: Result<FileMetaData, ParquetError>) { unimplemented!() }
    }
}
