// ---- prelude/progress.rs: what the per-chain progress loops use of std::time, mpsc and the statistics tracker ----
pub mod pg {
    use vstd::prelude::*;
    /// stand-ins for std::time / mpsc / the statistics tracker: the channel may fail arbitrarily, the clock is arbitrary
    #[verifier::external_body]
    pub struct Instant { _p: u8 }
    #[verifier::external_body]
    pub struct Duration { _p: u8 }
    impl Instant { #[verifier::external_body] pub fn now() -> Instant { unimplemented!() } }
    impl Duration { #[verifier::external_body] pub fn from_secs(s: u64) -> Duration { unimplemented!() } }
    impl Clone for Instant { #[verifier::external_body] fn clone(&self) -> Instant { unimplemented!() } }
    impl Copy for Instant {}
    impl Clone for Duration { #[verifier::external_body] fn clone(&self) -> Duration { unimplemented!() } }
    impl Copy for Duration {}
    impl core::ops::Add<Duration> for Instant { type Output = Instant; #[verifier::external_body] fn add(self, d: Duration) -> Instant { unimplemented!() } }
    impl vstd::std_specs::ops::AddSpecImpl<Duration> for Instant {
        open spec fn obeys_add_spec() -> bool { false }
        open spec fn add_req(self, d: Duration) -> bool { true }
        uninterp spec fn add_spec(self, d: Duration) -> Instant;
    }
    impl PartialEq for Instant { #[verifier::external_body] fn eq(&self, o: &Instant) -> bool { unimplemented!() } }
    impl PartialOrd for Instant { #[verifier::external_body] fn partial_cmp(&self, o: &Instant) -> Option<core::cmp::Ordering> { unimplemented!() } }
    pub struct SendError;
    #[verifier::external_body]
    pub struct ChainStats { _p: u8 }
    #[verifier::external_body]
    #[verifier::accept_recursive_types(X)]
    pub struct Sender<X> { _p: core::marker::PhantomData<X> }
    impl<X> Sender<X> {
        /// `send` may fail at any time (the receiver may have been dropped): nothing is promised
        #[verifier::external_body]
        pub fn send(&self, x: X) -> (r: Result<(), SendError>) { unimplemented!() }
    }
    /// the non-short-circuit `|` of two booleans (R-boolor)
    pub fn vx_bor(a: bool, b: bool) -> (r: bool) ensures r == (a || b) { a || b }
    /// uninterpreted string (R-fmt)
    #[verifier::external_body]
    pub fn fmt_opaque() -> (r: String) { unimplemented!() }
    pub struct BoxDynError;
    impl core::fmt::Debug for BoxDynError { #[verifier::external_body] fn fmt(&self, f: &mut core::fmt::Formatter<'_>) -> core::fmt::Result { Ok(()) } }
    impl From<String> for BoxDynError { #[verifier::external_body] fn from(e: String) -> BoxDynError { BoxDynError } }
    /// ASSUMED here, PROVED in unit `trackers` (ChainTracker::new/step/stats): `step` fails iff the state has fewer than n_params entries
    #[verifier::external_body]
    pub struct ChainTracker { _p: u8 }
    pub uninterp spec fn tracker_np(t: ChainTracker) -> int;
    impl ChainTracker {
        #[verifier::external_body]
        pub fn new<X>(n_params: usize, initial_state: &[X]) -> (r: ChainTracker) requires initial_state@.len() >= n_params ensures tracker_np(r) == n_params { unimplemented!() }
        #[verifier::external_body]
        pub fn step<X>(&mut self, x: &[X]) -> (r: Result<(), BoxDynError>)
            ensures (r is Ok) == (x@.len() >= tracker_np(*old(self))), tracker_np(*final(self)) == tracker_np(*old(self))
        { unimplemented!() }
        #[verifier::external_body]
        pub fn stats(&self) -> ChainStats { unimplemented!() }
    }

    // ---- channels, the reporter thread handle, and the sequential reading of the scoped chain threads (rule R-threads) ----
    #[verifier::external_body]
    #[verifier::accept_recursive_types(X)]
    pub struct Receiver<X> { _p: core::marker::PhantomData<X> }
    pub mod mpsc {
        /// `mpsc::channel()`: a fresh sender/receiver pair
        #[verifier::external_body]
        pub fn channel<X>() -> (super::Sender<X>, super::Receiver<X>) { unimplemented!() }
    }
    /// the handle of the reporter thread (its body is dropped from the verified text): `join()` may return anything
    #[verifier::external_body]
    pub struct JoinHandleV { _p: u8 }
    pub struct JoinError;
    impl core::fmt::Debug for JoinError { #[verifier::external_body] fn fmt(&self, f: &mut core::fmt::Formatter<'_>) -> core::fmt::Result { Ok(()) } }
    #[verifier::external_body]
    pub fn vx_thread_spawned() -> JoinHandleV { unimplemented!() }
    impl JoinHandleV {
        #[verifier::external_body]
        pub fn join(self) -> Result<(), JoinError> { unimplemented!() }
    }
    /// the next element of the zipped, consumed vector (`zip` pairs the elements in order)
    #[verifier::external_body]
    pub fn vx_pop_front<X>(q: &mut Vec<X>) -> (r: X)
        requires old(q)@.len() > 0
        ensures r == old(q)@[0], final(q)@ == old(q)@.subrange(1, old(q)@.len() as int)
    { unimplemented!() }
}
