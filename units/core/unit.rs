//@unit core — src/core.rs: run_chain, ChainRunner::run (C09), run_chain_progress (C10), init helpers (C18)
#![allow(unused_imports, unused_variables, dead_code, unused_mut, non_snake_case, unused_parens, unused_labels)]
use vstd::prelude::*;
verus! {
//@include prelude/float.rs
//@include prelude/rng.rs
//@include prelude/ndarray.rs
//@include prelude/progress.rs

// loops are verified in the context of their function (facts about values bound before a loop need no restating in
// its invariant: hoisting a sub-expression out of a loop must not break the proof)
#[verifier::loop_isolation(false)]
pub mod unit_core {
    use super::pg::*;
    use vstd::prelude::*;
    use vstd::std_specs::iter::IteratorSpec;
    use super::fl::*;
    use super::rng::*;
    use super::nd::*;
    broadcast use super::fl::fl_axioms, super::rng::rng_axioms;

    // ---- user-supplied traits: ASSUMED laws ----
    /// `MarkovChain<T>`: `step` is an arbitrary relation `step_rel` between the chain value before and
    /// after; it returns the new state, and the state keeps its length.
    pub trait MarkovChain<T>: Sized {
        spec fn st(&self) -> Seq<T>;
        spec fn step_rel(pre: Self, post: Self) -> bool;
        fn step(&mut self) -> (r: &Vec<T>)
            ensures Self::step_rel(*old(self), *final(self)),
                    final(self).st().len() == old(self).st().len(),
                    r@ == final(self).st();
        fn current_state(&self) -> (r: &Vec<T>) ensures r@ == self.st();
    }
    /// `HasChains<S>`: `chains_mut` hands out the sampler's vector of chains
    pub trait HasChains<S>: Sized {
        type Chain: MarkovChain<S>;
        spec fn chains_view(&self) -> Seq<Self::Chain>;
        fn chains_mut(&mut self) -> (r: &mut Vec<Self::Chain>)
            ensures r@ == old(self).chains_view(), final(r)@ == final(self).chains_view();
    }

    // ---- C09: what run() must return, as an existential over the history of chain values ----
    /// h[0] = chain at entry, h[i] = chain after i transitions, h[total] = chain at exit
    pub open spec fn hist_ok<T, M: MarkovChain<T>>(h: Seq<M>, first: M, last: M, total: int) -> bool {
        &&& h.len() == total + 1 && h[0] == first && h[total] == last
        &&& forall |i: int| 0 <= i < total ==> #[trigger] M::step_rel(h[i], h[i + 1])
    }
    /// exactly n_collect + n_discard transitions; row k is the state after n_discard + k + 1 of them
    pub open spec fn run_post<T, M: MarkovChain<T>>(pre: M, post: M, out: Seq<Seq<T>>, n_collect: int, n_discard: int) -> bool {
        exists |h: Seq<M>| #[trigger] hist_ok::<T, M>(h, pre, post, n_collect + n_discard)
            && out.len() == n_collect
            && forall |k: int| 0 <= k < n_collect ==> #[trigger] out[k] == h[n_discard + k + 1].st()
    }

    /// C09, "two consecutive runs return exactly what one longer run returns": a run from a to b followed by a run without
    /// burn-in from b to c satisfies, with the rows concatenated, the contract of the single longer run from a to c
    pub proof fn lemma_two_runs_are_one_longer_run<T, M: MarkovChain<T>>(a: M, b: M, c: M, o1: Seq<Seq<T>>, o2: Seq<Seq<T>>, n1: int, d: int, n2: int)
        requires n1 >= 0, d >= 0, n2 >= 0, run_post::<T, M>(a, b, o1, n1, d), run_post::<T, M>(b, c, o2, n2, 0)
        ensures run_post::<T, M>(a, c, o1 + o2, n1 + n2, d)      // [C09.two_consecutive_runs_equal_one_longer_run]
    {
        let h1 = choose |h: Seq<M>| #[trigger] hist_ok::<T, M>(h, a, b, n1 + d) && o1.len() == n1 && forall |k: int| 0 <= k < n1 ==> #[trigger] o1[k] == h[d + k + 1].st();
        let h2 = choose |h: Seq<M>| #[trigger] hist_ok::<T, M>(h, b, c, n2 + 0) && o2.len() == n2 && forall |k: int| 0 <= k < n2 ==> #[trigger] o2[k] == h[0 + k + 1].st();
        let h = h1 + h2.subrange(1, n2 + 1);
        let t1 = n1 + d;
        assert(h.len() == t1 + n2 + 1);
        assert forall |i: int| 0 <= i < t1 + n2 implies #[trigger] M::step_rel(h[i], h[i + 1]) by {
            if i < t1 { assert(h[i] == h1[i] && h[i + 1] == h1[i + 1]); }
            else if i == t1 { assert(h[i] == h1[t1] && h1[t1] == b && h2[0] == b && h[i + 1] == h2[1]); assert(M::step_rel(h2[0int], h2[0int + 1])); }
            else { let j = i - t1; assert(h[i] == h2[j] && h[i + 1] == h2[j + 1]); assert(M::step_rel(h2[j], h2[j + 1])); }
        }
        assert(h[0] == a);
        assert(h[t1 + n2] == c) by { if n2 == 0 { assert(h[t1] == h1[t1]); assert(b == c) by { assert(h2[0] == b && h2[n2] == c); } } else { assert(h[t1 + n2] == h2[n2]); } }
        assert(hist_ok::<T, M>(h, a, c, (n1 + n2) + d));
        let o = o1 + o2;
        assert forall |k: int| 0 <= k < n1 + n2 implies #[trigger] o[k] == h[d + k + 1].st() by {
            if k < n1 { assert(o[k] == o1[k]); assert(h[d + k + 1] == h1[d + k + 1]); }
            else { let k2 = k - n1; assert(o[k] == o2[k2]); assert(h[d + k + 1] == h2[k2 + 1]); }
        }
    }

    pub fn run_chain<T, M: MarkovChain<T>>(chain: &mut M, n_collect: usize, n_discard: usize) -> (out: Array2<T>)
        requires n_collect + n_discard <= usize::MAX
        ensures
            run_post::<T, M>(*old(chain), *final(chain), a2(out), n_collect as int, n_discard as int),   // [C09.run_chain_rows_count_left_at_last]
            rect2(a2(out), n_collect as int, old(chain).st().len() as int),                             // [C09.run_chain_shape]
    //@body id=run_chain file=src/core.rs name=run_chain props=C09
    //@sig fn run_chain < T , M > (chain : & mut M , n_collect : usize , n_discard : usize) -> Array2 < T > where M : MarkovChain < T > , T : LinalgScalar ,
    //@rules R-fuse
    //@anchor h0 scope=fn pos=before match="for i in 0 \.\. total"
    //@| let ghost mut h: Seq<M> = seq![*chain];
    //@loop 1 iter=it
    //@| invariant
    //@|     it.iter.end == total, total == n_collect + n_discard,
    //@|     chain.st().len() == dim,
    //@|     rect2(a2(out), n_collect as int, dim as int),
    //@|     hist_ok::<T, M>(h, *old(chain), *chain, i as int),
    //@|     forall |k: int| 0 <= k < n_collect && k + n_discard < i ==> #[trigger] a2(out)[k] == h[n_discard + k + 1].st(),
    //@anchor push scope=loop:1 pos=end
    //@| proof { h = h.push(*chain); }
    //@end

    // ---- C10: progress mode returns the same draws ----------------------------------------------
    pub fn run_chain_progress<T, M: MarkovChain<T>>(chain: &mut M, n_collect: usize, n_discard: usize, tx: Sender<ChainStats>) -> (res: Result<Array2<T>, String>)
        requires n_collect + n_discard <= usize::MAX
        ensures
            res is Ok,                                                                                                   // [C10.run_chain_progress_succeeds_whatever_the_channel_does]
            run_post::<T, M>(*old(chain), *final(chain), a2(res->Ok_0), n_collect as int, n_discard as int),             // [C10.run_chain_progress_returns_the_draws_run_chain_returns]
            rect2(a2(res->Ok_0), n_collect as int, old(chain).st().len() as int),
    //@body id=run_chain_progress file=src/core.rs name=run_chain_progress props=C10
    //@sig fn run_chain_progress < T , M > (chain : & mut M , n_collect : usize , n_discard : usize , tx : Sender < ChainStats > ,) -> Result < Array2 < T > , String > where M : MarkovChain < T > , T : LinalgScalar + PartialEq + num_traits :: ToPrimitive ,
    //@rules R-fuse R-fmt R-boolor
    //@closure 1 params="e: BoxDynError" ret="(r: String)"
    //@anchor h0 scope=fn pos=before match="for i in 0 \.\. total"
    //@| let ghost mut h: Seq<M> = seq![*chain];
    //@loop 1 iter=it
    //@| invariant
    //@|     it.iter.end == total, total == n_discard + n_collect,
    //@|     chain.st().len() == n_params, tracker_np(tracker) == n_params,
    //@|     rect2(a2(out), n_collect as int, n_params as int),
    //@|     hist_ok::<T, M>(h, *old(chain), *chain, i as int),
    //@|     forall |k: int| 0 <= k < n_collect && k + n_discard < i ==> #[trigger] a2(out)[k] == h[n_discard + k + 1].st(),
    //@anchor push scope=loop:1 pos=end
    //@| proof { h = h.push(*chain); }
    //@end

    pub trait ChainRunner<T>: HasChains<T> {
        fn run(&mut self, n_collect: usize, n_discard: usize) -> (res: Result<Array3<T>, ShapeError>)
            requires n_collect + n_discard <= usize::MAX
            ensures
                final(self).chains_view().len() == old(self).chains_view().len(),                         // [C09.runner_keeps_chains]
                res is Ok ==> a3(res->Ok_0).len() == old(self).chains_view().len(),                       // [C09.runner_n_chains]
                res is Ok ==> forall |c: int| 0 <= c < old(self).chains_view().len() ==>
                    run_post::<T, Self::Chain>(#[trigger] old(self).chains_view()[c], final(self).chains_view()[c], a3(res->Ok_0)[c], n_collect as int, n_discard as int),  // [C09.runner_row_c_is_chain_c]
        //@body id=runner_run file=src/core.rs in_trait=ChainRunner name=run props=C09
        //@sig fn run (& mut self , n_collect : usize , n_discard : usize) -> Result < Array3 < T > , ShapeError >
        //@rules R-par R-mapcollect
        //@outtype __vx_out1 Vec<Array2<T>>
        //@outtype __vx_out2 Vec<ArrayView2<T>>
        //@loop 1 iter=it
        //@| invariant
        //@|     n_collect + n_discard <= usize::MAX,
        //@|     it.iter.end == __vx_recv1.len(), __vx_recv1.len() == old(self).chains_view().len(),
        //@|     __vx_out1@.len() == __vx_k1,
        //@|     forall |c: int| __vx_k1 <= c < __vx_recv1.len() ==> (#[trigger] __vx_recv1@[c]) == old(self).chains_view()[c],
        //@|     forall |c: int| 0 <= c < __vx_k1 ==> run_post::<T, Self::Chain>(#[trigger] old(self).chains_view()[c], __vx_recv1@[c], a2(__vx_out1@[c]), n_collect as int, n_discard as int),
        //@loop 2 iter=it2
        //@| invariant
        //@|     it2.iter.end == results.len(),
        //@|     __vx_out2@.len() == __vx_k2,
        //@|     forall |c: int| 0 <= c < __vx_k2 ==> v2(#[trigger] __vx_out2@[c]) == a2(results@[c]),
        //@end

        /// Progress mode of the generic runner.  The reporter thread's body is dropped (rule R-threads: it shares only the
        /// receivers with the rest) and the scoped chain threads are read as the in-order map they compute (ASSUMED, like
        /// R-par): this decides WHAT is returned when the call returns, not THAT it returns.
        fn run_progress(&mut self, n_collect: usize, n_discard: usize) -> (res: Result<(Array3<T>, RunStats), BoxDynError>)
            requires n_collect + n_discard <= usize::MAX
            ensures
                final(self).chains_view().len() == old(self).chains_view().len(),
                res is Ok ==> a3(res->Ok_0.0).len() == old(self).chains_view().len(),
                res is Ok ==> forall |c: int| 0 <= c < old(self).chains_view().len() ==>
                    run_post::<T, Self::Chain>(#[trigger] old(self).chains_view()[c], final(self).chains_view()[c], a3(res->Ok_0.0)[c], n_collect as int, n_discard as int),  // [C10.runner_progress_row_c_is_what_run_returns_for_chain_c]
                res is Ok ==> res->Ok_0.1 == runstats_of3(a3(res->Ok_0.0)),                                   // [C10.runner_progress_stats_are_those_of_the_returned_draws]
        //@body id=runner_run_progress file=src/core.rs in_trait=ChainRunner name=run_progress props=C10
        //@sig fn run_progress (& mut self , n_collect : usize , n_discard : usize ,) -> Result < (Array3 < T > , RunStats) , Box < dyn Error > >
        //@rules R-threads R-foreach R-wild R-mapcollect R-dynerr
        //@outtype __vx_out1 Vec<Array2<T>>
        //@anchor g0 scope=fn pos=after match="^let chains ="
        //@| let ghost nc = chains@.len() as int;
        //@loop 1 iter=it
        //@| invariant
        //@|     it.iter.end == nc, chains@.len() == nc, chains@ == old(self).chains_view(), txs@.len() == __vx_i1, rxs@.len() == __vx_i1,
        //@loop 2 iter=it2
        //@| invariant
        //@|     n_collect + n_discard <= usize::MAX,
        //@|     it2.iter.end == nc, chains@.len() == nc, nc == old(self).chains_view().len(),
        //@|     __vx_q1@.len() == nc - __vx_k1, __vx_out1@.len() == __vx_k1,
        //@|     forall |c: int| __vx_k1 <= c < nc ==> (#[trigger] chains@[c]) == old(self).chains_view()[c],
        //@|     forall |c: int| 0 <= c < __vx_k1 ==> run_post::<T, Self::Chain>(#[trigger] old(self).chains_view()[c], chains@[c], a2(__vx_out1@[c]), n_collect as int, n_discard as int),
        //@loop 3 iter=it3
        //@| invariant
        //@|     it3.iter.end == chain_sample.len(),
        //@|     __vx_out2@.len() == __vx_k2,
        //@|     forall |c: int| 0 <= c < __vx_k2 ==> v2(#[trigger] __vx_out2@[c]) == a2(chain_sample@[c]),
        //@end
    }
    /// `RunStats::from(view)`: a function of the sample (its parts are under contract in unit stats)
    #[verifier::external_body]
    pub struct RunStats { _p: u8 }
    pub uninterp spec fn runstats_of3<T>(x: Seq<Seq<Seq<T>>>) -> RunStats;
    impl RunStats {
        #[verifier::external_body]
        pub fn from<'a, T>(v: ArrayView3<'a, T>) -> (r: RunStats) ensures r == runstats_of3(v3(v)) { unimplemented!() }
    }
    impl<T> Array3<T> {
        #[verifier::external_body]
        pub fn view<'a>(&'a self) -> (r: ArrayView3<'a, T>) ensures v3(r) == a3(*self) { unimplemented!() }
    }
    impl From<ShapeError> for BoxDynError { #[verifier::external_body] fn from(e: ShapeError) -> BoxDynError { BoxDynError } }

    // ---- C18: seeded initialisers are functions of (n, d, seed) ----
    pub type T = Fl;
    /// entry (i, j) is the (i*d + j)-th standard-normal draw of the generator, converted with from_f64
    pub open spec fn init_spec(s: RngState, n: int, d: int) -> Seq<Seq<Fl>> {
        Seq::new(n as nat, |i: int| Seq::new(d as nat, |j: int| normal_out(normal_state(s, (i * d + j) as nat))))
    }
    fn _init(n: usize, d: usize, mut rng: SmallRng) -> (r: Vec<Vec<T>>)
        ensures
            r@.len() == n,                                                                  // [C18.init_n_rows]
            forall |i: int| 0 <= i < n ==> (#[trigger] r@[i])@ == init_spec(state(rng), n as int, d as int)[i],   // [C18.init_entries_are_successive_normal_draws]
    //@body id=core_init file=src/core.rs name=_init props=C18,C07
    //@sig fn _init < T > (n : usize , d : usize , mut rng : SmallRng) -> Vec < Vec < T > > where T : Float + FromPrimitive ,
    //@rules R-mapcollect R-f64
    //@outtype __vx_out1 Vec<T>
    //@outtype __vx_out2 Vec<Vec<T>>
    //@anchor s0 scope=fn pos=start
    //@| let ghost s0 = state(rng);
    //@loop 1 iter=it
    //@| invariant
    //@|     it.iter.end == n,
    //@|     __vx_out2@.len() == __vx_i2,
    //@|     state(rng) == normal_state(s0, (__vx_i2 * d) as nat),
    //@|     forall |i: int| 0 <= i < __vx_out2@.len() ==> (#[trigger] __vx_out2@[i])@ == init_spec(s0, n as int, d as int)[i],
    //@loop 2 iter=it2
    //@| invariant
    //@|     it2.iter.end == d, 0 <= __vx_i2 < n,
    //@|     __vx_out1@.len() == __vx_i1,
    //@|     state(rng) == normal_state(s0, (__vx_i2 * d + __vx_i1) as nat),
    //@|     forall |j: int| 0 <= j < __vx_out1@.len() ==> (#[trigger] __vx_out1@[j]) == normal_out(normal_state(s0, (__vx_i2 * d + j) as nat)),
    //@anchor row scope=loop:1 pos=end
    //@| proof {
    //@|     assert((__vx_i2 + 1) * d == __vx_i2 * d + d) by(nonlinear_arith);
    //@|     assert(__vx_out2@[__vx_i2 as int]@ =~= init_spec(s0, n as int, d as int)[__vx_i2 as int]);
    //@| }
    //@end

    pub fn init_with_seed(n: usize, d: usize, seed: u64) -> (r: Vec<Vec<T>>)
        ensures
            r@.len() == n,
            forall |i: int| 0 <= i < n ==> (#[trigger] r@[i])@ == init_spec(seeded(seed), n as int, d as int)[i],   // [C18.init_with_seed_is_function_of_args]
    //@body id=core_init_with_seed file=src/core.rs name=init_with_seed props=C18,C07
    //@sig fn init_with_seed < T > (n : usize , d : usize , seed : u64) -> Vec < Vec < T > > where T : Float + FromPrimitive ,
    //@rules
    //@end

    pub fn init_det(n: usize, d: usize) -> (r: Vec<Vec<T>>)
        ensures
            r@.len() == n,
            forall |i: int| 0 <= i < n ==> (#[trigger] r@[i])@ == init_spec(seeded(42), n as int, d as int)[i],    // [C18.init_det_is_seed_42]
    //@body id=core_init_det file=src/core.rs name=init_det props=C18,C07
    //@sig fn init_det < T > (n : usize , d : usize) -> Vec < Vec < T > > where T : Float + FromPrimitive ,
    //@rules
    //@end

    pub fn init(n: usize, d: usize) -> (r: Vec<Vec<T>>)
        ensures
            r@.len() == n,                                                 // [C18.init_shape_rows]
            forall |i: int| 0 <= i < n ==> (#[trigger] r@[i])@.len() == d,   // [C18.init_shape_cols]
    //@body id=core_init_os file=src/core.rs name=init props=C18
    //@sig fn init < T > (n : usize , d : usize) -> Vec < Vec < T > > where T : Float + FromPrimitive ,
    //@rules
    //@end

    /// rows of a larger request are the rows of a smaller one (same d, same generator state)
    pub proof fn lemma_init_prefix(s: RngState, n1: int, n2: int, d: int)
        requires 0 <= n1 <= n2, 0 <= d
        ensures init_spec(s, n2, d).subrange(0, n1) =~= init_spec(s, n1, d)   // [C18.prefix]
    {
    }
    /// every entry is finite (assumed contract of StandardNormal; from_f64 is total)
    pub proof fn lemma_init_finite(s: RngState, n: int, d: int, i: int, j: int)
        requires 0 <= i < n, 0 <= j < d
        ensures val(init_spec(s, n, d)[i][j]) is Fin     // [C18.finite_entries]
    {
    }
    /// the shape of what the seeded helpers return
    pub proof fn lemma_init_shape(s: RngState, n: int, d: int)
        requires 0 <= n, 0 <= d
        ensures init_spec(s, n, d).len() == n, forall |i: int| 0 <= i < n ==> (#[trigger] init_spec(s, n, d)[i]).len() == d   // [C18.shape]
    {
    }
}
} // verus!
fn main() {}
