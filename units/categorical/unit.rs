//@unit categorical — src/distributions.rs: Categorical::new, Discrete::{sample,logp}, Target::unnorm_logp (C16)
#![allow(unused_imports, unused_variables, dead_code, unused_mut, non_snake_case, unused_parens, unused_labels)]
use vstd::prelude::*;
verus! {
//@include prelude/float.rs
//@include prelude/rng.rs

// loops are verified in the context of their function (facts about values bound before a loop need no restating in
// its invariant: hoisting a sub-expression out of a loop must not break the proof)
#[verifier::loop_isolation(false)]
pub mod unit_categorical {
    use vstd::prelude::*;
    use vstd::std_specs::iter::IteratorSpec;
    use super::fl::*;
    use super::rng::*;
    broadcast use super::fl::fl_axioms, super::rng::rng_axioms;

    // R-float: the generic `T: Float` of Categorical<T> is the abstract float
    pub type T = Fl;

    pub struct Categorical {
        //@fields file=src/distributions.rs name=Categorical
    }
    pub trait Discrete<X> {
        /// precondition of `sample`, chosen by the implementation (Verus: impls cannot add `requires`)
        spec fn sample_req(&self) -> bool;
        fn sample(&mut self) -> usize requires old(self).sample_req();
        fn logp(&self, index: usize) -> X;
    }
    pub trait Target<S, X> {
        spec fn pos_req(&self, position: Seq<S>) -> bool;
        fn unnorm_logp(&self, position: &[S]) -> X requires self.pos_req(position@);
    }

    // ---- specification in real arithmetic ----
    pub open spec fn rv(f: Fl) -> real { val(f)->Fin_0 }
    /// all entries finite and non-negative
    pub open spec fn nonneg(p: Seq<Fl>) -> bool { forall |i: int| 0 <= i < p.len() ==> val(#[trigger] p[i]) is Fin && rv(p[i]) >= 0real }
    /// partial sum of the first k entries
    pub open spec fn psum(p: Seq<Fl>, k: int) -> real decreases k {
        if k <= 0 { 0real } else { psum(p, k - 1) + rv(p[k - 1]) }
    }
    /// a probability vector: non-negative, sums to one, not empty
    pub open spec fn wf_probs(p: Seq<Fl>) -> bool { p.len() >= 1 && nonneg(p) && psum(p, p.len() as int) == 1real }

    pub proof fn lemma_psum_mono(p: Seq<Fl>, a: int, b: int)
        requires 0 <= a <= b <= p.len(), nonneg(p)
        ensures psum(p, a) <= psum(p, b)
        decreases b - a
    {
        if a < b { lemma_psum_mono(p, a, b - 1); }
    }
    /// sum of w_i / S over the first k entries is psum(w, k) / S
    pub proof fn lemma_psum_div(w: Seq<Fl>, q: Seq<Fl>, s: real, k: int)
        requires s != 0real, 0 <= k <= w.len(), q.len() == w.len(),
            forall |i: int| 0 <= i < w.len() ==> rv(#[trigger] q[i]) == rv(w[i]) / s
        ensures psum(q, k) == psum(w, k) / s
        decreases k
    {
        if k > 0 {
            lemma_psum_div(w, q, s, k - 1);
            let a = psum(w, k - 1);
            let b = rv(w[k - 1]);
            assert(a / s + b / s == (a + b) / s) by(nonlinear_arith) requires s != 0real;
        } else {
            assert(0real / s == 0real) by(nonlinear_arith) requires s != 0real;
        }
    }

    impl Categorical {
        pub fn new(probs: Vec<T>) -> (r: Self)
            requires nonneg(probs@), psum(probs@, probs@.len() as int) > 0real
            ensures
                r.probs@.len() == probs@.len(),                                                                 // [C16.new_len]
                forall |i: int| 0 <= i < probs@.len() ==> val(#[trigger] r.probs@[i]) == XR::Fin(rv(probs@[i]) / psum(probs@, probs@.len() as int)),  // [C16.new_normalised]
                nonneg(r.probs@) && psum(r.probs@, r.probs@.len() as int) == 1real,                            // [C16.new_sums_to_one]
        //@body id=cat_new file=src/distributions.rs impl_self=Categorical name=new props=C16
        //@sig fn new (probs : Vec < T >) -> Self
        //@rules R-fold R-mapcollect
        //@outtype __vx_out1 Vec<T>
        //@anchor w0 scope=fn pos=start
        //@| let ghost w0 = probs@;
        //@loop 1 iter=it
        //@| invariant
        //@|     it.iter.end == probs.len(), probs@ == w0, nonneg(w0),
        //@|     val(acc) == XR::Fin(psum(w0, __vx_k1 as int)),
        //@loop 2 iter=it2
        //@| invariant
        //@|     it2.history@ + it2.iter.remaining() == w0, nonneg(w0),
        //@|     val(sum) == XR::Fin(psum(w0, w0.len() as int)), psum(w0, w0.len() as int) > 0real,
        //@|     __vx_out1@.len() == it2.history@.len(),
        //@|     forall |i: int| 0 <= i < __vx_out1@.len() ==> val(#[trigger] __vx_out1@[i]) == XR::Fin(rv(w0[i]) / psum(w0, w0.len() as int)),
        //@anchor fin scope=fn pos=before match="^Self \{"
        //@| proof {
        //@|     let s = psum(w0, w0.len() as int);
        //@|     assert forall |i: int| 0 <= i < w0.len() implies val(#[trigger] normalized@[i]) is Fin && rv(normalized@[i]) >= 0real by {
        //@|         let b = rv(w0[i]);
        //@|         assert(b / s >= 0real) by(nonlinear_arith) requires b >= 0real, s > 0real;
        //@|     }
        //@|     lemma_psum_div(w0, normalized@, s, w0.len() as int);
        //@|     assert(s / s == 1real) by(nonlinear_arith) requires s > 0real;
        //@| }
        //@end
    }

    impl Discrete<T> for Categorical {
        /// the statement's domain: a non-empty probability vector (non-negative, sum one)
        open spec fn sample_req(&self) -> bool { wf_probs(self.probs@) }
        fn sample(&mut self) -> (k: usize)
            ensures
                k < old(self).probs@.len(),                                        // [C16.sample_in_range]
                rv(old(self).probs@[k as int]) > 0real,                            // [C16.never_zero_prob]
                psum(old(self).probs@, k as int) <= rv(unif_out(state(old(self).rng)))
                    && rv(unif_out(state(old(self).rng))) <= psum(old(self).probs@, k as int + 1),   // [C16.inverse_cdf]
                final(self).probs == old(self).probs,                              // [C16.sample_keeps_probs]
                state(final(self).rng) == unif_next(state(old(self).rng)),         // [C16.sample_one_draw]
        //@body id=cat_sample file=src/distributions.rs impl_self=Categorical impl_trait=Discrete name=sample props=C16
        //@sig fn sample (& mut self) -> usize
        //@rules R-enum
        //@rename r match="^let (\\w+) : T = self \\. rng \\. random"
        //@rename cum match="^let mut (\\w+) : T = T :: zero"
        //@rename k match="^let mut (\\w+) = self \\. probs \\. len"
        //@anchor fnd scope=fn pos=before match="for \( ?i|for i in"
        //@| let ghost mut found = false;
        //@| let ghost p0 = self.probs@;
        //@loop 1 iter=it
        //@| invariant_except_break
        //@|     !found, val(cum) == XR::Fin(psum(p0, i as int)), k < p0.len(), psum(p0, i as int) <= rv(r),
        //@| invariant
        //@|     it.iter.end == p0.len(), self.probs@ == p0, wf_probs(p0),
        //@|     val(r) is Fin, 0real <= rv(r) < 1real,
        //@| ensures
        //@|     found ==> k < p0.len(),                                                          // [C16.sample_in_range]
        //@|     found ==> psum(p0, k as int) <= rv(r) && rv(r) <= psum(p0, k as int + 1),          // [C16.inverse_cdf]
        //@|     found ==> k < p0.len() && rv(p0[k as int]) > 0real,                              // [C16.never_zero_prob]
        //@|     !found ==> psum(p0, p0.len() as int) <= rv(r),
        //@anchor brk scope=loop:1 pos=after match="^cum \\+= p"
        //@| proof { assert(psum(p0, i as int + 1) == psum(p0, i as int) + rv(p0[i as int])); }
        //@anchor hit scope=loop:1 pos=before match="^break"
        //@| proof { found = true; }
        //@anchor done scope=fn pos=end
        //@| proof { if !found { assert(false); } }
        //@end

        fn logp(&self, index: usize) -> (r: T)
            ensures
                index < self.probs@.len() ==> r == mk(xr_ln(val(self.probs@[index as int]))),   // [C16.logp_is_ln_p]
                index >= self.probs@.len() ==> val(r) == XR::NegInf,                             // [C16.logp_out_of_range]
        //@body id=cat_logp file=src/distributions.rs impl_self=Categorical impl_trait=Discrete name=logp props=C16
        //@sig fn logp (& self , index : usize) -> T
        //@rules
        //@end
    }

    impl Target<usize, T> for Categorical {
        open spec fn pos_req(&self, position: Seq<usize>) -> bool { position.len() >= 1 }
        fn unnorm_logp(&self, position: &[usize]) -> (r: T)
            ensures
                position@[0] < self.probs@.len() ==> r == mk(xr_ln(val(self.probs@[position@[0] as int]))),   // [C16.target_logp]
                position@[0] >= self.probs@.len() ==> val(r) == XR::NegInf,
        //@body id=cat_target file=src/distributions.rs impl_self=Categorical impl_trait=Target name=unnorm_logp props=C16
        //@sig fn unnorm_logp (& self , position : & [usize]) -> T
        //@rules
        //@end
    }
}
} // verus!
fn main() {}
