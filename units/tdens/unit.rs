//@unit tdens — src/distributions.rs: the tensor-based built-in targets (Rosenbrock2D, RosenbrockND, DiffableGaussian2D evaluation) (C15)
#![allow(unused_imports, unused_variables, dead_code, unused_mut, non_snake_case, unused_parens, unused_labels)]
use vstd::prelude::*;
verus! {
//@include prelude/float.rs
//@include prelude/rng.rs
//@include prelude/tensor.rs
//@include prelude/tensorops.rs

// loops are verified in the context of their function (facts about values bound before a loop need no restating in
// its invariant: hoisting a sub-expression out of a loop must not break the proof)
#[verifier::loop_isolation(false)]
pub mod unit_tdens {
    use vstd::prelude::*;
    use vstd::std_specs::iter::IteratorSpec;
    use super::fl::*;
    use super::tn::*;
    use super::tno::*;
    broadcast use super::fl::fl_axioms, super::tn::tn_axioms, super::tn::ax_tdim2;

    // R-float: `T: Float` is the abstract float
    pub type T = Fl;

    /// the two target traits; `*_req` is the shape each implementation documents (trait impls cannot add `requires`)
    pub trait BatchedGradientTarget<B: AutodiffBackend> {
        spec fn batch_req(&self, positions: Tensor<B, 2>) -> bool;
        fn unnorm_logp_batch(&self, positions: Tensor<B, 2>) -> Tensor<B, 1> requires self.batch_req(positions);
    }
    pub trait GradientTarget<B: AutodiffBackend> {
        spec fn point_req(&self, position: Tensor<B, 1>) -> bool;
        fn unnorm_logp(&self, position: Tensor<B, 1>) -> Tensor<B, 1> requires self.point_req(position);
    }

    // ---- Rosenbrock2D: log p(x, y) = -((a - x)^2 + b (y - x^2)^2) ---------------------------------
    pub struct Rosenbrock2D {
        //@fields file=src/distributions.rs name=Rosenbrock2D
    }
    /// the value the code computes, operation by operation, in the extended-real model (total: also for inf/NaN inputs)
    pub open spec fn rosen2_xr(a: XR, b: XR, x: XR, y: XR) -> XR {
        let t1 = xr_add(xr_neg(x), a);
        let d = xr_sub(y, xr_mul(x, x));
        xr_neg(xr_add(xr_mul(t1, t1), xr_mul(xr_mul(d, d), b)))
    }
    /// the documented density (from the statement), for finite arguments
    pub open spec fn rosen2_r(a: real, b: real, x: real, y: real) -> real { -((a - x) * (a - x) + b * ((y - x * x) * (y - x * x))) }
    pub proof fn lemma_rosen2_is_documented_density(a: real, b: real, x: real, y: real)
        ensures rosen2_xr(XR::Fin(a), XR::Fin(b), XR::Fin(x), XR::Fin(y)) == XR::Fin(rosen2_r(a, b, x, y))      // [C15.rosenbrock2d_is_documented_density]
    {
        assert((-x + a) * (-x + a) == (a - x) * (a - x)) by(nonlinear_arith);
        assert(((y - x * x) * (y - x * x)) * b == b * ((y - x * x) * (y - x * x))) by(nonlinear_arith);
    }

    impl<B: AutodiffBackend> BatchedGradientTarget<B> for Rosenbrock2D {
        /// at least one row, at least two columns (burn's slice panics otherwise); further columns are ignored
        open spec fn batch_req(&self, positions: Tensor<B, 2>) -> bool { tdim2(positions).0 >= 1 && tdim2(positions).1 >= 2 }
        fn unnorm_logp_batch(&self, positions: Tensor<B, 2>) -> (r: Tensor<B, 1>)
            ensures v1(r).len() == v2(positions).len(),
                forall |i: int| 0 <= i < v2(positions).len() ==> (#[trigger] v1(r)[i]) == rosen2_xr(val(self.a), val(self.b), v2(positions)[i][0], v2(positions)[i][1]),    // [C15.rosenbrock2d_batch_rowwise]
        //@body id=rosen2_batch file=src/distributions.rs impl_self=Rosenbrock2D impl_trait=BatchedGradientTarget name=unnorm_logp_batch props=C15
        //@sig fn unnorm_logp_batch (& self , positions : Tensor < B , 2 >) -> Tensor < B , 1 >
        //@rules R-lit
        //@end
    }
    impl<B: AutodiffBackend> GradientTarget<B> for Rosenbrock2D {
        open spec fn point_req(&self, position: Tensor<B, 1>) -> bool { v1(position).len() >= 2 }
        fn unnorm_logp(&self, position: Tensor<B, 1>) -> (r: Tensor<B, 1>)
            ensures v1(r) == seq![rosen2_xr(val(self.a), val(self.b), v1(position)[0], v1(position)[1])],     // [C15.rosenbrock2d_point_agrees_with_batch_row]
        //@body id=rosen2_single file=src/distributions.rs impl_self=Rosenbrock2D impl_trait=GradientTarget name=unnorm_logp props=C15
        //@sig fn unnorm_logp (& self , position : Tensor < B , 1 >) -> Tensor < B , 1 >
        //@rules R-lit R-smacro
        //@end
    }

    // ---- RosenbrockND: log p(x) = - sum_{i<n-1} [ 100 (x_{i+1} - x_i^2)^2 + (1 - x_i)^2 ] ----------------
    pub struct RosenbrockND {}
    /// term i as the code computes it (extended reals)
    pub open spec fn rosen_terms_xr(row: V) -> V {
        let low = row.subrange(0, row.len() - 1);
        let high = row.subrange(1, row.len() as int);
        vadd(vscale(vsq(vsub(high, vsq(low))), XR::Fin(100real)), vsq(vadds(vneg(low), XR::Fin(1real))))
    }
    pub open spec fn rosenN_xr(row: V) -> XR { xr_neg(vsum(rosen_terms_xr(row))) }
    /// the documented term (from the statement), for finite coordinates
    pub open spec fn rosen_term_r(x: real, xn: real) -> real { 100real * ((xn - x * x) * (xn - x * x)) + (1real - x) * (1real - x) }
    pub proof fn lemma_rosen_term_is_documented(row: V, i: int)
        requires row.len() >= 2, 0 <= i < row.len() - 1, row[i] is Fin, row[i + 1] is Fin
        ensures rosen_terms_xr(row)[i] == XR::Fin(rosen_term_r(row[i]->Fin_0, row[i + 1]->Fin_0))      // [C15.rosenbrocknd_terms_are_documented_terms]
    {
        let x = row[i]->Fin_0; let xn = row[i + 1]->Fin_0;
        assert(((xn - x * x) * (xn - x * x)) * 100real == 100real * ((xn - x * x) * (xn - x * x))) by(nonlinear_arith);
        assert((-x + 1real) * (-x + 1real) == (1real - x) * (1real - x)) by(nonlinear_arith);
    }
    /// sum of finite terms, as a real
    pub open spec fn rsumv(a: V) -> real decreases a.len() { if a.len() == 0 { 0real } else { rsumv(a.drop_last()) + a.last()->Fin_0 } }
    pub proof fn lemma_vsum_finite(a: V)
        requires forall |i: int| 0 <= i < a.len() ==> (#[trigger] a[i]) is Fin
        ensures vsum(a) == XR::Fin(rsumv(a))
        decreases a.len()
    {
        if a.len() > 0 {
            assert forall |i: int| 0 <= i < a.drop_last().len() implies (#[trigger] a.drop_last()[i]) is Fin by { assert(a.drop_last()[i] == a[i]); }
            lemma_vsum_finite(a.drop_last());
            assert(a.last() == a[a.len() - 1]);
        }
    }
    impl<B: AutodiffBackend> BatchedGradientTarget<B> for RosenbrockND {
        /// at least one row and two columns (`0..n-1` must be a non-empty range)
        open spec fn batch_req(&self, positions: Tensor<B, 2>) -> bool { tdim2(positions).0 >= 1 && tdim2(positions).1 >= 2 }
        fn unnorm_logp_batch(&self, positions: Tensor<B, 2>) -> (r: Tensor<B, 1>)
            ensures v1(r).len() == v2(positions).len(),
                forall |i: int| 0 <= i < v2(positions).len() ==> (#[trigger] v1(r)[i]) == rosenN_xr(v2(positions)[i]),    // [C15.rosenbrocknd_batch_rowwise]
        //@body id=rosenN_batch file=src/distributions.rs impl_self=RosenbrockND impl_trait=BatchedGradientTarget name=unnorm_logp_batch props=C15
        //@sig fn unnorm_logp_batch (& self , positions : Tensor < B , 2 >) -> Tensor < B , 1 >
        //@rules R-lit
        //@end
    }

    // ---- DiffableGaussian2D: log N(x; mean, cov) = norm_const - 1/2 (x - mean)^T inv_cov (x - mean) --------
    pub struct DiffableGaussian2D {
        //@fields file=src/distributions.rs name=DiffableGaussian2D
    }
    pub open spec fn inv_m(g: DiffableGaussian2D) -> M {
        seq![seq![val(g.inv_cov@[0]@[0]), val(g.inv_cov@[0]@[1])], seq![val(g.inv_cov@[1]@[0]), val(g.inv_cov@[1]@[1])]]
    }
    pub open spec fn mean_v(g: DiffableGaussian2D) -> V { seq![val(g.mean@[0]), val(g.mean@[1])] }
    /// delta^T inv_cov delta as the code computes it: z = delta * inv_cov (row vector times matrix), then sum(z .* delta)
    pub open spec fn quad_xr(g: DiffableGaussian2D, row: V) -> XR {
        let delta = vsub(row, mean_v(g));
        let z = seq![vdot(delta, mcol(inv_m(g), 0)), vdot(delta, mcol(inv_m(g), 1))];
        vsum(vmul(z, delta))
    }
    pub open spec fn dg_xr(g: DiffableGaussian2D, row: V) -> XR { xr_sub(val(g.norm_const), xr_mul(quad_xr(g, row), XR::Fin(1real / 2real))) }
    /// the documented density for finite arguments: c - 1/2 [d0 (d0 i00 + d1 i10) + d1 (d0 i01 + d1 i11)]
    pub open spec fn dg_r(c: real, m0: real, m1: real, i00: real, i01: real, i10: real, i11: real, x0: real, x1: real) -> real {
        let d0 = x0 - m0; let d1 = x1 - m1;
        c - (1real / 2real) * ((d0 * i00 + d1 * i10) * d0 + (d0 * i01 + d1 * i11) * d1)
    }

    pub open spec fn fin_g(g: DiffableGaussian2D) -> bool {
        val(g.norm_const) is Fin && val(g.mean@[0]) is Fin && val(g.mean@[1]) is Fin
            && val(g.inv_cov@[0]@[0]) is Fin && val(g.inv_cov@[0]@[1]) is Fin && val(g.inv_cov@[1]@[0]) is Fin && val(g.inv_cov@[1]@[1]) is Fin
    }
    /// for finite parameters and a finite point the computed value is the documented norm_const - 1/2 d^T inv_cov d
    /// (with norm_const and inv_cov as DiffableGaussian2D::new builds them — unit densities — this is log N(x; mean, cov))
    pub proof fn lemma_dg_is_documented_density(g: DiffableGaussian2D, row: V)
        requires fin_g(g), row.len() == 2, row[0] is Fin, row[1] is Fin
        ensures dg_xr(g, row) == XR::Fin(dg_r(val(g.norm_const)->Fin_0, val(g.mean@[0])->Fin_0, val(g.mean@[1])->Fin_0,
            val(g.inv_cov@[0]@[0])->Fin_0, val(g.inv_cov@[0]@[1])->Fin_0, val(g.inv_cov@[1]@[0])->Fin_0, val(g.inv_cov@[1]@[1])->Fin_0,
            row[0]->Fin_0, row[1]->Fin_0))      // [C15.gaussian2d_value_is_documented_density]
    {
        let delta = vsub(row, mean_v(g));
        let c0 = mcol(inv_m(g), 0); let c1 = mcol(inv_m(g), 1);
        lemma_vsum2(vmul(delta, c0)); lemma_vsum2(vmul(delta, c1));
        let z = seq![vdot(delta, c0), vdot(delta, c1)];
        lemma_vsum2(vmul(z, delta));
        let q = ((row[0]->Fin_0 - val(g.mean@[0])->Fin_0) * val(g.inv_cov@[0]@[0])->Fin_0 + (row[1]->Fin_0 - val(g.mean@[1])->Fin_0) * val(g.inv_cov@[1]@[0])->Fin_0) * (row[0]->Fin_0 - val(g.mean@[0])->Fin_0)
              + ((row[0]->Fin_0 - val(g.mean@[0])->Fin_0) * val(g.inv_cov@[0]@[1])->Fin_0 + (row[1]->Fin_0 - val(g.mean@[1])->Fin_0) * val(g.inv_cov@[1]@[1])->Fin_0) * (row[1]->Fin_0 - val(g.mean@[1])->Fin_0);
        assert(quad_xr(g, row) == XR::Fin(q));
        assert(q * (1real / 2real) == (1real / 2real) * q) by(nonlinear_arith);
    }
    /// the sum of a two-element vector is (0 + a0) + a1
    pub proof fn lemma_vsum2(a: V)
        requires a.len() == 2
        ensures vsum(a) == xr_add(xr_add(XR::Fin(0real), a[0]), a[1])
    {
        reveal_with_fuel(vsum, 3);
        assert(a.drop_last().drop_last().len() == 0);
        assert(a.drop_last().last() == a[0]);
        assert(a.last() == a[1]);
    }

    impl<B: AutodiffBackend> BatchedGradientTarget<B> for DiffableGaussian2D {
        /// [n_chains, 2] with at least one chain (the code asserts dim == 2)
        open spec fn batch_req(&self, positions: Tensor<B, 2>) -> bool { tdim2(positions).0 >= 1 && tdim2(positions).1 == 2 }
        fn unnorm_logp_batch(&self, positions: Tensor<B, 2>) -> (r: Tensor<B, 1>)
            ensures v1(r).len() == v2(positions).len(),
                forall |i: int| 0 <= i < v2(positions).len() ==> (#[trigger] v1(r)[i]) == dg_xr(*self, v2(positions)[i]),    // [C15.gaussian2d_batch_rowwise_is_normalised_log_density]
        //@body id=dg_batch file=src/distributions.rs impl_self=DiffableGaussian2D impl_trait=BatchedGradientTarget name=unnorm_logp_batch props=C15
        //@sig fn unnorm_logp_batch (& self , positions : Tensor < B , 2 >) -> Tensor < B , 1 >
        //@rules R-lit R-assert R-unchain
        //@anchor c1 scope=fn pos=after match="^let __vx_c\\d+ = .*from_floats \\(\\[\\[self \\. mean"
        //@| proof { assert(tdim2($lhs) == (1int, 2int)); }
        //@anchor c2 scope=fn pos=after match="^let __vx_c\\d+ = __vx_c\\d+ \\. reshape \\(\\[1 , 2\\]\\)"
        //@| proof { assert(tdim2($lhs) == (1int, 2int)); assert(v2($lhs)[0] =~= mean_v(*self)); }
        //@anchor a0 scope=fn pos=after match="^let mean_tensor"
        //@| let ghost n = n_chains as int;
        //@| let ghost xs = v2(positions);
        //@| proof {
        //@|     assert(tdim2(mean_tensor) == (n, 2int));
        //@|     assert forall |i: int| 0 <= i < n implies (#[trigger] v2(mean_tensor)[i]) == mean_v(*self) by {}
        //@| }
        //@anchor a1 scope=fn pos=after match="^let delta"
        //@| let ghost dl = v2(delta);
        //@| proof {
        //@|     assert(rect(xs, n, 2));
        //@|     assert forall |i: int| 0 <= i < n implies (#[trigger] dl[i]) == vsub(xs[i], mean_v(*self)) by {}
        //@|     assert(rect(dl, n, 2));
        //@|     assert(dl[0].len() == 2);
        //@|     assert(tdim2(delta) == (n, 2int));
        //@| }
        //@anchor c3 scope=fn pos=after match="^let __vx_c\\d+ = .*from_floats \\(\\[inv_cov_data\\]"
        //@| proof { assert(tdim2($lhs) == (1int, 4int)); }
        //@anchor a2 scope=fn pos=after match="^let inv_cov_t"
        //@| proof {
        //@|     assert(tdim2(inv_cov_t) == (2int, 2int));
        //@|     assert(v2(inv_cov_t)[0] =~= inv_m(*self)[0]);
        //@|     assert(v2(inv_cov_t)[1] =~= inv_m(*self)[1]);
        //@|     assert(v2(inv_cov_t) =~= inv_m(*self));
        //@| }
        //@anchor a3 scope=fn pos=after match="^let z ="
        //@| proof {
        //@|     assert(tdim2(z) == (n, 2int));
        //@|     assert forall |i: int| 0 <= i < n implies (#[trigger] v2(z)[i]) =~= seq![vdot(dl[i], mcol(inv_m(*self), 0)), vdot(dl[i], mcol(inv_m(*self), 1))] by {}
        //@| }
        //@anchor a4 scope=fn pos=after match="^let quad"
        //@| proof {
        //@|     assert(v1(quad).len() == n);
        //@|     assert forall |i: int| 0 <= i < n implies (#[trigger] v1(quad)[i]) == quad_xr(*self, xs[i]) by {}
        //@| }
        //@end
    }
    impl<B: AutodiffBackend> GradientTarget<B> for DiffableGaussian2D {
        open spec fn point_req(&self, position: Tensor<B, 1>) -> bool { v1(position).len() == 2 }
        fn unnorm_logp(&self, position: Tensor<B, 1>) -> (r: Tensor<B, 1>)
            ensures v1(r) == seq![dg_xr(*self, v1(position))],     // [C15.gaussian2d_point_agrees_with_batch_row]
        //@body id=dg_single file=src/distributions.rs impl_self=DiffableGaussian2D impl_trait=GradientTarget name=unnorm_logp props=C15
        //@sig fn unnorm_logp (& self , position : Tensor < B , 1 >) -> Tensor < B , 1 >
        //@rules R-lit R-assert R-unchain
        //@anchor a0 scope=fn pos=after match="^let mean_tensor"
        //@| proof { assert(v1(mean_tensor) =~= mean_v(*self)); }
        //@anchor a1 scope=fn pos=after match="^let delta"
        //@| let ghost dl = v1(delta);
        //@| proof { assert(dl == vsub(v1(position), mean_v(*self))); assert(dl.len() == 2); }
        //@anchor a2 scope=fn pos=after match="^let inv_cov_t"
        //@| proof {
        //@|     assert(tdim2(inv_cov_t) == (2int, 2int));
        //@|     assert(v2(inv_cov_t)[0] =~= inv_m(*self)[0]);
        //@|     assert(v2(inv_cov_t)[1] =~= inv_m(*self)[1]);
        //@|     assert(v2(inv_cov_t) =~= inv_m(*self));
        //@| }
        //@anchor c2 scope=fn pos=after match="^let __vx_c\\d+ = __vx_c\\d+ \\. reshape \\(\\[1_i32 , 2_i32\\]\\)"
        //@| proof { assert(tdim2($lhs) == (1int, 2int)); assert(v2($lhs)[0] =~= dl); }
        //@anchor a3 scope=fn pos=after match="^let z ="
        //@| proof {
        //@|     assert(tdim2(z) == (1int, 2int));
        //@|     assert(v2(z)[0] =~= seq![vdot(dl, mcol(inv_m(*self), 0)), vdot(dl, mcol(inv_m(*self), 1))]);
        //@| }
        //@anchor c4 scope=fn pos=after match="^let __vx_c\\d+ = z \\. reshape"
        //@| proof { assert(v1($lhs) =~= v2(z)[0]); }
        //@anchor a4 scope=fn pos=after match="^let quad"
        //@| proof {
        //@|     assert(v1(quad) =~= seq![quad_xr(*self, v1(position))]);
        //@| }
        //@end
    }
}
} // verus!
fn main() {}
