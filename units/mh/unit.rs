//@unit mh — src/metropolis_hastings.rs: MHMarkovChain::step (C01, C14), constructors and seeding (C07, C08, C09)
#![allow(unused_imports, unused_variables, dead_code, unused_mut, non_snake_case, unused_parens, unused_labels)]
use vstd::prelude::*;
verus! {
//@include prelude/float.rs
//@include prelude/rng.rs

pub mod unit_mh {
    use vstd::prelude::*;
    use core::marker::PhantomData;
    use super::fl::*;
    use super::rng::*;
    broadcast use super::fl::fl_axioms, super::rng::rng_axioms;

    // R-float: the generic parameter `F: num_traits::Float` of the MH types is the abstract float
    pub type F = Fl;

    // ---- user-supplied traits: ASSUMED laws (the only facts the generic proofs may use) ----
    /// `Target<T, F>`: `unnorm_logp` is a function of the position (law: it returns `self.lp(position)`).
    pub trait Target<T>: Sized {
        spec fn lp(&self, x: Seq<T>) -> Fl;
        fn unnorm_logp(&self, position: &[T]) -> (r: Fl)
            ensures r == self.lp(position@);
    }
    /// `Proposal<T, F>`: `logp(from, to)` is a function `lq` of its arguments that `sample` does not change;
    /// `sample` is an arbitrary relation between (value before, current point, value after, candidate).
    pub trait Proposal<T>: Sized {
        spec fn lq(&self, from: Seq<T>, to: Seq<T>) -> Fl;
        spec fn sample_rel(pre: Self, cur: Seq<T>, post: Self, y: Seq<T>) -> bool;
        fn sample(&mut self, current: &[T]) -> (r: Vec<T>)
            ensures
                Self::sample_rel(*old(self), current@, *final(self), r@),
                forall |a: Seq<T>, b: Seq<T>| final(self).lq(a, b) == old(self).lq(a, b);
        fn logp(&self, from: &[T], to: &[T]) -> (r: Fl)
            ensures r == self.lq(from@, to@);
    }

    pub trait MarkovChain<T> {
        fn step(&mut self) -> &Vec<T>;
    }

    pub struct MHMarkovChain<S, D, Q> {
        //@fields file=src/metropolis_hastings.rs name=MHMarkovChain drop=phantom
    }

    // ---- C01: the acceptance rule, written from the property statement ----
    /// [log p(y) + log q(x|y)] - [log p(x) + log q(y|x)] in extended reals
    pub open spec fn mh_log_ratio<T, D: Target<T>, Q: Proposal<T>>(d: D, q: Q, x: Seq<T>, y: Seq<T>) -> XR {
        xr_sub(xr_add(val(d.lp(y)), val(q.lq(y, x))), xr_add(val(d.lp(x)), val(q.lq(x, y))))
    }
    /// "ends at y exactly when ln u < ratio, otherwise stays at x"
    pub open spec fn mh_rule<T, D: Target<T>, Q: Proposal<T>>(d: D, q: Q, x: Seq<T>, y: Seq<T>, u: Fl, next: Seq<T>) -> bool {
        next == (if xr_lt(xr_ln(val(u)), mh_log_ratio(d, q, x, y)) { y } else { x })
    }
    pub open spec fn mh_step_post<T, D: Target<T>, Q: Proposal<T>>(pre: MHMarkovChain<T, D, Q>, post: MHMarkovChain<T, D, Q>) -> bool {
        exists |y: Seq<T>|
            #[trigger] Q::sample_rel(pre.proposal, pre.current_state@, post.proposal, y)
            && mh_rule(pre.target, pre.proposal, pre.current_state@, y, unif_out(state(pre.rng)), post.current_state@)
    }

    impl<T, D: Target<T>, Q: Proposal<T>> MarkovChain<T> for MHMarkovChain<T, D, Q> {
        fn step(&mut self) -> (ret: &Vec<T>)
            ensures
                mh_step_post(*old(self), *final(self)),                                   // [C01.accept_iff]
                state(final(self).rng) == unif_next(state(old(self).rng)),                 // [C01.one_draw_each]
                final(self).target == old(self).target,                                   // [C01.frame_target]
                forall |a: Seq<T>, b: Seq<T>| final(self).proposal.lq(a, b) == old(self).proposal.lq(a, b), // [C01.frame_density]
                ret@ == final(self).current_state@,                                       // [C01.returns_state]
        //@body id=mh_step file=src/metropolis_hastings.rs impl_self=MHMarkovChain impl_trait=MarkovChain name=step props=C01,C14
        //@sig fn step (& mut self) -> & Vec < T >
        //@rules
        //@anchor snap scope=fn pos=after match="^let proposed :"
        //@| let ghost y = proposed@;
        //@anchor wit scope=fn pos=end
        //@| proof { assert(Q::sample_rel(old(self).proposal, old(self).current_state@, self.proposal, y)); } // [C01.accept_iff]
        //@end
    }

    // ---- lemma: detailed balance of the MH kernel on reals (the textbook corollary of accept_iff
    //      under the stated assumption that u is uniform on [0,1), so P[ln u < r] = min(1, e^r)) ----
    pub open spec fn rmin(a: real, b: real) -> real { if a <= b { a } else { b } }
    /// pi_x q_xy min(1, (pi_y q_yx)/(pi_x q_xy)) == pi_y q_yx min(1, (pi_x q_xy)/(pi_y q_yx)) for positive weights
    pub proof fn lemma_detailed_balance(pix: real, piy: real, qxy: real, qyx: real)
        requires pix > 0real, piy > 0real, qxy > 0real, qyx > 0real
        ensures pix * qxy * rmin(1real, (piy * qyx) / (pix * qxy)) == piy * qyx * rmin(1real, (pix * qxy) / (piy * qyx))  // [C01.detailed_balance]
    {
        let a = pix * qxy;
        let b = piy * qyx;
        assert(a > 0real) by(nonlinear_arith) requires a == pix * qxy, pix > 0real, qxy > 0real;
        assert(b > 0real) by(nonlinear_arith) requires b == piy * qyx, piy > 0real, qyx > 0real;
        let r1 = b / a;
        let r2 = a / b;
        assert(a * r1 == b) by(nonlinear_arith) requires a > 0real, r1 == b / a;
        assert(b * r2 == a) by(nonlinear_arith) requires b > 0real, r2 == a / b;
        assert(r1 <= 1real <==> b <= a) by(nonlinear_arith) requires a > 0real, a * r1 == b;
        assert(r2 <= 1real <==> a <= b) by(nonlinear_arith) requires b > 0real, b * r2 == a;
        assert(a * 1real == a && b * 1real == b);
    }
}
} // verus!
fn main() {}
