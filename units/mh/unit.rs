//@unit mh — src/metropolis_hastings.rs: MHMarkovChain::step (C01, C14), constructors and seeding (C07, C08, C09)
#![allow(unused_imports, unused_variables, dead_code, unused_mut, non_snake_case, unused_parens, unused_labels)]
use vstd::prelude::*;
verus! {
//@include prelude/float.rs
//@include prelude/rng.rs

// loops are verified in the context of their function (facts about values bound before a loop need no restating in
// its invariant: hoisting a sub-expression out of a loop must not break the proof)
#[verifier::loop_isolation(false)]
pub mod unit_mh {
    use vstd::prelude::*;
    use core::marker::PhantomData;
    use vstd::std_specs::iter::IteratorSpec;
    use super::fl::*;
    use super::rng::*;
    use super::rng as rand;
    broadcast use super::fl::fl_axioms, super::rng::rng_axioms;

    // R-float: the generic parameter `F: num_traits::Float` of the MH types is the abstract float
    pub type F = Fl;

    // ---- user-supplied traits: ASSUMED laws (the only facts the generic proofs may use) ----
    /// `Target<T, F>`: `unnorm_logp` is a function of the position (law: it returns `self.lp(position)`).
    /// ASSUMED law for user `Clone` impls (derive(Clone) semantics): the clone is indistinguishable from the original.
    pub trait VClone: Sized {
        fn clone(&self) -> (r: Self) ensures r == *self;
    }
    pub trait Target<T>: VClone {
        spec fn lp(&self, x: Seq<T>) -> Fl;
        fn unnorm_logp(&self, position: &[T]) -> (r: Fl)
            ensures r == self.lp(position@);
    }
    /// `Proposal<T, F>`: `logp(from, to)` is a function `lq` of its arguments that `sample` does not change;
    /// `sample` is an arbitrary relation between (value before, current point, value after, candidate).
    pub trait Proposal<T>: VClone {
        spec fn lq(&self, from: Seq<T>, to: Seq<T>) -> Fl;
        spec fn sample_rel(pre: Self, cur: Seq<T>, post: Self, y: Seq<T>) -> bool;
        /// the random stream the proposal will consume next (C08); `set_seed` determines it
        spec fn stream(&self) -> RngState;
        fn set_seed(self, seed: u64) -> (r: Self)
            ensures r.stream() == seeded(seed),
                forall |a: Seq<T>, b: Seq<T>| r.lq(a, b) == self.lq(a, b);
        fn sample(&mut self, current: &[T]) -> (r: Vec<T>)
            ensures
                Self::sample_rel(*old(self), current@, *final(self), r@),
                forall |a: Seq<T>, b: Seq<T>| final(self).lq(a, b) == old(self).lq(a, b);
        fn logp(&self, from: &[T], to: &[T]) -> (r: Fl)
            ensures r == self.lq(from@, to@);
    }

    pub trait MarkovChain<T> {
        fn step(&mut self) -> &Vec<T>;
    }

    pub struct MHMarkovChain<S, T, D, Q> {
        //@fields file=src/metropolis_hastings.rs name=MHMarkovChain
    }
    pub struct MetropolisHastings<S, T, D, Q> {
        //@fields file=src/metropolis_hastings.rs name=MetropolisHastings
    }

    /// PRNG quality assumption used by C08 only: different 64-bit seeds give different generator states.
    pub axiom fn ax_seeded_injective(a: u64, b: u64) requires a != b ensures seeded(a) != seeded(b);

    /// (a + i) mod 2^64
    pub open spec fn u64_wadd(a: u64, i: int) -> u64 { ((a as int + i) % 0x1_0000_0000_0000_0000) as u64 }

    /// the per-chain acceptance seed documented for `seed`: 1 + seed + i, taken modulo 2^64
    pub open spec fn mh_chain_seed(seed: u64, i: int) -> u64 { ((1 + seed as int + i) % 0x1_0000_0000_0000_0000) as u64 }

    /// C08 for one sampler value: pairwise distinct proposal streams and acceptance streams, and no
    /// proposal stream equal to any acceptance stream
    pub open spec fn mh_streams_distinct<S, D: Target<S>, Q: Proposal<S>>(chains: Seq<MHMarkovChain<S, Fl, D, Q>>) -> bool {
        &&& forall |i: int, j: int| 0 <= i < j < chains.len() ==> chains[i].proposal.stream() != chains[j].proposal.stream()
        &&& forall |i: int, j: int| 0 <= i < j < chains.len() ==> state(chains[i].rng) != state(chains[j].rng)
        &&& forall |i: int, j: int| 0 <= i < chains.len() && 0 <= j < chains.len() ==> chains[i].proposal.stream() != state(chains[j].rng)
    }

    impl<S, D: Target<S>, Q: Proposal<S>> MHMarkovChain<S, Fl, D, Q> {
        pub fn new(target: D, proposal: Q, initial_state: Vec<S>) -> (r: Self)
            ensures
                r.current_state@ == initial_state@,   // [C09.mh_chain_new_state]
                r.target == target,
                r.proposal == proposal,
                os_seeded(state(r.rng)),
        //@body id=mh_chain_new file=src/metropolis_hastings.rs impl_self=MHMarkovChain name=new props=C09,C08
        //@sig fn new (target : D , proposal : Q , initial_state : Vec < S >) -> Self
        //@rules
        //@end
    }

    impl<S, D: Target<S>, Q: Proposal<S>> MetropolisHastings<S, Fl, D, Q> {
        pub fn new(target: D, proposal: Q, initial_states: Vec<Vec<S>>) -> (r: Self)
            ensures
                r.chains@.len() == initial_states@.len(),                                                          // [C09.mh_new_count]
                forall |c: int| 0 <= c < initial_states@.len() ==> (#[trigger] r.chains@[c]).current_state@ == initial_states@[c]@,   // [C09.mh_new_row_c_is_state_c]
                forall |c: int| 0 <= c < r.chains@.len() ==> (#[trigger] r.chains@[c]).target == target,
                forall |c: int, a: Seq<S>, b: Seq<S>| 0 <= c < r.chains@.len() ==> (#[trigger] r.chains@[c].proposal.lq(a, b)) == proposal.lq(a, b),
                forall |i: int, j: int| 0 <= i < j < r.chains@.len() ==> r.chains@[i].proposal.stream() != r.chains@[j].proposal.stream(),  // [C08.mh_new_proposal_streams_distinct]
                forall |i: int, j: int| 0 <= i < r.chains@.len() && 0 <= j < r.chains@.len() ==> r.chains@[i].proposal.stream() != state(r.chains@[j].rng),   // [C08.mh_new_proposal_never_seeded_like_an_acceptance_generator]
        //@body id=mh_new file=src/metropolis_hastings.rs impl_self=MetropolisHastings name=new props=C09,C08
        //@sig fn new (target : D , proposal : Q , initial_states : Vec < Vec < S > >) -> Self
        //@rules R-enum
        //@outtype chains Vec<MHMarkovChain<S, Fl, D, Q>>
        //@anchor snap scope=fn pos=start
        //@| let ghost init0 = initial_states@;
        //@loop 1 iter=it
        //@| invariant
        //@|     it.history@ + it.iter.remaining() == init0,
        //@|     chains@.len() == it.history@.len(), i == chains@.len(), i + it.iter.remaining().len() == init0.len(),
        //@|     forall |c: int| 0 <= c < chains@.len() ==> (#[trigger] chains@[c]).current_state@ == init0[c]@ && chains@[c].target == target
        //@|         && chains@[c].proposal.stream() == seeded(u64_wadd(base_seed, c)) && os_seeded(state(chains@[c].rng)),
        //@|     forall |c: int, a: Seq<S>, b: Seq<S>| 0 <= c < chains@.len() ==> (#[trigger] chains@[c].proposal.lq(a, b)) == proposal.lq(a, b),
        //@anchor cnt scope=loop:1 pos=after match="^chains \\. push"
        //@| proof { assert(chains.len() == chains@.len()); }
        //@anchor fin scope=fn pos=before match="^Self \\{"
        //@| proof {
        //@|     assert forall |i: int, j: int| 0 <= i < j < chains@.len() implies chains@[i].proposal.stream() != chains@[j].proposal.stream() by {
        //@|         ax_seeded_injective(u64_wadd(base_seed, i), u64_wadd(base_seed, j));
        //@|     }
        //@|     assert forall |i: int, j: int| 0 <= i < chains@.len() && 0 <= j < chains@.len() implies chains@[i].proposal.stream() != state(chains@[j].rng) by {
        //@|         ax_os_fresh(state(chains@[j].rng), u64_wadd(base_seed, i));
        //@|     }
        //@| }
        //@end

        pub fn seed(self, seed: u64) -> (r: Self)
            ensures
                r.chains@.len() == self.chains@.len(),
                forall |i: int| 0 <= i < r.chains@.len() ==> state((#[trigger] r.chains@[i]).rng) == seeded(mh_chain_seed(seed, i)),   // [C07.mh_per_chain_seed]
                forall |i: int| 0 <= i < r.chains@.len() ==> (#[trigger] r.chains@[i]).current_state == self.chains@[i].current_state
                    && r.chains@[i].target == self.chains@[i].target,                                                                   // [C07.mh_seed_frame]
                forall |i: int, a: Seq<S>, b: Seq<S>| 0 <= i < r.chains@.len() ==> (#[trigger] r.chains@[i].proposal.lq(a, b)) == self.chains@[i].proposal.lq(a, b),
                r.target == self.target,
                mh_streams_distinct(r.chains@),                                                                                          // [C08.mh_seed_streams_distinct]
        //@body id=mh_seed file=src/metropolis_hastings.rs impl_self=MetropolisHastings name=seed props=C07,C08
        //@sig fn seed (mut self , seed : u64) -> Self
        //@rules R-mutself R-enum
        //@anchor n0 scope=fn pos=start
        //@| proof { ax_vec_len_le_isize_max(&self.chains); }
        //@| let ghost nn: int = self.chains@.len() as int;
        //@loop 1 iter=it
        //@| invariant
        //@|     it.iter.end == self.chains@.len(), nn == self.chains@.len(), nn <= isize::MAX as int, n_chains == nn,
        //@|     __vx_self.chains@.len() == self.chains@.len(),
        //@|     __vx_self.target == self.target,
        //@|     forall |k: int| 0 <= k < i ==> state((#[trigger] __vx_self.chains@[k]).rng) == seeded(mh_chain_seed(seed, k))
        //@|         && __vx_self.chains@[k].proposal.stream() == seeded(u64_wadd(mh_chain_seed(seed, k), nn)),
        //@|     forall |k: int| 0 <= k < self.chains@.len() ==> (#[trigger] __vx_self.chains@[k]).current_state == self.chains@[k].current_state
        //@|         && __vx_self.chains@[k].target == self.chains@[k].target,
        //@|     forall |k: int, a: Seq<S>, b: Seq<S>| 0 <= k < self.chains@.len() ==> (#[trigger] __vx_self.chains@[k].proposal.lq(a, b)) == self.chains@[k].proposal.lq(a, b),
        //@anchor fin scope=fn pos=end
        //@| proof {
        //@|     let cs = __vx_self.chains@;
        //@|     let n = nn;
        //@|     assert forall |i: int, j: int| 0 <= i < j < cs.len() implies cs[i].proposal.stream() != cs[j].proposal.stream() && state(cs[i].rng) != state(cs[j].rng) by {
        //@|         ax_seeded_injective(u64_wadd(mh_chain_seed(seed, i), n), u64_wadd(mh_chain_seed(seed, j), n));
        //@|         ax_seeded_injective(mh_chain_seed(seed, i), mh_chain_seed(seed, j));
        //@|     }
        //@|     assert forall |i: int, j: int| 0 <= i < cs.len() && 0 <= j < cs.len() implies cs[i].proposal.stream() != state(cs[j].rng) by {
        //@|         ax_seeded_injective(u64_wadd(mh_chain_seed(seed, i), n), mh_chain_seed(seed, j));
        //@|     }
        //@| }
        //@end
    }

    // ---- C01: the acceptance rule, written from the property statement ----
    /// [log p(y) + log q(x|y)] - [log p(x) + log q(y|x)] in extended reals
    pub open spec fn mh_log_ratio<T, D: Target<T>, Q: Proposal<T>>(d: D, q: Q, x: Seq<T>, y: Seq<T>) -> XR {
        xr_sub(xr_add(val(d.lp(y)), val(q.lq(y, x))), xr_add(val(d.lp(x)), val(q.lq(x, y))))
    }
    /// "ends at y exactly when ln u < ratio, otherwise stays at x"
    pub open spec fn mh_rule<T, D: Target<T>, Q: Proposal<T>>(d: D, q: Q, x: Seq<T>, y: Seq<T>, u: Fl, next: Seq<T>) -> bool {
        next == (if xr_lt(xr_ln(val(u)), mh_log_ratio(d, q, x, y)) { y } else { x })
    }
    pub open spec fn mh_step_post<T, D: Target<T>, Q: Proposal<T>>(pre: MHMarkovChain<T, F, D, Q>, post: MHMarkovChain<T, F, D, Q>) -> bool {
        exists |y: Seq<T>|
            #[trigger] Q::sample_rel(pre.proposal, pre.current_state@, post.proposal, y)
            && mh_rule(pre.target, pre.proposal, pre.current_state@, y, unif_out(state(pre.rng)), post.current_state@)
    }

    impl<T, D: Target<T>, Q: Proposal<T>> MarkovChain<T> for MHMarkovChain<T, F, D, Q> {
        fn step(&mut self) -> (ret: &Vec<T>)
            ensures
                mh_step_post(*old(self), *final(self)),                                   // [C01.accept_iff]
                state(final(self).rng) == unif_next(state(old(self).rng)),                 // [C01.one_draw_each]
                final(self).target == old(self).target,                                   // [C01.frame_target]
                forall |a: Seq<T>, b: Seq<T>| final(self).proposal.lq(a, b) == old(self).proposal.lq(a, b), // [C01.frame_density]
                ret@ == final(self).current_state@,                                       // [C01.returns_state]
        //@body id=mh_step file=src/metropolis_hastings.rs impl_self=MHMarkovChain impl_trait=MarkovChain name=step props=C01,C14
        //@sig fn step (& mut self) -> & Vec < T >
        //@rules
        //@anchor snap scope=fn pos=after match="^let \\w+ : Vec < T > = self \\. proposal \\. sample"
        //@| let ghost y = $lhs@;
        //@anchor wit scope=fn pos=end
        //@| proof { assert(Q::sample_rel(old(self).proposal, old(self).current_state@, self.proposal, y)); } // [C01.accept_iff]
        //@end
    }

    // ---- C14: a candidate of zero / undefined density is never accepted, for every u in [0,1) including exactly 0 ----
    pub open spec fn bad_density(a: XR) -> bool { a is NaN || a is NegInf }
    pub proof fn lemma_mh_rejects_zero_density<T, D: Target<T>, Q: Proposal<T>>(d: D, q: Q, x: Seq<T>, y: Seq<T>, u: Fl, next: Seq<T>)
        requires
            val(d.lp(x)) is Fin,                       // started at a state of finite density
            bad_density(val(d.lp(y))),                 // the candidate has log-density -inf or NaN
            val(u) is Fin, 0real <= val(u)->Fin_0 < 1real,
            mh_rule(d, q, x, y, u, next),
        ensures next == x                              // [C14.mh_rejects_zero_or_nan_density_candidate_for_every_u]
    {
    }
    /// over the step contract: a chain at finite density stays at finite density (or moves to +inf density, never to -inf/NaN)
    pub proof fn lemma_mh_step_keeps_density_defined<T, D: Target<T>, Q: Proposal<T>>(pre: MHMarkovChain<T, F, D, Q>, post: MHMarkovChain<T, F, D, Q>)
        requires mh_step_post(pre, post), val(pre.target.lp(pre.current_state@)) is Fin, post.target == pre.target
        ensures !bad_density(val(post.target.lp(post.current_state@)))     // [C14.mh_step_never_moves_to_zero_or_nan_density]
    {
        broadcast use ax_unif_range;
        let y = choose |y: Seq<T>| #[trigger] Q::sample_rel(pre.proposal, pre.current_state@, post.proposal, y)
            && mh_rule(pre.target, pre.proposal, pre.current_state@, y, unif_out(state(pre.rng)), post.current_state@);
        if bad_density(val(pre.target.lp(y))) {
            lemma_mh_rejects_zero_density(pre.target, pre.proposal, pre.current_state@, y, unif_out(state(pre.rng)), post.current_state@);
        }
    }

    // ---- lemma: detailed balance of the MH kernel on reals (the textbook corollary of accept_iff
    //      under the stated assumption that u is uniform on [0,1), so P[ln u < r] = min(1, e^r)) ----
    pub open spec fn rmin(a: real, b: real) -> real { if a <= b { a } else { b } }
    /// pi_x q_xy min(1, (pi_y q_yx)/(pi_x q_xy)) == pi_y q_yx min(1, (pi_x q_xy)/(pi_y q_yx)) for positive weights
    pub proof fn lemma_detailed_balance(pix: real, piy: real, qxy: real, qyx: real)
        requires pix > 0real, piy > 0real, qxy > 0real, qyx > 0real
        ensures pix * qxy * rmin(1real, (piy * qyx) / (pix * qxy)) == piy * qyx * rmin(1real, (pix * qxy) / (piy * qyx))  // [C01.detailed_balance]
    {
        let a = pix * qxy;
        let b = piy * qyx;
        assert(a > 0real) by(nonlinear_arith) requires a == pix * qxy, pix > 0real, qxy > 0real;
        assert(b > 0real) by(nonlinear_arith) requires b == piy * qyx, piy > 0real, qyx > 0real;
        let r1 = b / a;
        let r2 = a / b;
        assert(a * r1 == b) by(nonlinear_arith) requires a > 0real, r1 == b / a;
        assert(b * r2 == a) by(nonlinear_arith) requires b > 0real, r2 == a / b;
        assert(r1 <= 1real <==> b <= a) by(nonlinear_arith) requires a > 0real, a * r1 == b;
        assert(r2 <= 1real <==> a <= b) by(nonlinear_arith) requires b > 0real, b * r2 == a;
        assert(a * 1real == a && b * 1real == b);
    }
}
} // verus!
fn main() {}
