//@unit hmc — src/hmc.rs: HMC::leapfrog, HMC::step (C02, C14, C07, C08), HMC::run / new / set_seed (C09, C07)
#![allow(unused_imports, unused_variables, dead_code, unused_mut, non_snake_case, unused_parens, unused_labels)]
use vstd::prelude::*;
verus! {
//@include prelude/float.rs
//@include prelude/rng.rs
//@include prelude/tensor.rs
//@include prelude/indicatif.rs

// loops are verified in the context of their function (facts about values bound before a loop need no restating in
// its invariant: hoisting a sub-expression out of a loop must not break the proof)
#[verifier::loop_isolation(false)]
pub mod unit_hmc {
    use super::pbar::*;
    use vstd::prelude::*;
    use vstd::std_specs::iter::IteratorSpec;
    use super::fl::*;
    use super::rng::*;
    use super::rng as rand;
    use super::tn::*;
    broadcast use super::fl::fl_axioms, super::rng::rng_axioms, super::tn::tn_axioms, super::tn::ax_tdim2;

    // R-float: `T: Float` is the abstract float
    pub type T = Fl;

    /// `BatchedGradientTarget<T, B>` — ASSUMED laws on the user's target: the batch log-density is row-wise a
    /// function `lp` of the row, the result is differentiable w.r.t. the tensor it was computed from, and
    /// burn's autodiff of it is row-wise `grad` (this is where "autodiff = true gradient" is assumed).
    pub trait BatchedGradientTarget<B: AutodiffBackend> {
        spec fn lp(&self, x: V) -> XR;
        spec fn grad(&self, x: V) -> V;
        fn unnorm_logp_batch(&self, positions: Tensor<B, 2>) -> (r: Tensor<B, 1>)
            ensures
                v1(r).len() == v2(positions).len(),
                forall |i: int| 0 <= i < v2(positions).len() ==> #[trigger] v1(r)[i] == self.lp(v2(positions)[i]),
                ad_leaf2(r) == v2(positions),
                ad_grad2(r).len() == v2(positions).len(),
                forall |i: int| 0 <= i < v2(positions).len() ==> #[trigger] ad_grad2(r)[i] == self.grad(v2(positions)[i]);
    }

    // ---- what HMC::run_progress uses of src/stats.rs (contracts proved in units trackers / progress) ----
    #[verifier::external_body]
    pub struct RunStats { _p: u8 }
    pub struct BoxDynError;
    /// the run summary is a function of the sample alone
    pub uninterp spec fn runstats_of(sample: C3) -> RunStats;
    pub struct MultiChainTracker { pub p_accept: Fl, pub n: usize }
    impl MultiChainTracker {
        #[verifier::external_body]
        pub fn new(n_chains: usize, n_params: usize) -> MultiChainTracker { unimplemented!() }
        /// Ok or Err, never a panic (unit trackers proves the Ok case exactly; nothing of it is needed here)
        #[verifier::external_body]
        pub fn step(&mut self, x: &[Fl]) -> Result<(), BoxDynError> { unimplemented!() }
        #[verifier::external_body]
        pub fn max_rhat(&self) -> Result<Fl, BoxDynError> { unimplemented!() }
        /// proved in unit progress: Ok for every backend float type, and a function of the sample only
        #[verifier::external_body]
        pub fn stats<B: Backend>(&self, sample: Tensor<B, 3>) -> (r: Result<RunStats, BoxDynError>)
            ensures r is Ok, r->Ok_0 == runstats_of(v3(sample))
        { unimplemented!() }
    }

    pub struct HMC<B: AutodiffBackend, GTarget> {
        //@fields file=src/hmc.rs name=HMC
    }

    // ---- C02: velocity Verlet and the Metropolis test, written from the statement ------------
    /// one leapfrog step: half kick, drift, half kick (h = eps/2)
    pub open spec fn verlet<B: AutodiffBackend, G: BatchedGradientTarget<B>>(t: &G, eps: XR, h: XR, x: V, p: V) -> (V, V) {
        let p1 = vadd(p, vscale(t.grad(x), h));
        let x1 = vadd(x, vscale(p1, eps));
        let p2 = vadd(p1, vscale(t.grad(x1), h));
        (x1, p2)
    }
    pub open spec fn verlet_n<B: AutodiffBackend, G: BatchedGradientTarget<B>>(t: &G, eps: XR, h: XR, x: V, p: V, n: nat) -> (V, V)
        decreases n
    {
        if n == 0 { (x, p) } else { let (x1, p1) = verlet_n::<B, G>(t, eps, h, x, p, (n - 1) as nat); verlet::<B, G>(t, eps, h, x1, p1) }
    }
    pub open spec fn half_of(eps: XR) -> XR { xr_mul(eps, XR::Fin(1real / 2real)) }
    /// kinetic energy |p|^2 / 2 and the Hamiltonian H = -log p(x) + |p|^2/2
    pub open spec fn ke(p: V) -> XR { xr_mul(vsum(vpow(p, XR::Fin(2real / 1real))), XR::Fin(1real / 2real)) }
    pub open spec fn ham<B: AutodiffBackend, G: BatchedGradientTarget<B>>(t: &G, x: V, p: V) -> XR { xr_add(xr_neg(t.lp(x)), ke(p)) }

    /// row i of the update: "ends at the unchanged position or at the point reached by exactly L leapfrog steps
    /// from (x, p), the latter exactly when ln u <= H(x,p) - H(x',p')"
    pub open spec fn row_rule<B: AutodiffBackend, G: BatchedGradientTarget<B>>(t: &G, eps: XR, l: nat, x: V, p: V, u: XR, out: V) -> bool {
        let (x1, p1) = verlet_n::<B, G>(t, eps, half_of(eps), x, p, l);
        out == (if xr_ge(xr_sub(ham::<B, G>(t, x, p), ham::<B, G>(t, x1, p1)), xr_ln(u)) { x1 } else { x })
    }
    /// every row obeys the rule for its own momentum row and acceptance draw (rows never influence one another)
    pub open spec fn step_rows<B: AutodiffBackend, G: BatchedGradientTarget<B>>(pre: HMC<B, G>, post: HMC<B, G>, pm: M, us: V) -> bool {
        &&& pm.len() == v2(pre.positions).len() && us.len() == v2(pre.positions).len()
        &&& v2(post.positions).len() == v2(pre.positions).len() && tdim2(post.positions) == tdim2(pre.positions)
        &&& forall |i: int| 0 <= i < v2(pre.positions).len() ==>
              row_rule::<B, G>(&pre.target, val(pre.step_size), pre.n_leapfrog as nat, v2(pre.positions)[i], #[trigger] pm[i], us[i], v2(post.positions)[i])
    }
    /// "for whatever momenta p and acceptance draws u a step consumes"
    pub open spec fn step_post<B: AutodiffBackend, G: BatchedGradientTarget<B>>(pre: HMC<B, G>, post: HMC<B, G>) -> bool {
        exists |pm: M, us: V| #[trigger] step_rows::<B, G>(pre, post, pm, us)
    }
    /// C07/C08: the momenta are the next n*d standard-normal draws of the sampler's own generator (row i gets draws
    /// [i*d, (i+1)*d)), the acceptance draws its next n uniforms
    pub open spec fn own_momenta(s: RngState, n: int, d: int) -> M { Seq::new(n as nat, |i: int| Seq::new(d as nat, |j: int| val(normal_out(normal_state(s, (i * d + j) as nat))))) }
    pub open spec fn own_uniforms(s: RngState, n: int) -> V { Seq::new(n as nat, |i: int| val(unif_out(unif_state(s, i as nat)))) }
    pub open spec fn step_owned<B: AutodiffBackend, G: BatchedGradientTarget<B>>(pre: HMC<B, G>, post: HMC<B, G>) -> bool {
        let n = tdim2(pre.positions).0;
        let d = tdim2(pre.positions).1;
        let s1 = normal_state(state(pre.rng), (n * d) as nat);
        &&& step_rows::<B, G>(pre, post, own_momenta(state(pre.rng), n, d), own_uniforms(s1, n))
        &&& state(post.rng) == unif_state(s1, n as nat)
    }
    // ---- C02: time reversibility of the leapfrog integrator (exact in the real model, hence "up to rounding") ----
    pub open spec fn vfin(a: V) -> bool { forall |i: int| 0 <= i < a.len() ==> (#[trigger] a[i]) is Fin }
    /// a gradient law the reversibility statement needs: finite gradients of the right length at finite points
    pub open spec fn grad_ok<B: AutodiffBackend, G: BatchedGradientTarget<B>>(t: &G, d: nat) -> bool {
        forall |x: V| #![trigger t.grad(x)] x.len() == d && vfin(x) ==> t.grad(x).len() == d && vfin(t.grad(x))
    }
    /// one leapfrog step maps finite (x, p) to finite (x', p') and is undone by one step from (x', -p')
    pub proof fn lemma_verlet_reversible<B: AutodiffBackend, G: BatchedGradientTarget<B>>(t: &G, eps: XR, h: XR, x: V, p: V)
        requires eps is Fin, h is Fin, x.len() == p.len(), vfin(x), vfin(p), grad_ok::<B, G>(t, x.len())
        ensures ({
            let (x1, p1) = verlet::<B, G>(t, eps, h, x, p);
            &&& x1.len() == x.len() && p1.len() == x.len() && vfin(x1) && vfin(p1)
            &&& verlet::<B, G>(t, eps, h, x1, vneg(p1)).0 =~= x
            &&& verlet::<B, G>(t, eps, h, x1, vneg(p1)).1 =~= vneg(p)
        })
    {
        let g0 = t.grad(x);
        let pa = vadd(p, vscale(g0, h));
        let x1 = vadd(x, vscale(pa, eps));
        assert(vfin(pa)) by { assert forall |i: int| 0 <= i < pa.len() implies (#[trigger] pa[i]) is Fin by { assert(g0[i] is Fin); } }
        assert(vfin(x1)) by { assert forall |i: int| 0 <= i < x1.len() implies (#[trigger] x1[i]) is Fin by { assert(pa[i] is Fin); } }
        let g1 = t.grad(x1);
        let p1 = vadd(pa, vscale(g1, h));
        assert(vfin(p1)) by { assert forall |i: int| 0 <= i < p1.len() implies (#[trigger] p1[i]) is Fin by { assert(g1[i] is Fin); assert(pa[i] is Fin); } }
        // backwards from (x1, -p1)
        let qa = vadd(vneg(p1), vscale(g1, h));
        assert(qa =~= vneg(pa)) by {
            assert forall |i: int| 0 <= i < qa.len() implies qa[i] == vneg(pa)[i] by { assert(g1[i] is Fin); assert(pa[i] is Fin); }
        }
        let xb = vadd(x1, vscale(qa, eps));
        assert(xb =~= x) by {
            assert forall |i: int| 0 <= i < xb.len() implies xb[i] == x[i] by {
                assert(pa[i] is Fin); assert(x[i] is Fin);
                let a = pa[i]->Fin_0; let e = eps->Fin_0;
                assert((-a) * e == -(a * e)) by(nonlinear_arith);
            }
        }
        assert(t.grad(xb) == g0);
        let qb = vadd(qa, vscale(t.grad(xb), h));
        assert(qb =~= vneg(p)) by {
            assert forall |i: int| 0 <= i < qb.len() implies qb[i] == vneg(p)[i] by { assert(g0[i] is Fin); assert(p[i] is Fin); assert(pa[i] is Fin); }
        }
    }
    /// L steps forward then L steps from (x', -p') return to (x, -p)
    pub proof fn lemma_verlet_n_reversible<B: AutodiffBackend, G: BatchedGradientTarget<B>>(t: &G, eps: XR, h: XR, x: V, p: V, n: nat)
        requires eps is Fin, h is Fin, x.len() == p.len(), vfin(x), vfin(p), grad_ok::<B, G>(t, x.len())
        ensures ({
            let (x1, p1) = verlet_n::<B, G>(t, eps, h, x, p, n);
            &&& x1.len() == x.len() && p1.len() == x.len() && vfin(x1) && vfin(p1)
            &&& verlet_n::<B, G>(t, eps, h, x1, vneg(p1), n).0 =~= x           // [C02.leapfrog_time_reversible_in_exact_arithmetic]
            &&& verlet_n::<B, G>(t, eps, h, x1, vneg(p1), n).1 =~= vneg(p)
        })
        decreases n
    {
        if n == 0 {
        } else {
            // forward: n-1 steps then one step
            let (xa, pa) = verlet_n::<B, G>(t, eps, h, x, p, (n - 1) as nat);
            lemma_verlet_n_reversible::<B, G>(t, eps, h, x, p, (n - 1) as nat);
            lemma_verlet_reversible::<B, G>(t, eps, h, xa, pa);
            let (x1, p1) = verlet::<B, G>(t, eps, h, xa, pa);
            // backward from (x1, -p1): first step returns to (xa, -pa), then n-1 steps return to (x, -p)
            lemma_verlet_n_first_step::<B, G>(t, eps, h, x1, vneg(p1), n);
            let (xb, pb) = verlet::<B, G>(t, eps, h, x1, vneg(p1));
            assert(xb =~= xa && pb =~= vneg(pa));
            assert(vneg(vneg(pa)) =~= pa) by { assert forall |i: int| 0 <= i < pa.len() implies vneg(vneg(pa))[i] == pa[i] by { assert(pa[i] is Fin); } }
        }
    }
    /// verlet_n unfolds at the front as well: n steps = one step followed by n-1 steps
    pub proof fn lemma_verlet_n_first_step<B: AutodiffBackend, G: BatchedGradientTarget<B>>(t: &G, eps: XR, h: XR, x: V, p: V, n: nat)
        requires n >= 1
        ensures ({ let (x1, p1) = verlet::<B, G>(t, eps, h, x, p); verlet_n::<B, G>(t, eps, h, x, p, n) == verlet_n::<B, G>(t, eps, h, x1, p1, (n - 1) as nat) })
        decreases n
    {
        reveal_with_fuel(verlet_n, 3);
        let (x1, p1) = verlet::<B, G>(t, eps, h, x, p);
        if n > 1 {
            lemma_verlet_n_first_step::<B, G>(t, eps, h, x, p, (n - 1) as nat);
            let a = verlet_n::<B, G>(t, eps, h, x, p, (n - 1) as nat);
            let b = verlet_n::<B, G>(t, eps, h, x1, p1, (n - 2) as nat);
            assert(a == b);
            assert(verlet_n::<B, G>(t, eps, h, x, p, n) == verlet::<B, G>(t, eps, h, a.0, a.1));
            assert(verlet_n::<B, G>(t, eps, h, x1, p1, (n - 1) as nat) == verlet::<B, G>(t, eps, h, b.0, b.1));
        } else {
            assert(verlet_n::<B, G>(t, eps, h, x, p, 0) == (x, p));
            assert(verlet_n::<B, G>(t, eps, h, x1, p1, 0) == (x1, p1));
        }
    }

    // ---- C14: a trajectory ending at zero / undefined density is rejected (acceptance draws equal to exactly 0 excepted) ----
    pub open spec fn bad_density(a: XR) -> bool { a is NaN || a is NegInf }
    pub proof fn lemma_hmc_row_rejects_zero_density<B: AutodiffBackend, G: BatchedGradientTarget<B>>(t: &G, eps: XR, l: nat, x: V, p: V, u: XR, out: V)
        requires
            row_rule::<B, G>(t, eps, l, x, p, u, out),
            bad_density(t.lp(verlet_n::<B, G>(t, eps, half_of(eps), x, p, l).0)),      // the end point has log-density -inf or NaN (divergent trajectory, NaN gradient, ...)
            u is Fin && u->Fin_0 > 0real,                                                // acceptance draw not exactly 0
        ensures out == x                                                                 // [C14.hmc_rejects_zero_or_nan_density_endpoint]
    {
        let (x1, p1) = verlet_n::<B, G>(t, eps, half_of(eps), x, p, l);
        let h1 = ham::<B, G>(t, x1, p1);
        assert(h1 is NaN || h1 is PosInf);
        assert(xr_ln(u) is Fin);
    }

    // ---- C09 for HMC::run: existential history of sampler values linked by the step contract ----
    pub open spec fn hmc_hist_ok<B: AutodiffBackend, G: BatchedGradientTarget<B>>(h: Seq<HMC<B, G>>, first: HMC<B, G>, last: HMC<B, G>, total: int) -> bool {
        &&& h.len() == total + 1 && h[0] == first && h[total] == last
        &&& forall |i: int| 0 <= i < total ==> #[trigger] step_post::<B, G>(h[i], h[i + 1])
    }
    /// out is [n_chains, n_collect, dim]; entry k of row c is chain c's position after n_discard + k + 1 transitions
    pub open spec fn hmc_run_post<B: AutodiffBackend, G: BatchedGradientTarget<B>>(pre: HMC<B, G>, post: HMC<B, G>, out: C3, n_collect: int, n_discard: int) -> bool {
        exists |h: Seq<HMC<B, G>>| #[trigger] hmc_hist_ok::<B, G>(h, pre, post, n_collect + n_discard)
            && (n_collect > 0 ==> out.len() == tdim2(pre.positions).0)
            && forall |c: int, k: int| 0 <= c < tdim2(pre.positions).0 && 0 <= k < n_collect ==> (#[trigger] out[c][k]) == v2(h[n_discard + k + 1].positions)[c]
    }
    /// C09 for HMC: two consecutive runs (the second without burn-in) satisfy, row-wise concatenated, the contract of one longer run
    pub proof fn lemma_hmc_two_runs_are_one_longer_run<B: AutodiffBackend, G: BatchedGradientTarget<B>>(a: HMC<B, G>, b: HMC<B, G>, c: HMC<B, G>, o1: C3, o2: C3, n1: int, d: int, n2: int)
        requires n1 >= 1, d >= 0, n2 >= 1, hmc_run_post::<B, G>(a, b, o1, n1, d), hmc_run_post::<B, G>(b, c, o2, n2, 0), tdim2(b.positions).0 == tdim2(a.positions).0,
            forall |r: int| 0 <= r < tdim2(a.positions).0 ==> (#[trigger] o1[r]).len() == n1 && o2[r].len() == n2,
        ensures hmc_run_post::<B, G>(a, c, Seq::new(o1.len(), |r: int| o1[r] + o2[r]), n1 + n2, d)      // [C09.hmc_two_consecutive_runs_equal_one_longer_run]
    {
        let nc = tdim2(a.positions).0;
        let h1 = choose |h: Seq<HMC<B, G>>| #[trigger] hmc_hist_ok::<B, G>(h, a, b, n1 + d) && (n1 > 0 ==> o1.len() == nc)
            && forall |cc: int, k: int| 0 <= cc < nc && 0 <= k < n1 ==> (#[trigger] o1[cc][k]) == v2(h[d + k + 1].positions)[cc];
        let h2 = choose |h: Seq<HMC<B, G>>| #[trigger] hmc_hist_ok::<B, G>(h, b, c, n2 + 0) && (n2 > 0 ==> o2.len() == tdim2(b.positions).0)
            && forall |cc: int, k: int| 0 <= cc < tdim2(b.positions).0 && 0 <= k < n2 ==> (#[trigger] o2[cc][k]) == v2(h[0 + k + 1].positions)[cc];
        let h = h1 + h2.subrange(1, n2 + 1);
        let t1 = n1 + d;
        assert(h.len() == t1 + n2 + 1);
        assert forall |i: int| 0 <= i < t1 + n2 implies #[trigger] step_post::<B, G>(h[i], h[i + 1]) by {
            if i < t1 { assert(h[i] == h1[i] && h[i + 1] == h1[i + 1]); }
            else if i == t1 { assert(h[i] == h1[t1] && h1[t1] == b && h2[0] == b && h[i + 1] == h2[1]); assert(step_post::<B, G>(h2[0int], h2[0int + 1])); }
            else { let j = i - t1; assert(h[i] == h2[j] && h[i + 1] == h2[j + 1]); assert(step_post::<B, G>(h2[j], h2[j + 1])); }
        }
        assert(h[0] == a && h[t1 + n2] == h2[n2]);
        assert(hmc_hist_ok::<B, G>(h, a, c, (n1 + n2) + d));
        let o = Seq::new(o1.len(), |r: int| o1[r] + o2[r]);
        assert forall |cc: int, k: int| 0 <= cc < nc && 0 <= k < n1 + n2 implies (#[trigger] o[cc][k]) == v2(h[d + k + 1].positions)[cc] by {
            if k < n1 { assert(o[cc][k] == o1[cc][k]); assert(h[d + k + 1] == h1[d + k + 1]); }
            else { let k2 = k - n1; assert(o[cc][k] == o2[cc][k2]); assert(h[d + k + 1] == h2[k2 + 1]); }
        }
    }
    pub proof fn lemma_row_major_index(i: int, j: int, n: int, d: int)
        requires 0 <= i < n, 0 <= j < d
        ensures 0 <= i * d + j < n * d
    {
        assert(i * d + j < n * d) by(nonlinear_arith) requires 0 <= i < n, 0 <= j < d;
        assert(0 <= i * d) by(nonlinear_arith) requires 0 <= i, 0 <= d;
    }
    pub proof fn lemma_normal_seq_index(s: RngState, n: nat, k: int)
        requires 0 <= k < n
        ensures normal_seq(s, n).len() == n, normal_seq(s, n)[k] == normal_out(normal_state(s, k as nat))
        decreases n
    {
        if n > 0 {
            lemma_normal_seq_len(s, (n - 1) as nat);
            if k < n - 1 { lemma_normal_seq_index(s, (n - 1) as nat, k); }
        }
    }
    pub proof fn lemma_normal_seq_len(s: RngState, n: nat)
        ensures normal_seq(s, n).len() == n
        decreases n
    {
        if n > 0 { lemma_normal_seq_len(s, (n - 1) as nat); }
    }
    /// C08: rows of the momentum matrix consume disjoint draws of the one stream (row i: draws [i*d, (i+1)*d))
    pub proof fn lemma_rows_use_disjoint_draws(i: int, j: int, k: int, l: int, d: int)
        requires 0 <= i, 0 <= k, i != k, 0 <= j < d, 0 <= l < d
        ensures i * d + j != k * d + l          // [C08.hmc_rows_use_disjoint_draws]
    {
        if i < k {
            assert(i * d + j < k * d) by(nonlinear_arith) requires 0 <= i < k, 0 <= j < d;
        } else {
            assert(k * d + l < i * d) by(nonlinear_arith) requires 0 <= k < i, 0 <= l < d;
        }
    }
    pub proof fn lemma_verlet_len<B: AutodiffBackend, G: BatchedGradientTarget<B>>(t: &G, eps: XR, h: XR, x: V, p: V, n: nat)
        ensures verlet_n::<B, G>(t, eps, h, x, p, n).0.len() == x.len()
        decreases n
    {
        if n > 0 { lemma_verlet_len::<B, G>(t, eps, h, x, p, (n - 1) as nat); }
    }

    impl<B: AutodiffBackend, GTarget: BatchedGradientTarget<B>> HMC<B, GTarget> {
        pub fn step(&mut self)
            ensures
                step_post::<B, GTarget>(*old(self), *final(self)),                                                                  // [C02.row_rule_L_leapfrog_steps_then_metropolis_test_on_H]
                final(self).target == old(self).target, final(self).step_size == old(self).step_size, final(self).n_leapfrog == old(self).n_leapfrog,   // [C02.step_frame]
                tdim2(final(self).positions) == tdim2(old(self).positions),
                step_owned::<B, GTarget>(*old(self), *final(self)),                                                                 // [C07.hmc_draws_come_from_the_samplers_own_generator]
        //@body id=hmc_step file=src/hmc.rs impl_self=HMC name=step props=C02,C14,C07,C08
        //@sig fn step (& mut self)
        //@rules R-lit R-sampleiter R-wild
        //@outtype uniform_data Vec<T>
        //@anchor s0 scope=fn pos=start
        //@| let ghost s0 = state(self.rng);
        //@anchor m0 scope=fn pos=after match="^let momentum_data"
        //@| proof { lemma_normal_seq_len(s0, (n_chains * dim) as nat); }
        //@anchor a0 scope=fn pos=after match="^let momentum_0 ="
        //@| let ghost pm = v2(momentum_0);
        //@| let ghost x0 = v2(self.positions);
        //@| let ghost s1 = state(self.rng);
        //@| proof {
        //@|     let nn = n_chains as int; let dd = dim as int;
        //@|     assert(tdim2(self.positions) == (nn, dd));
        //@|     assert forall |i: int, j: int| 0 <= i < nn && 0 <= j < dd implies (#[trigger] pm[i][j]) == own_momenta(s0, nn, dd)[i][j] by {
        //@|         lemma_row_major_index(i, j, nn, dd);
        //@|         lemma_normal_seq_index(s0, (nn * dd) as nat, i * dd + j);
        //@|     }
        //@|     assert(pm =~~= own_momenta(s0, nn, dd));
        //@| }
        //@anchor a1 scope=fn pos=after match="^self \\. last_grad_summands = grad_summands"
        //@| let ghost eps = val(self.step_size);
        //@| let ghost hh = half_of(eps);
        //@| let ghost n = x0.len();
        //@| proof {
        //@|     assert(v2(pos) == x0);
        //@|     assert forall |i: int| 0 <= i < n implies #[trigger] v2(self.last_grad_summands)[i] == vscale(self.target.grad(x0[i]), hh) by {
        //@|         assert(ad_grad2(logp_current)[i] == self.target.grad(x0[i]));
        //@|     }
        //@| }
        //@anchor a2 scope=fn pos=after match="^let \\(proposed_positions"
        //@| let ghost x1 = v2(proposed_positions);
        //@| let ghost p1 = v2(proposed_momenta);
        //@anchor a3 scope=fn pos=after match="^let mut uniform_data"
        //@| let ghost mid = *self;
        //@loop 1 iter=it
        //@| invariant
        //@|     it.iter.end == n_chains, state(mid.rng) == s1,
        //@|     self.positions == mid.positions, self.target == mid.target, self.step_size == mid.step_size,
        //@|     self.n_leapfrog == mid.n_leapfrog, self.last_grad_summands == mid.last_grad_summands,
        //@|     uniform_data@.len() == __vx_i1, state(self.rng) == unif_state(s1, __vx_i1 as nat),
        //@|     forall |k: int| 0 <= k < __vx_i1 ==> (#[trigger] uniform_data@[k]) == unif_out(unif_state(s1, k as nat)),
        //@anchor a4 scope=fn pos=after match="^let uniform ="
        //@| let ghost us = v1(uniform);
        //@| proof { assert(us =~= own_uniforms(s1, n_chains as int)); }
        //@anchor a5 scope=fn pos=after match="^let accept_mask ="
        //@| proof {
        //@|     assert(v1(h_current).len() == n);
        //@|     assert(b1(accept_mask).len() == n);
        //@|     assert(n == n_chains);
        //@| }
        //@closure 1 params="x: Tensor<B, 2>" ret="(r: Tensor<B, 2>)"
        //@| requires v2(x).len() == b2(accept_mask_big).len(), v2(proposed_positions).len() == b2(accept_mask_big).len()
        //@| ensures v2(r).len() == v2(x).len(), tdim2(r) == tdim2(x),
        //@|     forall |i: int| 0 <= i < v2(x).len() ==> (#[trigger] v2(r)[i]).len() == v2(x)[i].len(),
        //@|     forall |i: int, j: int| 0 <= i < v2(x).len() && 0 <= j < v2(x)[i].len() ==> #[trigger] v2(r)[i][j] == (if b2(accept_mask_big)[i][j] { v2(proposed_positions)[i][j] } else { v2(x)[i][j] })
        //@anchor a6 scope=fn pos=end
        //@| proof {
        //@|     let post = *self;
        //@|     assert forall |i: int| 0 <= i < n implies
        //@|         row_rule::<B, GTarget>(&old(self).target, eps, old(self).n_leapfrog as nat, x0[i], #[trigger] pm[i], us[i], v2(post.positions)[i]) by {
        //@|         let (xa, pa) = verlet_n::<B, GTarget>(&old(self).target, eps, hh, x0[i], pm[i], old(self).n_leapfrog as nat);
        //@|         assert(xa == x1[i] && pa == p1[i]);
        //@|         lemma_verlet_len::<B, GTarget>(&old(self).target, eps, hh, x0[i], pm[i], old(self).n_leapfrog as nat);
        //@|         assert(x0[i].len() == dim);
        //@|         assert(v1(h_current)[i] == ham::<B, GTarget>(&old(self).target, x0[i], pm[i]));
        //@|         assert(v1(h_proposed)[i] == ham::<B, GTarget>(&old(self).target, x1[i], p1[i]));
        //@|         assert(b1(accept_mask)[i] == xr_ge(xr_sub(v1(h_current)[i], v1(h_proposed)[i]), xr_ln(us[i])));
        //@|         assert(v2(post.positions)[i] =~= (if b1(accept_mask)[i] { x1[i] } else { x0[i] }));
        //@|     }
        //@|     assert(step_rows::<B, GTarget>(*old(self), post, pm, us));
        //@| }
        //@end

        pub fn new(target: GTarget, initial_positions: Vec<Vec<T>>, step_size: T, n_leapfrog: usize) -> (r: Self)
            requires initial_positions@.len() >= 1,
                forall |c: int| 0 <= c < initial_positions@.len() ==> (#[trigger] initial_positions@[c])@.len() == initial_positions@[0]@.len(),
                initial_positions@.len() * initial_positions@[0]@.len() <= usize::MAX,
            ensures
                tdim2(r.positions) == (initial_positions@.len() as int, initial_positions@[0]@.len() as int),                             // [C09.hmc_new_shape]
                forall |c: int| 0 <= c < initial_positions@.len() ==> (#[trigger] v2(r.positions)[c]) == xrs(initial_positions@[c]@),      // [C09.hmc_new_row_c_is_state_c]
                r.target == target && r.step_size == step_size && r.n_leapfrog == n_leapfrog,
        //@body id=hmc_new file=src/hmc.rs impl_self=HMC name=new props=C09
        //@sig fn new (target : GTarget , initial_positions : Vec < Vec < T > > , step_size : T , n_leapfrog : usize ,) -> Self
        //@rules R-flatten
        //@outtype __vx_out1 Vec<T>
        //@anchor i0 scope=fn pos=after match="^let \\(n_chains , dim\\)"
        //@| let ghost init0 = initial_positions@;
        //@| let ghost dd = dim as int;
        //@loop 1 iter=it
        //@| invariant
        //@|     it.history@ + it.iter.remaining() == init0, dd == dim,
        //@|     forall |c: int| 0 <= c < init0.len() ==> (#[trigger] init0[c])@.len() == dd,
        //@|     __vx_out1@.len() == it.history@.len() * dd,
        //@|     forall |i: int, j: int| 0 <= i < it.history@.len() && 0 <= j < dd ==> __vx_out1@[i * dd + j] == (#[trigger] init0[i]@[j]),
        //@anchor r0 scope=loop:1 pos=start
        //@| let ghost i0 = __vx_out1@.len() as int;
        //@| let ghost row0 = __vx_row1@;
        //@| let ghost flat0 = __vx_out1@;
        //@| let ghost ri = it.history@.len() as int;
        //@| proof { assert(row0 == init0[ri]@); }
        //@loop 2 iter=it2
        //@| invariant
        //@|     it2.history@ + it2.iter.remaining() == row0, row0.len() == dd, i0 == ri * dd, flat0.len() == i0,
        //@|     __vx_out1@.len() == i0 + it2.history@.len(),
        //@|     forall |k: int| 0 <= k < i0 ==> (#[trigger] __vx_out1@[k]) == flat0[k],
        //@|     forall |j: int| 0 <= j < it2.history@.len() ==> (#[trigger] __vx_out1@[i0 + j]) == row0[j],
        //@anchor r1 scope=loop:1 pos=end
        //@| proof {
        //@|     assert((ri + 1) * dd == ri * dd + dd) by(nonlinear_arith);
        //@|     assert forall |i: int, j: int| 0 <= i < ri + 1 && 0 <= j < dd implies __vx_out1@[i * dd + j] == (#[trigger] init0[i]@[j]) by {
        //@|         if i < ri { lemma_row_major_index(i, j, ri, dd); assert(__vx_out1@[i * dd + j] == flat0[i * dd + j]); }
        //@|         else { assert(i * dd + j == i0 + j); }
        //@|     }
        //@| }
        //@anchor f0 scope=fn pos=after match="^let positions ="
        //@| proof {
        //@|     assert forall |c: int| 0 <= c < init0.len() implies (#[trigger] v2(positions)[c]) == xrs(init0[c]@) by {
        //@|         assert forall |j: int| 0 <= j < dd implies v2(positions)[c][j] == xrs(init0[c]@)[j] by {
        //@|             lemma_row_major_index(c, j, init0.len() as int, dd);
        //@|             assert(v2(positions)[c][j] == val(td.flat[c * dd + j]));
        //@|         }
        //@|         assert(v2(positions)[c] =~= xrs(init0[c]@));
        //@|     }
        //@| }
        //@end

        pub fn set_seed(self, seed: u64) -> (r: Self)
            ensures state(r.rng) == seeded(seed),                                                                       // [C07.hmc_set_seed_determines_the_stream]
                r.positions == self.positions && r.target == self.target && r.step_size == self.step_size && r.n_leapfrog == self.n_leapfrog && r.last_grad_summands == self.last_grad_summands,
        //@body id=hmc_set_seed file=src/hmc.rs impl_self=HMC name=set_seed props=C07
        //@sig fn set_seed (mut self , seed : u64) -> Self
        //@rules R-mutself
        //@end

        pub fn run(&mut self, n_collect: usize, n_discard: usize) -> (out: Tensor<B, 3>)
            requires n_collect + n_discard <= usize::MAX, n_collect < usize::MAX
            ensures
                hmc_run_post::<B, GTarget>(*old(self), *final(self), v3(out), n_collect as int, n_discard as int),     // [C09.hmc_run_rows_count_left_at_last]
        //@body id=hmc_run file=src/hmc.rs impl_self=HMC name=run props=C09
        //@sig fn run (& mut self , n_collect : usize , n_discard : usize) -> Tensor < B , 3 >
        //@rules R-foreach
        //@anchor h0 scope=fn pos=after match="^let mut out ="
        //@| let ghost mut h: Seq<HMC<B, GTarget>> = seq![*self];
        //@| let ghost nn = n_chains as int;
        //@| let ghost dd = dim as int;
        //@loop 1 iter=it
        //@| invariant
        //@|     it.iter.end == n_discard, tdim2(self.positions) == (nn, dd),
        //@|     hmc_hist_ok::<B, GTarget>(h, *old(self), *self, __vx_i1 as int),
        //@|     rect3(v3(out), n_collect as int, nn, dd),
        //@anchor p1 scope=loop:1 pos=end
        //@| proof { h = h.push(*self); }
        //@loop 2 iter=it2
        //@| invariant
        //@|     it2.iter.end == n_collect + 1, 1 <= step, tdim2(self.positions) == (nn, dd), n_collect + n_discard <= usize::MAX, nn == n_chains, dd == dim,
        //@|     hmc_hist_ok::<B, GTarget>(h, *old(self), *self, n_discard + step - 1),
        //@|     rect3(v3(out), n_collect as int, nn, dd),
        //@|     forall |k: int| 0 <= k < step - 1 ==> (#[trigger] v3(out)[k]) == v2(h[n_discard + k + 1].positions),
        //@closure 1 params="_out: Tensor<B, 3>" ret="(r: Tensor<B, 3>)"
        //@| requires rect3(v3(_out), n_collect as int, nn, dd), step <= n_collect, tdim2(self.positions) == (nn, dd), n_chains == nn, dim == dd
        //@| ensures v3(r) == v3(_out).update(step - 1, v2(self.positions))
        //@anchor p2 scope=loop:2 pos=after match="^self \\. step \\(\\)"
        //@| proof { h = h.push(*self); }
        //@| proof {
        //@|     assert(step <= n_collect);
        //@|     assert(tdim2(self.positions) == (nn, dd));
        //@|     assert(rect3(v3(out), n_collect as int, nn, dd));
        //@|     assert(n_chains == nn && dim == dd);
        //@| }
        //@anchor fin scope=fn pos=end
        //@| proof {
        //@|     assert(hmc_hist_ok::<B, GTarget>(h, *old(self), *self, n_collect + n_discard));
        //@| }
        //@end

        pub fn run_progress(&mut self, n_collect: usize, n_discard: usize) -> (res: Result<(Tensor<B, 3>, RunStats), BoxDynError>)
            requires n_collect + n_discard <= usize::MAX, n_collect < usize::MAX
            ensures
                res is Ok,                                                                                                  // [C10.hmc_run_progress_succeeds_for_every_scalar_and_backend_float_type]
                hmc_run_post::<B, GTarget>(*old(self), *final(self), v3(res->Ok_0.0), n_collect as int, n_discard as int),  // [C10.hmc_run_progress_returns_the_draws_run_returns]
                res->Ok_0.1 == runstats_of(v3(res->Ok_0.0)),                                                                // [C10.hmc_run_progress_stats_are_those_of_the_returned_draws]
        //@body id=hmc_run_progress file=src/hmc.rs impl_self=HMC name=run_progress props=C10
        //@sig fn run_progress (& mut self , n_collect : usize , n_discard : usize ,) -> Result < (Tensor < B , 3 > , RunStats) , Box < dyn Error > >
        //@rules R-foreach R-fmt R-dynerr R-cast
        //@anchor h0 scope=fn pos=start
        //@| let ghost mut h: Seq<HMC<B, GTarget>> = seq![*self];
        //@| let ghost nn = tdim2(self.positions).0;
        //@| let ghost dd = tdim2(self.positions).1;
        //@loop 1 iter=it
        //@| invariant
        //@|     it.iter.end == n_discard, tdim2(self.positions) == (nn, dd),
        //@|     hmc_hist_ok::<B, GTarget>(h, *old(self), *self, __vx_i1 as int),
        //@anchor p1 scope=loop:1 pos=end
        //@| proof { h = h.push(*self); }
        //@loop 2 iter=it2
        //@| invariant
        //@|     it2.iter.end == n_collect, tdim2(self.positions) == (nn, dd), n_collect + n_discard <= usize::MAX, nn == n_chains, dd == dim,
        //@|     hmc_hist_ok::<B, GTarget>(h, *old(self), *self, n_discard + i),
        //@|     rect3(v3(out), n_collect as int, nn, dd),
        //@|     forall |k: int| 0 <= k < i ==> (#[trigger] v3(out)[k]) == v2(h[n_discard + k + 1].positions),
        //@closure 1 params="_out: Tensor<B, 3>" ret="(r: Tensor<B, 3>)"
        //@| requires rect3(v3(_out), n_collect as int, nn, dd), i < n_collect, tdim2(current_state) == (nn, dd), n_chains == nn, dim == dd
        //@| ensures v3(r) == v3(_out).update(i as int, v2(current_state))
        //@anchor p2 scope=loop:2 pos=after match="^self \\. step \\(\\)"
        //@| proof { h = h.push(*self); }
        //@anchor fin scope=fn pos=before match="^let sample ="
        //@| proof {
        //@|     assert(hmc_hist_ok::<B, GTarget>(h, *old(self), *self, n_collect + n_discard));
        //@| }
        //@end

        fn leapfrog(&mut self, mut pos: Tensor<B, 2>, mut mom: Tensor<B, 2>) -> (out: (Tensor<B, 2>, Tensor<B, 2>, Tensor<B, 1>))
            requires
                v2(pos).len() == v2(mom).len(),
                v2(old(self).last_grad_summands).len() == v2(pos).len(),
                forall |i: int| 0 <= i < v2(pos).len() ==> #[trigger] v2(old(self).last_grad_summands)[i]
                    == vscale(old(self).target.grad(v2(pos)[i]), half_of(val(old(self).step_size))),
            ensures
                v2(out.0).len() == v2(pos).len(), v2(out.1).len() == v2(pos).len(), v1(out.2).len() == v2(pos).len(),
                forall |i: int| 0 <= i < v2(pos).len() ==> (#[trigger] v2(out.0)[i], v2(out.1)[i])
                    == verlet_n::<B, GTarget>(&old(self).target, val(old(self).step_size), half_of(val(old(self).step_size)), v2(pos)[i], v2(mom)[i], old(self).n_leapfrog as nat),   // [C02.leapfrog_is_L_verlet_steps]
                forall |i: int| 0 <= i < v2(pos).len() ==> #[trigger] v1(out.2)[i] == old(self).target.lp(v2(out.0)[i]),     // [C02.leapfrog_returns_logp_at_endpoint]
                final(self).target == old(self).target, final(self).step_size == old(self).step_size, final(self).n_leapfrog == old(self).n_leapfrog,
                final(self).positions == old(self).positions, final(self).rng == old(self).rng,                                // [C02.leapfrog_frame]
        //@body id=hmc_leapfrog file=src/hmc.rs impl_self=HMC name=leapfrog props=C02,C14
        //@sig fn leapfrog (& mut self , mut pos : Tensor < B , 2 > , mut mom : Tensor < B , 2 > ,) -> (Tensor < B , 2 > , Tensor < B , 2 > , Tensor < B , 1 >)
        //@rules R-lit
        //@anchor g0 scope=fn pos=after match="^let half ="
        //@| let ghost pos0 = v2(pos);
        //@| let ghost mom0 = v2(mom);
        //@| let ghost n = v2(pos).len();
        //@| let ghost eps = val(self.step_size);
        //@| let ghost h = half_of(val(self.step_size));
        //@loop 1 iter=it
        //@| invariant
        //@|     it.iter.end == old(self).n_leapfrog,
        //@|     self.target == old(self).target, self.step_size == old(self).step_size, self.n_leapfrog == old(self).n_leapfrog,
        //@|     self.positions == old(self).positions, self.rng == old(self).rng,
        //@|     val(half) == XR::Fin(1real / 2real), eps == val(self.step_size), h == half_of(val(self.step_size)),
        //@|     v2(pos).len() == n, v2(mom).len() == n, v2(self.last_grad_summands).len() == n, pos0.len() == n, mom0.len() == n,
        //@|     forall |i: int| 0 <= i < n ==> (#[trigger] v2(pos)[i], v2(mom)[i]) == verlet_n::<B, GTarget>(&self.target, eps, h, pos0[i], mom0[i], _step_i as nat),
        //@|     forall |i: int| 0 <= i < n ==> #[trigger] v2(self.last_grad_summands)[i] == vscale(self.target.grad(v2(pos)[i]), h),
        //@anchor l0 scope=loop:1 pos=start
        //@| let ghost pos_in = v2(pos);
        //@| let ghost mom_in = v2(mom);
        //@| let ghost lgs_in = self.last_grad_summands;
        //@closure 1 params="_mom: Tensor<B, 2>" ret="(r: Tensor<B, 2>)"
        //@| ensures v2(r) == madd(v2(_mom), v2(self.last_grad_summands))
        //@closure 2 params="_pos: Tensor<B, 2>" ret="(r: Tensor<B, 2>)"
        //@| ensures v2(r) == madd(v2(_pos), mscale(v2(mom), val(self.step_size)))
        //@closure 3 params="_mom: Tensor<B, 2>" ret="(r: Tensor<B, 2>)"
        //@| ensures v2(r) == madd(v2(_mom), v2(grad_summands))
        //@anchor l1 scope=loop:1 pos=after match="^let grad_summands ="
        //@| let ghost grads_s = grad_summands;
        //@| proof {
        //@|     assert(ad_leaf2(logp) == v2(pos));
        //@|     assert(v2(grad_summands) == mscale(ad_grad2(logp), xr_mul(val(self.step_size), val(half))));
        //@|     assert forall |i: int| 0 <= i < n implies #[trigger] v2(grad_summands)[i] == vscale(self.target.grad(v2(pos)[i]), h) by {
        //@|         assert(ad_grad2(logp)[i] == self.target.grad(v2(pos)[i]));
        //@|     }
        //@| }
        //@anchor l2 scope=loop:1 pos=end
        //@| proof {
        //@|     assert forall |i: int| 0 <= i < n implies (#[trigger] v2(pos)[i], v2(mom)[i]) == verlet_n::<B, GTarget>(&self.target, eps, h, pos0[i], mom0[i], (_step_i + 1) as nat) by {
        //@|         let prev = verlet_n::<B, GTarget>(&self.target, eps, h, pos0[i], mom0[i], _step_i as nat);
        //@|         assert(prev == (pos_in[i], mom_in[i]));
        //@|         assert(v2(lgs_in)[i] == vscale(self.target.grad(pos_in[i]), h));
        //@|         assert(v2(grads_s)[i] == vscale(self.target.grad(v2(pos)[i]), h));
        //@|     }
        //@|     assert forall |i: int| 0 <= i < n implies #[trigger] v2(self.last_grad_summands)[i] == vscale(self.target.grad(v2(pos)[i]), h) by {
        //@|         assert(v2(grads_s)[i] == vscale(self.target.grad(v2(pos)[i]), h));
        //@|     }
        //@| }
        //@end
    }
}
} // verus!
fn main() {}
