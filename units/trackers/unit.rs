//@unit trackers — src/stats.rs: ChainTracker, collect_rhat, withinvar_from_cs, MultiChainTracker (C13)
#![allow(unused_imports, unused_variables, dead_code, unused_mut, non_snake_case, unused_parens, unused_labels)]
use vstd::prelude::*;
verus! {
//@include prelude/float.rs
//@include prelude/ndarray.rs
//@include prelude/ndfloat.rs
//@include prelude/ndtrack.rs

// loops are verified in the context of their function (facts about values bound before a loop need no restating in
// its invariant: hoisting a sub-expression out of a loop must not break the proof)
#[verifier::loop_isolation(false)]
pub mod unit_trackers {
    use vstd::prelude::*;
    use vstd::std_specs::iter::IteratorSpec;
    use super::fl::*;
    use super::nd::*;
    use super::ndf::*;
    use super::ndt::*;
    use super::ndt as ndarray;
    broadcast use super::fl::fl_axioms, super::ndf::ndf_axioms, super::ndt::ndt_axioms, super::ndt::ax_mk_ad, super::ndt::ax_odim2_mk, super::ndt::ax_gdim2_fl, super::ndt::ax_zero_fl;

    pub struct ChainStats {
        //@fields file=src/stats.rs name=ChainStats rules=R-f64
    }

    // ---- C13: R-hat from per-chain summaries, written from the statement ----------------------
    /// rows = chains: the per-chain means / unbiased variances
    pub open spec fn cs_means(cs: Seq<&ChainStats>) -> Seq<Seq<Fl>> { Seq::new(cs.len(), |m: int| a1(cs[m].mean)) }
    pub open spec fn cs_sm2s(cs: Seq<&ChainStats>) -> Seq<Seq<Fl>> { Seq::new(cs.len(), |m: int| a1(cs[m].sm2)) }
    pub open spec fn nsum(cs: Seq<&ChainStats>, k: int) -> real decreases k { if k <= 0 { 0real } else { nsum(cs, k - 1) + cs[k - 1].n as real } }
    /// column sum of squared deviations from c over the first k rows
    pub open spec fn cssd(m: Seq<Seq<Fl>>, c: real, p: int, k: int) -> real decreases k {
        if k <= 0 { 0real } else { cssd(m, c, p, k - 1) + (rv(m[k - 1][p]) - c) * (rv(m[k - 1][p]) - c) }
    }
    /// W_p = mean over chains of the within-chain variance
    pub open spec fn cs_within(cs: Seq<&ChainStats>, p: int) -> real { csum(cs_sm2s(cs), p, cs.len() as int) / (cs.len() as real) }
    /// B_p / n = sum_m (mean_m[p] - grand mean)^2 / (M - 1)   — the divisor is the number of chains minus one
    pub open spec fn cs_between_over_n(cs: Seq<&ChainStats>, p: int) -> real {
        let g = csum(cs_means(cs), p, cs.len() as int) / (cs.len() as real);
        cssd(cs_means(cs), g, p, cs.len() as int) / ((cs.len() - 1) as real)
    }
    /// var+_p = (n-1)/n W_p + B_p/n with n the mean number of draws per chain
    pub open spec fn cs_var_plus(cs: Seq<&ChainStats>, p: int) -> real {
        let n = nsum(cs, cs.len() as int) / (cs.len() as real);
        cs_between_over_n(cs, p) + cs_within(cs, p) * ((n - 1real) / n)
    }
    pub open spec fn cs_ok(cs: Seq<&ChainStats>, np: int) -> bool {
        &&& cs.len() >= 2 && np >= 1
        &&& forall |m: int| 0 <= m < cs.len() ==> a1((#[trigger] cs[m]).mean).len() == np && a1(cs[m].sm2).len() == np && fin1(a1(cs[m].mean)) && fin1(a1(cs[m].sm2)) && cs[m].n >= 2
    }

    pub proof fn lemma_csum_sq_is_cssd(d: Seq<Seq<Fl>>, sq: Seq<Seq<Fl>>, m: Seq<Seq<Fl>>, g: real, p: int, k: int)
        requires 0 <= k <= m.len(), d.len() == m.len(), sq.len() == m.len(), fin2(m),
            0 <= p,
            forall |i: int| 0 <= i < m.len() ==> p < (#[trigger] m[i]).len(),
            forall |i: int| 0 <= i < m.len() ==> p < (#[trigger] d[i]).len(),
            forall |i: int| 0 <= i < m.len() ==> p < (#[trigger] sq[i]).len(),
            forall |i: int| 0 <= i < m.len() ==> (#[trigger] d[i])[p] == fl(rv(m[i][p]) - g),
            forall |i: int| 0 <= i < m.len() ==> (#[trigger] sq[i])[p] == fl(rv(d[i][p]) * rv(d[i][p])),
        ensures csum(sq, p, k) == cssd(m, g, p, k)
        decreases k
    {
        broadcast use ax_val_mk;
        if k > 0 {
            lemma_csum_sq_is_cssd(d, sq, m, g, p, k - 1);
            assert(sq[k - 1][p] == fl(rv(d[k - 1][p]) * rv(d[k - 1][p])));
            assert(d[k - 1][p] == fl(rv(m[k - 1][p]) - g));
        }
    }

    pub proof fn lemma_nsum_lower(cs: Seq<&ChainStats>, k: int)
        requires 0 <= k <= cs.len(), forall |m: int| 0 <= m < cs.len() ==> (#[trigger] cs[m]).n >= 2
        ensures nsum(cs, k) >= 2real * (k as real)
        decreases k
    {
        if k > 0 { lemma_nsum_lower(cs, k - 1); }
    }

    fn withinvar_from_cs(chain_stats: &[&ChainStats]) -> (r: (Array1<Fl>, Array1<Fl>))
        requires cs_ok(chain_stats@, a1(chain_stats@[0].mean).len() as int)
        ensures
            a1(r.0).len() == a1(chain_stats@[0].mean).len() && a1(r.1).len() == a1(chain_stats@[0].mean).len(),
            forall |p: int| 0 <= p < a1(r.0).len() ==> (#[trigger] a1(r.0)[p]) == fl(cs_within(chain_stats@, p)),       // [C13.within_is_mean_of_chain_variances]
            forall |p: int| 0 <= p < a1(r.1).len() ==> (#[trigger] a1(r.1)[p]) == fl(cs_var_plus(chain_stats@, p)),     // [C13.var_plus_between_divides_by_chains_minus_one]
    //@body id=withinvar_from_cs file=src/stats.rs name=withinvar_from_cs props=C13
    //@sig fn withinvar_from_cs (chain_stats : & [& ChainStats]) -> (Array1 < f32 > , Array1 < f32 >)
    //@rules R-f64 R-mapcollect R-mapsum R-cast R-lit
    //@outtype __vx_out1 Vec<ArrayView1<Fl>>
    //@outtype __vx_out2 Vec<ArrayView1<Fl>>
    //@anchor g0 scope=fn pos=start
    //@| let ghost cs = chain_stats@;
    //@| let ghost np = a1(cs[0].mean).len() as int;
    //@| let ghost nc = cs.len() as int;
    //@loop 1 iter=it
    //@| invariant
    //@|     it.iter.end == chain_stats.len(), chain_stats@ == cs, __vx_out1@.len() == __vx_k1,
    //@|     forall |i: int| 0 <= i < __vx_k1 ==> v1(#[trigger] __vx_out1@[i]) == a1(cs[i].mean),
    //@loop 2 iter=it
    //@| invariant
    //@|     it.iter.end == chain_stats.len(), chain_stats@ == cs, __vx_out2@.len() == __vx_k2,
    //@|     forall |i: int| 0 <= i < __vx_k2 ==> v1(#[trigger] __vx_out2@[i]) == a1(cs[i].sm2),
    //@loop 3 iter=it
    //@| invariant
    //@|     it.iter.end == chain_stats.len(), chain_stats@ == cs,
    //@|     __vx_sum1 == fl(nsum(cs, __vx_k3 as int)),
    //@anchor a1 scope=fn pos=after match="^let means = ndarray"
    //@| proof { assert(a2(means) =~= cs_means(cs)); assert(fin2(a2(means))); }
    //@anchor a2 scope=fn pos=after match="^let sm2s = ndarray"
    //@| proof { assert(a2(sm2s) =~= cs_sm2s(cs)); assert(fin2(a2(sm2s))); }
    //@anchor a3 scope=fn pos=after match="^let diffs"
    //@| proof {
    //@|     assert forall |i: int, p: int| 0 <= i < nc && 0 <= p < np implies (#[trigger] a2(diffs)[i][p]) == fl(rv(cs_means(cs)[i][p]) - csum(cs_means(cs), p, nc) / (nc as real)) by {}
    //@|     assert(odim2(diffs) == (nc, np));
    //@|     assert(nc * np >= 2) by(nonlinear_arith) requires nc >= 2, np >= 1;
    //@| }
    //@anchor a4 scope=fn pos=after match="^let between"
    //@| proof {
    //@|     let sq = sq2(a2(diffs));
    //@|     assert forall |i: int| 0 <= i < nc implies fin1(#[trigger] sq[i]) by {
    //@|         assert forall |p: int| 0 <= p < sq[i].len() implies val(#[trigger] sq[i][p]) is Fin by { assert(val(a2(diffs)[i][p]) is Fin); }
    //@|     }
    //@|     assert forall |p: int| 0 <= p < np implies (#[trigger] a1(between)[p]) == fl(cssd(cs_means(cs), csum(cs_means(cs), p, nc) / (nc as real), p, nc) / ((nc - 1) as real)) by {
    //@|         lemma_csum_sq_is_cssd(a2(diffs), sq, cs_means(cs), csum(cs_means(cs), p, nc) / (nc as real), p, nc);
    //@|     }
    //@| }
    //@anchor a5 scope=fn pos=after match="^let var ="
    //@| proof {
    //@|     lemma_nsum_lower(cs, nc);
    //@|     let nbar = nsum(cs, nc) / (nc as real);
    //@|     assert(nbar >= 2real) by(nonlinear_arith) requires nsum(cs, nc) >= 2real * (nc as real), nc >= 2, nbar == nsum(cs, nc) / (nc as real);
    //@|     assert(n == fl(nbar));
    //@|     assert forall |p: int| 0 <= p < np implies (#[trigger] a1(var)[p]) == fl(cs_var_plus(cs, p)) by {
    //@|         assert(a1(within)[p] == fl(cs_within(cs, p)));
    //@|     }
    //@| }
    //@end

    pub fn collect_rhat(chain_stats: &[&ChainStats]) -> (r: Array1<Fl>)
        requires cs_ok(chain_stats@, a1(chain_stats@[0].mean).len() as int)
        ensures
            a1(r).len() == a1(chain_stats@[0].mean).len(),
            forall |p: int| 0 <= p < a1(r).len() ==> (#[trigger] a1(r)[p]) == f_sqrt(fl_div(fl(cs_var_plus(chain_stats@, p)), fl(cs_within(chain_stats@, p)))),   // [C13.collect_rhat_is_sqrt_varplus_over_w]
    //@body id=collect_rhat file=src/stats.rs name=collect_rhat props=C13
    //@sig fn collect_rhat (chain_stats : & [& ChainStats]) -> Array1 < f32 >
    //@rules R-f64
    //@end

    // ---- the per-chain tracker ------------------------------------------------------------
    pub struct ChainTracker {
        //@fields file=src/stats.rs name=ChainTracker rules=R-f64
    }
    /// the EMA weight
    pub fn ALPHA_c() -> (r: Fl)
        ensures r == fl(1real / 100real)         // [C13.ema_weight_is_one_hundredth]
    //@body id=ALPHA kind=const file=src/stats.rs name=ALPHA as=ALPHA_c props=C13
    //@sig fn ALPHA () -> f32
    //@rules R-lit R-f64
    //@end

    /// p' = (1 - 0.01) p + 0.01 [state changed]
    pub open spec fn ema(p: Fl, changed: bool) -> Fl {
        f_add(f_mul(f_sub(fl(1real), fl(1real / 100real)), p), f_mul(fl(1real / 100real), fl(if changed { 1real } else { 0real })))
    }
    pub proof fn lemma_ema_unit_interval(p: Fl, changed: bool)
        requires val(p) is Fin, 0real <= rv(p) <= 1real
        ensures val(ema(p, changed)) is Fin, 0real <= rv(ema(p, changed)) <= 1real      // [C13.acceptance_rate_in_unit_interval]
    {
        broadcast use ax_val_mk;
        let x = rv(p);
        let c = if changed { 1real } else { 0real };
        let w = 1real / 100real;
        assert(rv(ema(p, changed)) == (1real - w) * x + w * c);
        assert(0real <= (1real - w) * x + w * c <= 1real) by(nonlinear_arith) requires 0real <= x <= 1real, 0real <= c <= 1real, w == 1real / 100real;
    }
    pub open spec fn conv<T: ToPrimitive>(x: Seq<T>) -> Seq<Fl> { Seq::new(x.len(), |i: int| x[i].f32_of()->Some_0) }
    pub open spec fn convertible<T: ToPrimitive>(x: Seq<T>) -> bool { forall |i: int| 0 <= i < x.len() ==> (#[trigger] x[i]).f32_of() is Some }

    /// representation invariant: the tracker summarises exactly the sequence `fed` of states it was given
    pub open spec fn wf(t: ChainTracker, fed: Seq<Seq<Fl>>) -> bool {
        let n = fed.len() as int;
        let np = t.n_params as int;
        &&& t.n == n && np >= 1
        &&& a1(t.mean).len() == np && a1(t.mean_sq).len() == np && a1(t.last_state).len() == np
        &&& forall |k: int| 0 <= k < n ==> (#[trigger] fed[k]).len() == np && fin1(fed[k])
        &&& n >= 1 ==> forall |p: int| 0 <= p < np ==> (#[trigger] a1(t.mean)[p]) == fl(csum(fed, p, n) / (n as real))
        &&& n >= 1 ==> forall |p: int| 0 <= p < np ==> (#[trigger] a1(t.mean_sq)[p]) == fl(csumsq(fed, p, n) / (n as real))
        &&& n >= 1 ==> a1(t.last_state) == fed[n - 1] && val(t.p_accept) is Fin && 0real <= rv(t.p_accept) <= 1real
        &&& n == 0 ==> a1(t.mean) == Seq::new(np as nat, |i: int| fl(0real)) && val(t.p_accept) == XR::Fin(-1real)
    }
    /// what a step must establish for the running means (n0 = fed.len(), after appending xs)
    pub open spec fn step_means_ok(fed: Seq<Seq<Fl>>, xs: Seq<Fl>, mean: Seq<Fl>, mean_sq: Seq<Fl>, np: int) -> bool {
        let n1 = fed.len() as int + 1;
        let fed1 = fed.push(xs);
        &&& forall |p: int| 0 <= p < np ==> (#[trigger] mean[p]) == fl(csum(fed1, p, n1) / (n1 as real))
        &&& forall |p: int| 0 <= p < np ==> (#[trigger] mean_sq[p]) == fl(csumsq(fed1, p, n1) / (n1 as real))
    }
    pub open spec fn mean_at(mean: Seq<Fl>, mean_sq: Seq<Fl>, fed1: Seq<Seq<Fl>>, n1: int, p: int) -> bool {
        mean[p] == fl(csum(fed1, p, n1) / (n1 as real)) && mean_sq[p] == fl(csumsq(fed1, p, n1) / (n1 as real))
    }
    pub proof fn lemma_csum_push(fed: Seq<Seq<Fl>>, xs: Seq<Fl>, p: int, k: int)
        requires 0 <= k <= fed.len()
        ensures csum(fed.push(xs), p, k) == csum(fed, p, k), csumsq(fed.push(xs), p, k) == csumsq(fed, p, k),
            k == fed.len() ==> csum(fed.push(xs), p, k + 1) == csum(fed, p, k) + rv(xs[p]) && csumsq(fed.push(xs), p, k + 1) == csumsq(fed, p, k) + rv(xs[p]) * rv(xs[p])
        decreases k
    {
        if k > 0 { lemma_csum_push(fed, xs, p, k - 1); }
    }
    pub proof fn lemma_running_mean(s: real, x: real, n: real)
        requires n >= 2real
        ensures ((s / (n - 1real)) * (n - 1real) + x) / n == (s + x) / n
    {
        assert((s / (n - 1real)) * (n - 1real) == s) by(nonlinear_arith) requires n - 1real >= 1real;
    }
    /// (Q/n - (S/n)^2) n / (n-1) is the unbiased sample variance (Q - S^2/n)/(n-1)
    pub proof fn lemma_unbiased_variance(q: real, s: real, n: real)
        requires n >= 2real
        ensures ((q / n - (s / n) * (s / n)) * n) / (n - 1real) == (q - s * s / n) / (n - 1real)
    {
        assert((q / n - (s / n) * (s / n)) * n == q - s * s / n) by(nonlinear_arith) requires n >= 2real;
    }

    impl ChainTracker {
        pub fn new<T: ToPrimitive>(n_params: usize, initial_state: &[T]) -> (r: Self)
            requires n_params >= 1, initial_state@.len() >= n_params, convertible(initial_state@)      // (fewer values: the code panics; more: the first n_params are used)
            ensures wf(r, Seq::<Seq<Fl>>::empty()), r.n_params == n_params,      // [C13.tracker_new_is_empty]
                a1(r.last_state) == conv(initial_state@).subrange(0, n_params as int),
        //@body id=tracker_new file=src/stats.rs impl_self=ChainTracker name=new props=C13
        //@sig fn new < T > (n_params : usize , initial_state : & [T]) -> Self where T : num_traits :: ToPrimitive + Clone ,
        //@rules R-f64 R-lit
        //@closure 1 params="x: T" ret="(r: Fl)"
        //@| requires x.f32_of() is Some
        //@| ensures r == x.f32_of()->Some_0
        //@anchor fin scope=fn pos=before match="^Self \\{"
        //@| proof { assert(a1(last_state) =~= conv(initial_state@).subrange(0, n_params as int)); }
        //@end

        pub fn step<T: ToPrimitive>(&mut self, x: &[T]) -> (r: Result<(), BoxDynError>)
            requires old(self).n < u64::MAX, convertible(x@),
                a1(old(self).mean).len() == old(self).n_params && a1(old(self).mean_sq).len() == old(self).n_params && a1(old(self).last_state).len() == old(self).n_params && old(self).n_params >= 1,
            ensures
                (r is Ok) == (x@.len() >= old(self).n_params),                                           // [C13.tracker_step_fails_iff_too_few_values]
                r is Ok ==> forall |fed: Seq<Seq<Fl>>| #[trigger] wf(*old(self), fed) && fin1(conv(x@)) ==> wf(*final(self), fed.push(conv(x@).subrange(0, old(self).n_params as int))),   // [C13.tracker_step_appends_the_fed_state]
        //@body id=tracker_step file=src/stats.rs impl_self=ChainTracker name=step props=C13
        //@sig fn step < T > (& mut self , x : & [T]) -> Result < () , Box < dyn Error > > where T : num_traits :: ToPrimitive + Clone ,
        //@rules R-f64 R-lit R-cast R-dynerr R-const
        //@const ALPHA:ALPHA_c
        //@closure 1 params="x: T" ret="(r: Fl)"
        //@| requires x.f32_of() is Some
        //@| ensures r == x.f32_of()->Some_0
        //@closure 2 params="p_accept: Fl; a: ArrayView1<Fl>; b: ArrayView1<Fl>" ret="(r: Fl)" bind=ema_cl
        //@| ensures r == ema(p_accept, !arr_eq(v1(a), v1(b)))
        //@anchor x0 scope=fn pos=after match="^let x_arr ="
        //@| let ghost xs = a1(x_arr);
        //@| proof { assert(xs =~= conv(x@).subrange(0, self.n_params as int)); }
        //@anchor p0 scope=fn pos=after match="^let \\w+ = if self \\. p_accept"
        //@| let ghost ps0 = $lhs;
        //@| let ghost last0 = a1(self.last_state);
        //@anchor p1 scope=fn pos=before match="^self \\. last_state = x_arr"
        //@| proof {
        //@|     let pa = self.p_accept;
        //@|     // the fold over the single lane is exactly one EMA update
        //@|     let accs = choose |accs: Seq<Fl>| #[trigger] fold_ok(ema_cl, seq![xs], seq![last0], ps0, accs, pa);
        //@|     assert(fold_step(ema_cl, accs[0], seq![xs][0], seq![last0][0], accs[1]));
        //@|     assert(pa == ema(ps0, !arr_eq(xs, last0)));
        //@|     assert forall |fed: Seq<Seq<Fl>>| #[trigger] wf(*old(self), fed) && fin1(conv(x@)) implies
        //@|         val(pa) is Fin && 0real <= rv(pa) <= 1real && step_means_ok(fed, xs, a1(self.mean), a1(self.mean_sq), self.n_params as int) by {
        //@|         let n0 = fed.len() as int;
        //@|         let n1 = n0 + 1;
        //@|         let fed1 = fed.push(xs);
        //@|         assert(val(ps0) is Fin && 0real <= rv(ps0) <= 1real);
        //@|         lemma_ema_unit_interval(ps0, !arr_eq(xs, last0));
        //@|         assert(fin1(xs));
        //@|         assert forall |p: int| 0 <= p < self.n_params implies mean_at(a1(self.mean), a1(self.mean_sq), fed1, n1, p) by {
        //@|             lemma_csum_push(fed, xs, p, n0);
        //@|             assert(val(xs[p]) is Fin);
        //@|             assert(n == fl(n1 as real));
        //@|             if n0 >= 1 {
        //@|                 lemma_running_mean(csum(fed, p, n0), rv(xs[p]), n1 as real);
        //@|                 lemma_running_mean(csumsq(fed, p, n0), rv(xs[p]) * rv(xs[p]), n1 as real);
        //@|                 assert(a1(old(self).mean)[p] == fl(csum(fed, p, n0) / (n0 as real)));
        //@|                 assert(a1(old(self).mean_sq)[p] == fl(csumsq(fed, p, n0) / (n0 as real)));
        //@|             } else {
        //@|                 assert(a1(old(self).mean)[p] == fl(0real));
        //@|             }
        //@|         }
        //@|         assert(val(pa) is Fin && 0real <= rv(pa) <= 1real);
        //@|         assert forall |p: int| 0 <= p < self.n_params implies (#[trigger] a1(self.mean)[p]) == fl(csum(fed1, p, n1) / (n1 as real)) by { assert(mean_at(a1(self.mean), a1(self.mean_sq), fed1, n1, p)); }
        //@|         assert forall |p: int| 0 <= p < self.n_params implies (#[trigger] a1(self.mean_sq)[p]) == fl(csumsq(fed1, p, n1) / (n1 as real)) by { assert(mean_at(a1(self.mean), a1(self.mean_sq), fed1, n1, p)); }
        //@|         assert(step_means_ok(fed, xs, a1(self.mean), a1(self.mean_sq), self.n_params as int));
        //@|     }
        //@| }
        //@end

        pub fn stats(&self) -> (r: ChainStats)
            requires a1(self.mean).len() == a1(self.mean_sq).len()     // shape invariant of the struct (established by new, kept by step)
            ensures
                r.n == self.n && r.p_accept == self.p_accept,
                forall |fed: Seq<Seq<Fl>>| #[trigger] wf(*self, fed) && fed.len() >= 2 ==> stats_post(fed, self.n_params as int, r),   // [C13.tracker_reports_count_mean_unbiased_variance_of_fed_states]
        //@body id=tracker_stats file=src/stats.rs impl_self=ChainTracker name=stats props=C13
        //@sig fn stats (& self) -> ChainStats
        //@rules R-f64 R-cast R-lit
        //@anchor fin scope=fn pos=before match="^ChainStats"
        //@| let ghost sm2 = divs1(scale1(sub1(a1(self.mean_sq), pow2_spec(a1(self.mean))), n), f_sub(n, fl(1real)));
        //@| proof {
        //@|     assert forall |fed: Seq<Seq<Fl>>| #[trigger] wf(*self, fed) && fed.len() >= 2 implies
        //@|         (forall |p: int| 0 <= p < self.n_params ==> (#[trigger] sm2[p]) == fl((csumsq(fed, p, fed.len() as int) - csum(fed, p, fed.len() as int) * csum(fed, p, fed.len() as int) / (fed.len() as real)) / ((fed.len() - 1) as real))) by {
        //@|         let nn = fed.len() as int;
        //@|         assert forall |p: int| 0 <= p < self.n_params implies (#[trigger] sm2[p]) == fl((csumsq(fed, p, nn) - csum(fed, p, nn) * csum(fed, p, nn) / (nn as real)) / ((nn - 1) as real)) by {
        //@|             lemma_unbiased_variance(csumsq(fed, p, nn), csum(fed, p, nn), nn as real);
        //@|             assert(a1(self.mean)[p] == fl(csum(fed, p, nn) / (nn as real)));
        //@|             assert(a1(self.mean_sq)[p] == fl(csumsq(fed, p, nn) / (nn as real)));
        //@|         }
        //@|     }
        //@| }
        //@end
    }
    /// count, mean and unbiased variance of the fed states
    pub open spec fn stats_post(fed: Seq<Seq<Fl>>, np: int, r: ChainStats) -> bool {
        let n = fed.len() as int;
        &&& r.n == n && a1(r.mean).len() == np && a1(r.sm2).len() == np
        &&& forall |p: int| 0 <= p < np ==> (#[trigger] a1(r.mean)[p]) == fl(csum(fed, p, n) / (n as real))
        &&& forall |p: int| 0 <= p < np ==> (#[trigger] a1(r.sm2)[p]) == fl((csumsq(fed, p, n) - csum(fed, p, n) * csum(fed, p, n) / (n as real)) / ((n - 1) as real))
    }

    // ---- the multi-chain tracker (HMC progress): same summaries, all chains at once --------------------
    pub struct MultiChainTracker {
        //@fields file=src/stats.rs name=MultiChainTracker rules=R-f64
    }
    /// shape invariant of the struct
    pub open spec fn mct_shape(t: MultiChainTracker) -> bool {
        &&& odim2(t.mean) == (t.n_chains as int, t.n_params as int) && odim2(t.mean_sq) == (t.n_chains as int, t.n_params as int)
        &&& odim2(t.last_state) == (t.n_chains as int, t.n_params as int)
        &&& rect2(a2(t.mean), t.n_chains as int, t.n_params as int) && rect2(a2(t.mean_sq), t.n_chains as int, t.n_params as int)
    }
    /// W_p and var+_p from per-chain running means / means of squares after n updates, exactly as collect_rhat defines them
    /// from the per-chain (mean, unbiased variance, n): sm2 = (mean_sq - mean^2) n/(n-1)
    pub open spec fn mct_sm2(t: MultiChainTracker) -> Seq<Seq<Fl>> {
        Seq::new(a2(t.mean).len(), |c: int| Seq::new(a2(t.mean)[c].len(), |p: int|
            fl(((rv(a2(t.mean_sq)[c][p]) - rv(a2(t.mean)[c][p]) * rv(a2(t.mean)[c][p])) * (t.n as real)) / ((t.n - 1) as real))))
    }
    pub open spec fn m_within(sm2s: Seq<Seq<Fl>>, p: int) -> real { csum(sm2s, p, sm2s.len() as int) / (sm2s.len() as real) }
    pub open spec fn m_between_over_n(means: Seq<Seq<Fl>>, p: int) -> real {
        let g = csum(means, p, means.len() as int) / (means.len() as real);
        cssd(means, g, p, means.len() as int) / ((means.len() - 1) as real)
    }
    pub open spec fn m_var_plus(means: Seq<Seq<Fl>>, sm2s: Seq<Seq<Fl>>, n: real, p: int) -> real {
        m_between_over_n(means, p) + m_within(sm2s, p) * ((n - 1real) / n)
    }
    /// the same formulas, restated over ChainStats (so that "identical to collect_rhat" is literal)
    pub proof fn lemma_cs_formulas_are_m_formulas(cs: Seq<&ChainStats>, p: int)
        ensures cs_within(cs, p) == m_within(cs_sm2s(cs), p), cs_between_over_n(cs, p) == m_between_over_n(cs_means(cs), p),
            cs_var_plus(cs, p) == m_var_plus(cs_means(cs), cs_sm2s(cs), nsum(cs, cs.len() as int) / (cs.len() as real), p)     // [C13.multi_tracker_formula_is_collect_rhat_formula]
    {
    }
    pub proof fn lemma_between_algebra(s: real, n: real, cm1: real, w: real)
        requires n != 0real, cm1 != 0real
        ensures w * ((n - 1real) / n) + (s * (n / cm1)) * (1real / n) == s / cm1 + w * ((n - 1real) / n)
    {
        assert((s * (n / cm1)) * (1real / n) == s / cm1) by(nonlinear_arith) requires n != 0real, cm1 != 0real;
    }

    /// the history of chain c alone: what a per-chain ChainTracker for chain c would have been fed
    pub open spec fn chain_hist(fed: Seq<Seq<Seq<Fl>>>, c: int) -> Seq<Seq<Fl>> { Seq::new(fed.len(), |k: int| fed[k][c]) }
    /// the flat slice handed to `step`, as chains x params (row-major)
    pub open spec fn as_rows(x: Seq<Fl>, nc: int, np: int) -> Seq<Seq<Fl>> { Seq::new(nc as nat, |c: int| Seq::new(np as nat, |p: int| x[c * np + p])) }
    /// representation invariant: row c of the tracker summarises exactly chain c's part of the updates `fed` (fed[k][c][p])
    pub open spec fn mwf(t: MultiChainTracker, fed: Seq<Seq<Seq<Fl>>>) -> bool {
        let n = fed.len() as int;
        let nc = t.n_chains as int;
        let np = t.n_params as int;
        &&& t.n == n && nc >= 1 && np >= 1 && mct_shape(t)
        &&& forall |k: int| 0 <= k < n ==> rect2(#[trigger] fed[k], nc, np) && fin2(fed[k])
        &&& val(t.p_accept) is Fin && 0real <= rv(t.p_accept) <= 1real
        &&& n >= 1 ==> forall |c: int, p: int| 0 <= c < nc && 0 <= p < np ==> (#[trigger] a2(t.mean)[c][p]) == fl(csum(chain_hist(fed, c), p, n) / (n as real))
        &&& n >= 1 ==> forall |c: int, p: int| 0 <= c < nc && 0 <= p < np ==> (#[trigger] a2(t.mean_sq)[c][p]) == fl(csumsq(chain_hist(fed, c), p, n) / (n as real))
        &&& n >= 1 ==> a2(t.last_state) == fed[n - 1]
        &&& n == 0 ==> forall |c: int, p: int| 0 <= c < nc && 0 <= p < np ==> (#[trigger] a2(t.mean)[c][p]) == fl(0real)
    }
    pub open spec fn mmean_at(mean: Seq<Seq<Fl>>, mean_sq: Seq<Seq<Fl>>, fed1: Seq<Seq<Seq<Fl>>>, n1: int, c: int, p: int) -> bool {
        mean[c][p] == fl(csum(chain_hist(fed1, c), p, n1) / (n1 as real)) && mean_sq[c][p] == fl(csumsq(chain_hist(fed1, c), p, n1) / (n1 as real))
    }
    /// every accumulator of an EMA fold that starts in [0, 1] stays in [0, 1]
    pub proof fn lemma_fold_unit<F: Fn(Fl, ArrayView1<Fl>, ArrayView1<Fl>) -> Fl>(f: F, a: Seq<Seq<Fl>>, b: Seq<Seq<Fl>>, init: Fl, accs: Seq<Fl>, res: Fl, k: int)
        requires fold_ok(f, a, b, init, accs, res), 0 <= k <= a.len(), val(init) is Fin, 0real <= rv(init) <= 1real,
            forall |acc: Fl, x: ArrayView1<Fl>, y: ArrayView1<Fl>, nx: Fl| #[trigger] f.ensures((acc, x, y), nx) ==> nx == ema(acc, !arr_eq(v1(x), v1(y))),
        ensures val(accs[k]) is Fin, 0real <= rv(accs[k]) <= 1real
        decreases k
    {
        if k > 0 {
            lemma_fold_unit(f, a, b, init, accs, res, k - 1);
            assert(fold_step(f, accs[k - 1], a[k - 1], b[k - 1], accs[k - 1 + 1]));
            let (x, y) = choose |x: ArrayView1<Fl>, y: ArrayView1<Fl>| v1(x) == a[k - 1] && v1(y) == b[k - 1] && #[trigger] f.ensures((accs[k - 1], x, y), accs[k]);
            lemma_ema_unit_interval(accs[k - 1], !arr_eq(v1(x), v1(y)));
        }
    }

    pub proof fn lemma_cols_ext(m1: Seq<Seq<Fl>>, m2: Seq<Seq<Fl>>, g: real, p: int, k: int)
        requires forall |i: int| 0 <= i < k ==> rv((#[trigger] m1[i])[p]) == rv(m2[i][p])
        ensures csum(m1, p, k) == csum(m2, p, k), cssd(m1, g, p, k) == cssd(m2, g, p, k)
        decreases k
    {
        if k > 0 { lemma_cols_ext(m1, m2, g, p, k - 1); assert(rv(m1[k - 1][p]) == rv(m2[k - 1][p])); }
    }
    pub proof fn lemma_nsum_const(cs: Seq<&ChainStats>, n: int, k: int)
        requires 0 <= k <= cs.len(), forall |m: int| 0 <= m < cs.len() ==> (#[trigger] cs[m]).n == n
        ensures nsum(cs, k) == (n as real) * (k as real)
        decreases k
    {
        if k > 0 {
            lemma_nsum_const(cs, n, k - 1);
            assert(cs[k - 1].n == n);
            let nr = n as real; let kr = k as real;
            assert(((k - 1) as real) == kr - 1real);
            assert(nr * (kr - 1real) + nr == nr * kr) by(nonlinear_arith);
            assert(cs[k - 1].n as real == nr);
        } else {
            assert((n as real) * (k as real) == 0real) by(nonlinear_arith) requires k == 0;
        }
    }
    /// C13, "identical to what collect_rhat reports for the same data": if per-chain trackers were fed chain c's part of the
    /// same updates (their `stats()` then satisfy stats_post), collect_rhat's W and var+ are the multi-chain tracker's W and var+
    pub proof fn lemma_multi_equals_collect(t: MultiChainTracker, fed: Seq<Seq<Seq<Fl>>>, cs: Seq<&ChainStats>, p: int)
        requires mwf(t, fed), fed.len() >= 2, t.n_chains >= 2, cs.len() == t.n_chains, 0 <= p < t.n_params,
            forall |c: int| 0 <= c < t.n_chains ==> stats_post(chain_hist(fed, c), t.n_params as int, *#[trigger] cs[c]),
        ensures m_within(mct_sm2(t), p) == cs_within(cs, p),
            m_var_plus(a2(t.mean), mct_sm2(t), t.n as real, p) == cs_var_plus(cs, p)    // [C13.multi_tracker_rhat_equals_collect_rhat_on_same_data]
    {
        broadcast use ax_val_mk;
        let n = fed.len() as int;
        let nc = t.n_chains as int;
        let np = t.n_params as int;
        assert(a2(t.mean).len() == nc);
        assert forall |c: int| 0 <= c < nc implies rv((#[trigger] mct_sm2(t)[c])[p]) == rv(cs_sm2s(cs)[c][p]) && rv(a2(t.mean)[c][p]) == rv(cs_means(cs)[c][p]) by {
            let h = chain_hist(fed, c);
            assert(stats_post(h, np, *cs[c]));
            assert(h.len() == n);
            assert(a2(t.mean)[c][p] == fl(csum(h, p, n) / (n as real)));
            assert(a2(t.mean_sq)[c][p] == fl(csumsq(h, p, n) / (n as real)));
            assert(a1(cs[c].mean)[p] == fl(csum(h, p, n) / (n as real)));
            lemma_unbiased_variance(csumsq(h, p, n), csum(h, p, n), n as real);
            assert(a2(t.mean)[c].len() == np);
        }
        let g = csum(a2(t.mean), p, nc) / (nc as real);
        lemma_cols_ext(mct_sm2(t), cs_sm2s(cs), 0real, p, nc);
        lemma_cols_ext(a2(t.mean), cs_means(cs), g, p, nc);
        lemma_nsum_const(cs, n, nc);
        assert(((n as real) * (nc as real)) / (nc as real) == n as real) by(nonlinear_arith) requires nc >= 2;
        assert(mct_sm2(t).len() == nc);
    }

    /// the R-hat the multi-chain tracker reports for parameter p
    pub open spec fn mct_rhat_at(t: MultiChainTracker, p: int) -> Fl {
        f_sqrt(fl_div(fl(m_var_plus(a2(t.mean), mct_sm2(t), t.n as real, p)), fl(m_within(mct_sm2(t), p))))
    }
    impl MultiChainTracker {
        pub fn step<T: ToPrimitive>(&mut self, x: &[T]) -> (r: Result<(), BoxDynError>)
            requires old(self).n < usize::MAX, convertible(x@), mct_shape(*old(self)), old(self).n_chains >= 1, old(self).n_params >= 1,
                old(self).n_chains * old(self).n_params <= usize::MAX,
                val(old(self).p_accept) is Fin && 0real <= rv(old(self).p_accept) <= 1real,
            ensures
                (r is Ok) == (x@.len() >= old(self).n_chains * old(self).n_params),                                           // [C13.multi_tracker_step_fails_iff_too_few_values]
                r is Ok ==> forall |fed: Seq<Seq<Seq<Fl>>>| #[trigger] mwf(*old(self), fed) && fin1(conv(x@))
                    ==> mwf(*final(self), fed.push(as_rows(conv(x@), old(self).n_chains as int, old(self).n_params as int))),   // [C13.multi_tracker_step_appends_to_every_chain]
        //@body id=mct_step file=src/stats.rs impl_self=MultiChainTracker name=step props=C13
        //@sig fn step < T > (& mut self , x : & [T]) -> Result < () , Box < dyn Error > > where T : Num + num_traits :: ToPrimitive + num_traits :: FromPrimitive + std :: clone :: Clone + std :: cmp :: PartialOrd ,
        //@rules R-f64 R-lit R-cast R-dynerr R-const
        //@const ALPHA:ALPHA_c
        //@closure 1 params="x: T" ret="(r: Fl)"
        //@| requires x.f32_of() is Some
        //@| ensures r == x.f32_of()->Some_0
        //@closure 2 params="p_accept: Fl; a: ArrayView1<Fl>; b: ArrayView1<Fl>" ret="(r: Fl)" bind=ema_cl
        //@| ensures r == ema(p_accept, !arr_eq(v1(a), v1(b)))
        //@anchor x0 scope=fn pos=after match="^let x_arr ="
        //@| let ghost nc = self.n_chains as int;
        //@| let ghost np = self.n_params as int;
        //@| let ghost xm = a2(x_arr);
        //@| proof {
        //@|     assert forall |c: int| 0 <= c < nc implies (#[trigger] xm[c]) =~= as_rows(conv(x@), nc, np)[c] by {
        //@|         assert forall |p: int| 0 <= p < np implies xm[c][p] == conv(x@)[c * np + p] by {
        //@|             assert(0 <= c * np + p < nc * np) by(nonlinear_arith) requires 0 <= c < nc, 0 <= p < np;
        //@|         }
        //@|     }
        //@|     assert(xm =~= as_rows(conv(x@), nc, np));
        //@|     assert(odim2(x_arr) == (nc, np));
        //@| }
        //@anchor m0 scope=fn pos=before match="^self \\. mean ="
        //@| proof {
        //@|     assert(rect2(scale2(a2(self.mean), f_sub(n, fl(1real))), nc, np));
        //@|     assert(rect2(scale2(a2(self.mean_sq), f_sub(n, fl(1real))), nc, np));
        //@|     assert(rect2(sq2(xm), nc, np));
        //@| }
        //@anchor m1 scope=fn pos=before match="^self \\. p_accept ="
        //@| proof {
        //@|     let m0 = a2(old(self).mean); let q0 = a2(old(self).mean_sq); let k = f_sub(n, fl(1real));
        //@|     assert(rect2(add2(scale2(m0, k), xm), nc, np));
        //@|     assert(rect2(divs2(add2(scale2(m0, k), xm), n), nc, np));
        //@|     assert(rect2(add2(scale2(q0, k), sq2(xm)), nc, np));
        //@|     assert(rect2(divs2(add2(scale2(q0, k), sq2(xm)), n), nc, np));
        //@|     assert(odim2(self.mean) == (nc, np));
        //@|     assert(odim2(self.mean_sq) == (nc, np));
        //@| }
        //@anchor p0 scope=fn pos=before match="^self \\. p_accept ="
        //@| let ghost p_start = self.p_accept;
        //@| let ghost last0 = a2(self.last_state);
        //@anchor p1 scope=fn pos=before match="^self \\. last_state = x_arr"
        //@| proof {
        //@|     let pa = self.p_accept;
        //@|     let accs = choose |accs: Seq<Fl>| #[trigger] fold_ok(ema_cl, xm, last0, p_start, accs, pa);
        //@|     lemma_fold_unit(ema_cl, xm, last0, p_start, accs, pa, nc);
        //@|     assert forall |fed: Seq<Seq<Seq<Fl>>>| #[trigger] mwf(*old(self), fed) && fin1(conv(x@)) implies
        //@|         (forall |c: int, p: int| 0 <= c < nc && 0 <= p < np ==> #[trigger] mmean_at(a2(self.mean), a2(self.mean_sq), fed.push(xm), fed.len() as int + 1, c, p)) && fin2(xm) by {
        //@|         let n0 = fed.len() as int;
        //@|         let n1 = n0 + 1;
        //@|         let fed1 = fed.push(xm);
        //@|         assert forall |c: int| 0 <= c < nc implies fin1(#[trigger] xm[c]) by {
        //@|             assert forall |p: int| 0 <= p < xm[c].len() implies val(#[trigger] xm[c][p]) is Fin by {
        //@|                 assert(0 <= c * np + p < nc * np) by(nonlinear_arith) requires 0 <= c < nc, 0 <= p < np;
        //@|                 assert(xm[c][p] == conv(x@)[c * np + p]);
        //@|             }
        //@|         }
        //@|         assert forall |c: int, p: int| 0 <= c < nc && 0 <= p < np implies #[trigger] mmean_at(a2(self.mean), a2(self.mean_sq), fed1, n1, c, p) by {
        //@|             assert(chain_hist(fed1, c) =~= chain_hist(fed, c).push(xm[c]));
        //@|             lemma_csum_push(chain_hist(fed, c), xm[c], p, n0);
        //@|             assert(fin1(xm[c]));
        //@|             assert(val(xm[c][p]) is Fin);
        //@|             assert(n == fl(n1 as real));
        //@|             let m0 = a2(old(self).mean); let q0 = a2(old(self).mean_sq); let kk = f_sub(n, fl(1real));
        //@|             assert(a2(self.mean) == divs2(add2(scale2(m0, kk), xm), n));
        //@|             assert(a2(self.mean)[c][p] == fl_div(f_add(f_mul(m0[c][p], kk), xm[c][p]), n));
        //@|             if n0 >= 1 {
        //@|                 assert(a2(self.mean_sq) == divs2(add2(scale2(q0, kk), sq2(xm)), n));
        //@|                 assert(a2(self.mean_sq)[c][p] == fl_div(f_add(f_mul(q0[c][p], kk), f_sq(xm[c][p])), n));
        //@|             } else {
        //@|                 assert(a2(self.mean_sq) == sq2(xm));
        //@|                 assert(a2(self.mean_sq)[c][p] == f_sq(xm[c][p]));
        //@|             }
        //@|             if n0 >= 1 {
        //@|                 lemma_running_mean(csum(chain_hist(fed, c), p, n0), rv(xm[c][p]), n1 as real);
        //@|                 lemma_running_mean(csumsq(chain_hist(fed, c), p, n0), rv(xm[c][p]) * rv(xm[c][p]), n1 as real);
        //@|                 assert(a2(old(self).mean)[c][p] == fl(csum(chain_hist(fed, c), p, n0) / (n0 as real)));
        //@|                 assert(a2(old(self).mean_sq)[c][p] == fl(csumsq(chain_hist(fed, c), p, n0) / (n0 as real)));
        //@|             } else {
        //@|                 assert(a2(old(self).mean)[c][p] == fl(0real));
        //@|             }
        //@|         }
        //@|     }
        //@| }
        //@anchor fin scope=fn pos=before match="^Ok"
        //@| proof {
        //@|     assert forall |fed: Seq<Seq<Seq<Fl>>>| #[trigger] mwf(*old(self), fed) && fin1(conv(x@)) implies mwf(*self, fed.push(xm)) by {
        //@|         let fed1 = fed.push(xm);
        //@|         let n1 = fed.len() as int + 1;
        //@|         assert(mct_shape(*self));
        //@|         assert forall |k: int| 0 <= k < n1 implies rect2(#[trigger] fed1[k], nc, np) && fin2(fed1[k]) by { if k < n1 - 1 { assert(fed1[k] == fed[k]); } }
        //@|         assert forall |c: int, p: int| 0 <= c < nc && 0 <= p < np implies (#[trigger] a2(self.mean)[c][p]) == fl(csum(chain_hist(fed1, c), p, n1) / (n1 as real)) by { assert(mmean_at(a2(self.mean), a2(self.mean_sq), fed1, n1, c, p)); }
        //@|         assert forall |c: int, p: int| 0 <= c < nc && 0 <= p < np implies (#[trigger] a2(self.mean_sq)[c][p]) == fl(csumsq(chain_hist(fed1, c), p, n1) / (n1 as real)) by { assert(mmean_at(a2(self.mean), a2(self.mean_sq), fed1, n1, c, p)); }
        //@|     }
        //@| }
        //@end

        pub fn new(n_chains: usize, n_params: usize) -> (r: Self)
            requires n_chains >= 1, n_params >= 1
            ensures r.n == 0 && r.n_chains == n_chains && r.n_params == n_params && mct_shape(r) && r.p_accept == fl(0real),     // [C13.multi_tracker_new]
                mwf(r, Seq::<Seq<Seq<Fl>>>::empty()),
        //@body id=mct_new file=src/stats.rs impl_self=MultiChainTracker name=new props=C13
        //@sig fn new (n_chains : usize , n_params : usize) -> Self
        //@rules R-f64 R-lit
        //@end

        pub fn rhat(&self) -> (r: Result<Array1<Fl>, BoxDynError>)
            requires mct_shape(*self), self.n_chains >= 2, self.n_params >= 1, self.n >= 2, fin2(a2(self.mean)), fin2(a2(self.mean_sq))
            ensures r is Ok, a1(r->Ok_0).len() == self.n_params,
                forall |p: int| 0 <= p < self.n_params ==> (#[trigger] a1(r->Ok_0)[p])
                    == f_sqrt(fl_div(fl(m_var_plus(a2(self.mean), mct_sm2(*self), self.n as real, p)), fl(m_within(mct_sm2(*self), p)))),    // [C13.multi_tracker_rhat_is_sqrt_varplus_over_w]
        //@body id=mct_rhat file=src/stats.rs impl_self=MultiChainTracker name=rhat props=C13
        //@sig fn rhat (& self) -> Result < Array1 < f32 > , Box < dyn Error > >
        //@rules R-f64 R-dynerr
        //@end

        pub fn max_rhat(&self) -> (r: Result<Fl, BoxDynError>)
            requires mct_shape(*self), self.n_chains >= 2, self.n_params >= 1, self.n >= 2, fin2(a2(self.mean)), fin2(a2(self.mean_sq))
            ensures r is Ok ==> (exists |p: int| 0 <= p < self.n_params && r->Ok_0 == #[trigger] mct_rhat_at(*self, p))
                && forall |p: int| 0 <= p < self.n_params ==> xr_le(val(#[trigger] mct_rhat_at(*self, p)), val(r->Ok_0)),      // [C13.multi_tracker_max_rhat_is_the_largest_rhat]
        //@body id=mct_max_rhat file=src/stats.rs impl_self=MultiChainTracker name=max_rhat props=C13
        //@sig fn max_rhat (& self) -> Result < f32 , Box < dyn Error > >
        //@rules R-f64 R-dynerr
        //@anchor a0 scope=fn pos=after match="^let all :"
        //@| proof { assert forall |p: int| 0 <= p < self.n_params implies (#[trigger] a1(all)[p]) == mct_rhat_at(*self, p) by {} }
        //@anchor a1 scope=fn pos=after match="^let max ="
        //@| proof {
        //@|     let k = choose |k: int| 0 <= k < a1(all).len() && a1(all)[k] == max;
        //@|     assert(max == mct_rhat_at(*self, k));
        //@|     assert forall |p: int| 0 <= p < self.n_params implies xr_le(val(#[trigger] mct_rhat_at(*self, p)), val(max)) by { assert(a1(all)[p] == mct_rhat_at(*self, p)); }
        //@| }
        //@end

        fn within_and_var(&self) -> (r: Result<(Array1<Fl>, Array1<Fl>), BoxDynError>)
            requires mct_shape(*self), self.n_chains >= 2, self.n_params >= 1, self.n >= 2, fin2(a2(self.mean)), fin2(a2(self.mean_sq))
            ensures
                r is Ok,
                a1(r->Ok_0.0).len() == self.n_params && a1(r->Ok_0.1).len() == self.n_params,
                forall |p: int| 0 <= p < self.n_params ==> (#[trigger] a1(r->Ok_0.0)[p]) == fl(m_within(mct_sm2(*self), p)),                      // [C13.multi_tracker_within]
                forall |p: int| 0 <= p < self.n_params ==> (#[trigger] a1(r->Ok_0.1)[p]) == fl(m_var_plus(a2(self.mean), mct_sm2(*self), self.n as real, p)),   // [C13.multi_tracker_var_plus_equals_collect_rhat_formula]
        //@body id=mct_within_and_var file=src/stats.rs impl_self=MultiChainTracker name=within_and_var props=C13
        //@sig fn within_and_var (& self) -> Result < (Array1 < f32 > , Array1 < f32 >) , Box < dyn Error > >
        //@rules R-f64 R-lit R-cast R-dynerr
        //@anchor w0 scope=fn pos=after match="^let mean_chain"
        //@| let ghost mc = a1(mean_chain);
        //@| let ghost nc = self.n_chains as int;
        //@| let ghost np = self.n_params as int;
        //@| let ghost means = a2(self.mean);
        //@| let ghost nr = self.n as real;
        //@| proof { assert(rect2(subrow2(means, mc), nc, np)); assert(rect2(sq2(subrow2(means, mc)), nc, np)); }
        //@anchor w1 scope=fn pos=after match="^let between"
        //@| proof {
        //@|     let diffs = subrow2(means, mc);
        //@|     let sq = sq2(diffs);
        //@|     assert(n == fl(nr) && n_chains == fl(nc as real));
        //@|     assert(fac == fl(nr / ((nc - 1) as real)));
        //@|     assert(a1(between).len() == np);
        //@|     assert forall |i: int, p: int| 0 <= i < nc && 0 <= p < np implies (#[trigger] diffs[i][p]) == fl(rv(means[i][p]) - csum(means, p, nc) / (nc as real)) by {
        //@|         assert(val(means[i][p]) is Fin);
        //@|     }
        //@|     assert forall |i: int| 0 <= i < nc implies fin1(#[trigger] sq[i]) by {
        //@|         assert forall |p: int| 0 <= p < sq[i].len() implies val(#[trigger] sq[i][p]) is Fin by { assert(val(diffs[i][p]) is Fin); }
        //@|     }
        //@|     assert(fin2(sq));
        //@|     assert forall |p: int| 0 <= p < np implies (#[trigger] a1(between)[p]) == fl(cssd(means, csum(means, p, nc) / (nc as real), p, nc) * (nr / ((nc - 1) as real))) by {
        //@|         lemma_csum_sq_is_cssd(diffs, sq, means, csum(means, p, nc) / (nc as real), p, nc);
        //@|     }
        //@| }
        //@anchor w2 scope=fn pos=after match="^let sm2"
        //@| proof {
        //@|     assert(a2(sm2) =~= mct_sm2(*self)) by {
        //@|         assert forall |c: int, p: int| 0 <= c < nc && 0 <= p < np implies (#[trigger] a2(sm2)[c][p]) == mct_sm2(*self)[c][p] by {
        //@|             assert(val(means[c][p]) is Fin && val(a2(self.mean_sq)[c][p]) is Fin);
        //@|         }
        //@|         assert forall |c: int| 0 <= c < nc implies (#[trigger] a2(sm2)[c]) =~= mct_sm2(*self)[c] by {}
        //@|     }
        //@|     assert(fin2(a2(sm2)));
        //@|     let d = sub2(a2(self.mean_sq), sq2(means)); let e = scale2(d, n); let f = divs2(e, f_sub(n, fl(1real)));
        //@|     assert(rect2(d, nc, np)); assert(rect2(e, nc, np)); assert(rect2(f, nc, np));
        //@|     assert(odim2(mk_a2(d)) == (nc, np)); assert(odim2(mk_a2(e)) == (nc, np));
        //@|     assert(odim2(sm2) == (nc, np));
        //@| }
        //@anchor w2b scope=fn pos=after match="^let within"
        //@| proof { assert(a1(within).len() == np); }
        //@anchor w3 scope=fn pos=after match="^let var ="
        //@| proof {
        //@|     assert forall |p: int| 0 <= p < np implies (#[trigger] a1(var)[p]) == fl(m_var_plus(means, mct_sm2(*self), nr, p)) by {
        //@|         assert(a1(within)[p] == fl(m_within(mct_sm2(*self), p)));
        //@|         lemma_between_algebra(cssd(means, csum(means, p, nc) / (nc as real), p, nc), nr, (nc - 1) as real, m_within(mct_sm2(*self), p));
        //@|     }
        //@| }
        //@end
    }
}
} // verus!
fn main() {}
