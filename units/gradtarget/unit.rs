//@unit gradtarget — src/distributions.rs: GradientTarget::unnorm_logp_and_grad (default method: autodiff plumbing) (C15)
#![allow(unused_imports, unused_variables, dead_code, unused_mut, non_snake_case, unused_parens, unused_labels)]
use vstd::prelude::*;
verus! {
//@include prelude/float.rs
//@include prelude/tensor.rs

// loops are verified in the context of their function (facts about values bound before a loop need no restating in
// its invariant: hoisting a sub-expression out of a loop must not break the proof)
#[verifier::loop_isolation(false)]
pub mod unit_gradtarget {
    use vstd::prelude::*;
    use super::fl::*;
    use super::tn::*;
    broadcast use super::fl::fl_axioms, super::tn::tn_axioms;

    /// `GradientTarget<T, B>`: the required method is the user's; ASSUMED law: its value is `lp` of the position's
    /// contents, it is differentiable w.r.t. the very tensor it was given, and burn's autodiff of it is `grad`
    /// (that this is the analytic gradient is the assumption named in C15).
    pub trait GradientTarget<B: AutodiffBackend> {
        spec fn lp(&self, x: V) -> XR;
        spec fn grad(&self, x: V) -> V;
        fn unnorm_logp(&self, position: Tensor<B, 1>) -> (r: Tensor<B, 1>)
            ensures v1(r) == seq![self.lp(v1(position))], ad_leaf1(r) == v1(position), ad_grad1(r) == self.grad(v1(position));

        fn unnorm_logp_and_grad(&self, position: Tensor<B, 1>) -> (r: (Tensor<B, 1>, Tensor<B, 1>))
            ensures
                v1(r.0) == seq![self.lp(v1(position))],        // [C15.logp_and_grad_returns_the_log_density_of_the_position]
                v1(r.1) == self.grad(v1(position)),            // [C15.gradient_is_taken_of_that_value_with_respect_to_that_position]
        //@body id=logp_and_grad file=src/distributions.rs in_trait=GradientTarget name=unnorm_logp_and_grad props=C15
        //@sig fn unnorm_logp_and_grad (& self , position : Tensor < B , 1 >) -> (Tensor < B , 1 > , Tensor < B , 1 >)
        //@rules
        //@end
    }
}
} // verus!
fn main() {}
