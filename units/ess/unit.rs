//@unit ess — src/stats.rs: autocov (dispatch), autocov_bf, ess (C12)
#![allow(unused_imports, unused_variables, dead_code, unused_mut, non_snake_case, unused_parens, unused_labels)]
use vstd::prelude::*;
verus! {
// ASSUMPTION (listed): a 64-bit target (only used by the FFT padding slice: shift of a usize)
global size_of usize == 8;
//@include prelude/float.rs
//@include prelude/ndarray.rs
//@include prelude/ndfloat.rs
//@include prelude/ndtrack.rs
//@include prelude/ndess.rs

// loops are verified in the context of their function (facts about values bound before a loop need no restating in
// its invariant: hoisting a sub-expression out of a loop must not break the proof)
#[verifier::loop_isolation(false)]
pub mod unit_ess {
    use vstd::prelude::*;
    use vstd::std_specs::iter::IteratorSpec;
    use super::fl::*;
    use super::nd::*;
    use super::ndf::*;
    use super::ndt::*;
    use super::nde::*;
    use super::nde::stack3 as stack;
    broadcast use super::fl::fl_axioms, super::ndf::ndf_axioms, super::ndt::ndt_axioms, super::ndt::ax_odim2_mk, super::nde::nde_axioms;

    // ---- autocovariance of one chain, written from the definition ------------------------------
    /// column j of a (rows x cols) matrix
    pub open spec fn colv(x: Seq<Seq<Fl>>, j: int) -> Seq<Fl> { Seq::new(x.len(), |t: int| x[t][j]) }
    /// sum over t < k of (x_t - m)(x_{t+lag} - m)
    pub open spec fn lagsum(x: Seq<Fl>, m: real, lag: int, k: int) -> real decreases k {
        if k <= 0 { 0real } else { lagsum(x, m, lag, k - 1) + (rv(x[k - 1]) - m) * (rv(x[k - 1 + lag]) - m) }
    }
    /// biased sample autocovariance at `lag`: (1/n) sum_{t < n - lag} (x_t - mean)(x_{t+lag} - mean)
    pub open spec fn acov(x: Seq<Fl>, lag: int) -> real { lagsum(x, rmean(x), lag, x.len() - lag) / (x.len() as real) }
    /// out[lag][j] is the autocovariance of column j at `lag`
    pub open spec fn is_autocov(out: Seq<Seq<Fl>>, data: Seq<Seq<Fl>>, n: int, d: int) -> bool {
        &&& rect2(out, n, d)
        &&& forall |lag: int, j: int| 0 <= lag < n && 0 <= j < d ==> (#[trigger] out[lag][j]) == fl(acov(colv(data, j), lag))
    }

    // ---- C12 corollary: affine rescaling x -> a x + b (real arithmetic) ----------------------------------------
    pub proof fn lemma_rsum_affine(s: Seq<Fl>, t: Seq<Fl>, a: real, b: real, k: int)
        requires k >= 0, forall |i: int| 0 <= i < k ==> rv(#[trigger] t[i]) == a * rv(s[i]) + b
        ensures rsum(t, k) == a * rsum(s, k) + b * (k as real)
        decreases k
    {
        if k > 0 {
            lemma_rsum_affine(s, t, a, b, k - 1);
            assert(rv(t[k - 1]) == a * rv(s[k - 1]) + b);
            assert(a * rsum(s, k - 1) + b * ((k - 1) as real) + (a * rv(s[k - 1]) + b) == a * (rsum(s, k - 1) + rv(s[k - 1])) + b * (k as real)) by(nonlinear_arith);
        } else {
            assert(a * 0real + b * 0real == 0real) by(nonlinear_arith);
        }
    }
    pub proof fn lemma_lagsum_affine(x: Seq<Fl>, y: Seq<Fl>, a: real, b: real, m: real, lag: int, k: int)
        requires k >= 0, lag >= 0, forall |i: int| 0 <= i < k + lag ==> rv(#[trigger] y[i]) == a * rv(x[i]) + b
        ensures lagsum(y, a * m + b, lag, k) == a * a * lagsum(x, m, lag, k)
        decreases k
    {
        if k > 0 {
            lemma_lagsum_affine(x, y, a, b, m, lag, k - 1);
            let (p, q) = (rv(x[k - 1]), rv(x[k - 1 + lag]));
            assert(rv(y[k - 1]) == a * p + b && rv(y[k - 1 + lag]) == a * q + b);
            assert(((a * p + b) - (a * m + b)) * ((a * q + b) - (a * m + b)) == a * a * ((p - m) * (q - m))) by(nonlinear_arith);
            assert(a * a * lagsum(x, m, lag, k - 1) + a * a * ((p - m) * (q - m)) == a * a * (lagsum(x, m, lag, k - 1) + (p - m) * (q - m))) by(nonlinear_arith);
        } else {
            assert(a * a * 0real == 0real) by(nonlinear_arith);
        }
    }
    /// the autocovariance at every lag scales by a^2 under x -> a x + b
    pub proof fn lemma_acov_affine(x: Seq<Fl>, y: Seq<Fl>, a: real, b: real, lag: int)
        requires x.len() >= 1, y.len() == x.len(), 0 <= lag < x.len(), forall |i: int| 0 <= i < x.len() ==> rv(#[trigger] y[i]) == a * rv(x[i]) + b
        ensures acov(y, lag) == a * a * acov(x, lag)      // [C12.autocovariance_scales_by_a_squared_under_affine_maps]
    {
        let n = x.len() as int;
        let nr = n as real;
        lemma_rsum_affine(x, y, a, b, n);
        let sx = rsum(x, n);
        assert((a * sx + b * nr) / nr == a * (sx / nr) + b) by(nonlinear_arith) requires nr >= 1real;
        lemma_lagsum_affine(x, y, a, b, rmean(x), lag, n - lag);
        let l = lagsum(x, rmean(x), lag, n - lag);
        assert((a * a * l) / nr == a * a * (l / nr)) by(nonlinear_arith) requires nr >= 1real;
    }
    /// ... hence the autocorrelation estimate rho_t = 1 - (W - mean acov_t)/var+ (W, var+ and acov all scale by a^2), and with it
    /// tau and the ESS, is unchanged
    pub proof fn lemma_rho_affine(w: real, v: real, s: real, c: real, a: real)
        requires a != 0real, v != 0real, c != 0real
        ensures 1real - (a * a * w - (a * a * s) / c) / (a * a * v) == 1real - (w - s / c) / v      // [C12.rho_unchanged_by_affine_rescaling]
    {
        assert(a * a != 0real) by(nonlinear_arith) requires a != 0real;
        assert((a * a * s) / c == a * a * (s / c)) by(nonlinear_arith) requires c != 0real;
        assert(a * a * w - a * a * (s / c) == a * a * (w - s / c)) by(nonlinear_arith);
        assert((a * a * (w - s / c)) / (a * a * v) == (w - s / c) / v) by(nonlinear_arith) requires a * a != 0real, v != 0real;
    }

    // ---- C12 corollary: time reversal x_t -> x_{n-1-t} (real arithmetic) ------------------------------------
    /// sum over i < k of f(i)
    pub open spec fn gsum(f: spec_fn(int) -> real, k: int) -> real decreases k {
        if k <= 0 { 0real } else { gsum(f, k - 1) + f(k - 1) }
    }
    pub proof fn lemma_gsum_ext(f: spec_fn(int) -> real, g: spec_fn(int) -> real, k: int)
        requires forall |i: int| 0 <= i < k ==> #[trigger] g(i) == f(i)
        ensures gsum(g, k) == gsum(f, k)
        decreases k
    {
        if k > 0 { lemma_gsum_ext(f, g, k - 1); }
    }
    pub proof fn lemma_gsum_shift(f: spec_fn(int) -> real, g: spec_fn(int) -> real, k: int)
        requires k >= 0, forall |i: int| 0 <= i < k ==> #[trigger] g(i) == f(i + 1)
        ensures gsum(f, k + 1) == f(0) + gsum(g, k)
        decreases k
    {
        if k > 0 {
            lemma_gsum_shift(f, g, k - 1);
            assert(g(k - 1) == f(k));
            assert(gsum(f, k + 1) == gsum(f, k) + f(k));
            assert(gsum(g, k) == gsum(g, k - 1) + g(k - 1));
        } else {
            assert(gsum(f, 1) == gsum(f, 0) + f(0));
            assert(gsum(f, 0) == 0real && gsum(g, 0) == 0real);
        }
    }
    /// a finite sum read backwards is the same sum
    pub proof fn lemma_gsum_rev(f: spec_fn(int) -> real, g: spec_fn(int) -> real, k: int)
        requires k >= 0, forall |i: int| 0 <= i < k ==> #[trigger] g(i) == f(k - 1 - i)
        ensures gsum(g, k) == gsum(f, k)
        decreases k
    {
        if k > 0 {
            let f1 = |i: int| f(i + 1);
            assert forall |i: int| 0 <= i < k - 1 implies #[trigger] g(i) == f1(k - 2 - i) by { assert(g(i) == f(k - 1 - i)); }
            lemma_gsum_rev(f1, g, k - 1);
            lemma_gsum_shift(f, f1, k - 1);
            assert(g(k - 1) == f(0));
        }
    }
    pub open spec fn term1(x: Seq<Fl>) -> spec_fn(int) -> real { |i: int| rv(x[i]) }
    pub open spec fn term2(x: Seq<Fl>, m: real, lag: int) -> spec_fn(int) -> real { |t: int| (rv(x[t]) - m) * (rv(x[t + lag]) - m) }
    pub proof fn lemma_rsum_is_gsum(x: Seq<Fl>, k: int)
        ensures rsum(x, k) == gsum(term1(x), k)
        decreases k
    {
        if k > 0 { lemma_rsum_is_gsum(x, k - 1); }
    }
    pub proof fn lemma_lagsum_is_gsum(x: Seq<Fl>, m: real, lag: int, k: int)
        ensures lagsum(x, m, lag, k) == gsum(term2(x, m, lag), k)
        decreases k
    {
        if k > 0 { lemma_lagsum_is_gsum(x, m, lag, k - 1); }
    }
    /// y is x read backwards (values compared as reals)
    pub open spec fn reversed(x: Seq<Fl>, y: Seq<Fl>) -> bool {
        y.len() == x.len() && forall |i: int| 0 <= i < x.len() ==> rv(#[trigger] y[i]) == rv(x[x.len() - 1 - i])
    }
    /// the biased sample autocovariance at every lag is unchanged by time reversal (same mean, the same products in the
    /// opposite order); W and var+ do not depend on the order of the draws either (sums over t), hence neither do rho, tau and the ESS
    pub proof fn lemma_acov_time_reversal(x: Seq<Fl>, y: Seq<Fl>, lag: int)
        requires x.len() >= 1, 0 <= lag < x.len(), reversed(x, y)
        ensures rmean(y) == rmean(x), acov(y, lag) == acov(x, lag)      // [C12.autocovariance_unchanged_by_time_reversal]
    {
        let n = x.len() as int;
        lemma_rsum_is_gsum(x, n);
        lemma_rsum_is_gsum(y, n);
        assert forall |i: int| 0 <= i < n implies #[trigger] term1(y)(i) == term1(x)(n - 1 - i) by { assert(rv(y[i]) == rv(x[n - 1 - i])); }
        lemma_gsum_rev(term1(x), term1(y), n);
        let m = rmean(x);
        let k = n - lag;
        lemma_lagsum_is_gsum(x, m, lag, k);
        lemma_lagsum_is_gsum(y, m, lag, k);
        assert forall |t: int| 0 <= t < k implies #[trigger] term2(y, m, lag)(t) == term2(x, m, lag)(k - 1 - t) by {
            assert(rv(y[t]) == rv(x[n - 1 - t]));
            assert(rv(y[t + lag]) == rv(x[n - 1 - (t + lag)]));
            let (a, b) = (rv(x[n - 1 - t]) - m, rv(x[k - 1 - t]) - m);
            assert(a * b == b * a) by(nonlinear_arith);
        }
        lemma_gsum_rev(term2(x, m, lag), term2(y, m, lag), k);
    }
    /// ASSUMED (not decided): the FFT path computes the same autocovariance as the brute-force path
    /// (needs a contract for rustfft and the circular-convolution theorem)
    #[verifier::external_body]
    fn autocov_fft(sample: ArrayView2<Fl>) -> (r: Array2<Fl>)
        requires fin2(v2(sample)), dim2(sample).0 >= 1
        ensures odim2(r) == dim2(sample), is_autocov(a2(r), v2(sample), dim2(sample).0, dim2(sample).1)
    { unimplemented!() }

    // ---- the FFT path's zero padding (statement slice of autocov_fft: the two statements that compute `n_padded`) ----
    /// The rest of autocov_fft (planner, per-column FFT / |.|^2 / inverse FFT, normalisation, transposition) stays an assumed
    /// contract; what IS proved of it here is the premise of the circular-convolution argument: the padded length is a power
    /// of two, at least 2n - 1 (so that the circular autocorrelation of the zero-padded series has no wrap-around at the lags
    /// 0..n, lemma_circular_equals_linear_when_padded) and less than twice that.
    pub open spec fn is_pow2(x: int) -> bool decreases x { if x <= 1 { x == 1 } else { x % 2 == 0 && is_pow2(x / 2) } }
    /// the centred series padded with zeros: z_t = x_t - m for t < n, 0 beyond
    pub open spec fn padded(x: Seq<Fl>, m: real) -> spec_fn(int) -> real { |t: int| if 0 <= t < x.len() { rv(x[t]) - m } else { 0real } }
    /// one term of the circular autocorrelation with period l
    pub open spec fn circ_term(z: spec_fn(int) -> real, l: int, lag: int) -> spec_fn(int) -> real { |t: int| z(t) * z((t + lag) % l) }
    /// circular autocorrelation at `lag` over period l: sum_{t < l} z_t z_{(t + lag) mod l}  (what forward FFT, |.|^2, inverse FFT
    /// compute up to the factor l — the ASSUMED contract of rustfft)
    pub open spec fn circ(z: spec_fn(int) -> real, l: int, lag: int) -> real { gsum(circ_term(z, l, lag), l) }
    pub proof fn lemma_gsum_zero_tail(f: spec_fn(int) -> real, k0: int, k: int)
        requires 0 <= k0 <= k, forall |t: int| k0 <= t < k ==> #[trigger] f(t) == 0real
        ensures gsum(f, k) == gsum(f, k0)
        decreases k - k0
    {
        if k > k0 { lemma_gsum_zero_tail(f, k0, k - 1); assert(f(k - 1) == 0real); }
    }
    /// with at least n - 1 zeros of padding (period l >= 2n - 1) the circular autocorrelation of the padded series has no
    /// wrap-around at the lags 0..n: it IS the lagged sum of the biased sample autocovariance
    pub proof fn lemma_circular_equals_linear_when_padded(x: Seq<Fl>, m: real, l: int, lag: int)
        requires x.len() >= 1, 0 <= lag < x.len(), l >= 2 * x.len() - 1
        ensures circ(padded(x, m), l, lag) == lagsum(x, m, lag, x.len() - lag)      // [C12.zero_padded_circular_autocorrelation_is_the_linear_one]
    {
        let n = x.len() as int;
        let z = padded(x, m);
        let f = circ_term(z, l, lag);
        // terms t >= n - lag vanish: either z_t = 0 (t >= n) or the partner index t + lag lies in [n, l) where z = 0
        assert forall |t: int| n - lag <= t < l implies #[trigger] f(t) == 0real by {
            if t < n {
                assert(n <= t + lag < l);
                assert((t + lag) % l == t + lag) by(nonlinear_arith) requires 0 <= t + lag < l;
                assert(z(t + lag) == 0real);
                assert(z(t) * 0real == 0real) by(nonlinear_arith);
            } else {
                assert(z(t) == 0real);
                assert(0real * z((t + lag) % l) == 0real) by(nonlinear_arith);
            }
        }
        lemma_gsum_zero_tail(f, n - lag, l);
        // the remaining terms are those of the lagged sum
        assert forall |t: int| 0 <= t < n - lag implies #[trigger] f(t) == term2(x, m, lag)(t) by {
            assert((t + lag) % l == t + lag) by(nonlinear_arith) requires 0 <= t + lag < l;
        }
        lemma_gsum_ext(term2(x, m, lag), f, n - lag);
        lemma_lagsum_is_gsum(x, m, lag, n - lag);
    }
    pub mod fft_padding {
        use super::*;
        #[verifier::exec_allows_no_decreases_clause]
        pub fn autocov_fft(n: usize) -> (n_padded: usize)
            requires 1 <= n <= 0x2000_0000_0000_0000
            ensures n_padded >= 2 * n - 1, is_pow2(n_padded as int), n_padded < 2 * (2 * n - 1) || n_padded == 1      // [C12.fft_zero_padding_is_a_power_of_two_at_least_2n_minus_1]
        //@body id=autocov_fft_pad file=src/stats.rs name=autocov_fft props=C12 slice_from="^let mut n_padded" slice_to="^while n_padded" slice_result=n_padded
        //@sig fn autocov_fft (sample : ArrayView2 < f32 >) -> Array2 < f32 >
        //@rules
        //@loop 1
        //@| invariant 1 <= n <= 0x2000_0000_0000_0000, 1 <= n_padded, is_pow2(n_padded as int), n_padded < 2 * (2 * n - 1) || n_padded == 1,
        //@anchor dbl scope=loop:1 pos=start
        //@| let ghost old_p = n_padded;
        //@| proof { assert(old_p < 0x4000_0000_0000_0000); assert(old_p << 1 == 2 * old_p) by(bit_vector) requires old_p < 0x4000_0000_0000_0000usize; }
        //@anchor dbl2 scope=loop:1 pos=end
        //@| proof { assert(n_padded == 2 * old_p); assert(is_pow2(n_padded as int)) by { assert((2 * old_p) / 2 == old_p); } }
        //@end
    }

    fn autocov_bf(data: ArrayView2<Fl>) -> (out: Array2<Fl>)
        requires fin2(v2(data)), dim2(data).0 >= 1
        ensures odim2(out) == dim2(data), is_autocov(a2(out), v2(data), dim2(data).0, dim2(data).1)    // [C12.autocov_bf_is_the_biased_sample_autocovariance]
    //@body id=autocov_bf file=src/stats.rs name=autocov_bf props=C12
    //@sig fn autocov_bf (data : ArrayView2 < f32 >) -> Array2 < f32 >
    //@rules R-f64 R-par R-axisiter R-lit R-cast R-index
    //@index col_data:nd_index_a1
    //@anchor g0 scope=fn pos=after match="^let mut out ="
    //@| let ghost x = v2(data);
    //@| proof { assert(rect2(x, n as int, d as int)); assert(odim2(out) == (n as int, d as int)); }
    //@loop 1 iter=it1
    //@| invariant
    //@|     it1.iter.end == d, n == dim2(data).0, d == dim2(data).1, n >= 1, x == v2(data), fin2(x), rect2(x, n as int, d as int),
    //@|     odim2(out) == (n as int, d as int), rect2(a2(out), n as int, d as int),
    //@|     forall |lag: int, j: int| 0 <= lag < n && 0 <= j < col_idx ==> (#[trigger] a2(out)[lag][j]) == fl(acov(colv(x, j), lag)),
    //@anchor c0 scope=loop:1 pos=after match="^let col_data = col_data"
    //@| let ghost xc = colv(x, col_idx as int);
    //@| let ghost m = rmean(xc);
    //@| proof {
    //@|     assert(fin1(xc));
    //@|     assert forall |t: int| 0 <= t < n implies (#[trigger] a1(col_data)[t]) == fl(rv(xc[t]) - m) by {}
    //@| }
    //@loop 2 iter=it2
    //@| invariant
    //@|     it2.iter.end == n, n == dim2(data).0, d == dim2(data).1, n >= 1, col_idx < d, xc == colv(x, col_idx as int), xc.len() == n, m == rmean(xc), fin1(xc),
    //@|     a1(col_data).len() == n, forall |t: int| 0 <= t < n ==> (#[trigger] a1(col_data)[t]) == fl(rv(xc[t]) - m),
    //@|     odim2(out) == (n as int, d as int), rect2(a2(out), n as int, d as int),
    //@|     forall |l: int, j: int| 0 <= l < n && 0 <= j < col_idx ==> (#[trigger] a2(out)[l][j]) == fl(acov(colv(x, j), l)),
    //@|     forall |l: int| 0 <= l < lag ==> (#[trigger] a2(out)[l][col_idx as int]) == fl(acov(xc, l)),
    //@loop 3 iter=it3
    //@| invariant
    //@|     it3.iter.end == n - lag, lag < n, a1(col_data).len() == n, xc.len() == n,
    //@|     forall |t: int| 0 <= t < n ==> (#[trigger] a1(col_data)[t]) == fl(rv(xc[t]) - m),
    //@|     sum_lag == fl(lagsum(xc, m, lag as int, t as int)),
    //@end

    fn autocov(sample: ArrayView2<Fl>) -> (r: Array2<Fl>)
        requires fin2(v2(sample)), dim2(sample).0 >= 1
        ensures odim2(r) == dim2(sample), is_autocov(a2(r), v2(sample), dim2(sample).0, dim2(sample).1)      // [C12.autocov_same_result_whichever_path_is_selected]
    //@body id=autocov file=src/stats.rs name=autocov props=C12
    //@sig fn autocov (sample : ArrayView2 < f32 >) -> Array2 < f32 >
    //@rules R-f64
    //@end

    // ---- C12: ESS = M N / tau with Geyer's initial positive, monotone pair sums, written from the statement ----
    /// per-chain autocovariances: acovs[c][t][p]
    pub open spec fn acovs_ok(acovs: Seq<Seq<Seq<Fl>>>, x: Seq<Seq<Seq<Fl>>>, c: int, n: int, np: int) -> bool {
        &&& acovs.len() == c
        &&& forall |i: int| 0 <= i < c ==> is_autocov(#[trigger] acovs[i], x[i], n, np)
    }
    /// rho_t = 1 - (W - mean_c acov_c[t]) / var+   (multi-chain autocorrelation estimate)
    pub open spec fn rho_real(acovs: Seq<Seq<Seq<Fl>>>, w: real, v: real, t: int, p: int, c: int) -> real {
        1real - (w - ssum(acovs, t, p, c) / (c as real)) / v
    }
    // ---- C12 corollary: exchanging two chains ------------------------------------------------------------------
    /// b is a with the slabs i < j exchanged
    pub open spec fn slabs_swapped(a: Seq<Seq<Seq<Fl>>>, b: Seq<Seq<Seq<Fl>>>, i: int, j: int) -> bool {
        &&& 0 <= i < j < a.len() && b.len() == a.len() && b[i] == a[j] && b[j] == a[i]
        &&& forall |k: int| 0 <= k < a.len() && k != i && k != j ==> (#[trigger] b[k]) == a[k]
    }
    pub proof fn lemma_ssum_swap(a: Seq<Seq<Seq<Fl>>>, b: Seq<Seq<Seq<Fl>>>, i: int, j: int, t: int, p: int, k: int)
        requires slabs_swapped(a, b, i, j), 0 <= k <= a.len()
        ensures
            k <= i ==> ssum(b, t, p, k) == ssum(a, t, p, k),
            i < k <= j ==> ssum(b, t, p, k) == ssum(a, t, p, k) - rv(a[i][t][p]) + rv(a[j][t][p]),
            k > j ==> ssum(b, t, p, k) == ssum(a, t, p, k),
        decreases k
    {
        if k > 0 {
            lemma_ssum_swap(a, b, i, j, t, p, k - 1);
            if k - 1 != i && k - 1 != j { assert(b[k - 1] == a[k - 1]); }
        }
    }
    /// the multi-chain autocorrelation estimate averages the per-chain autocovariances: exchanging two chains (their
    /// autocovariance slabs are exchanged with them) leaves it unchanged; W and var+ are covered by C11's swap lemma
    pub proof fn lemma_rho_chain_swap_invariant(a: Seq<Seq<Seq<Fl>>>, b: Seq<Seq<Seq<Fl>>>, i: int, j: int, w: real, v: real, t: int, p: int)
        requires slabs_swapped(a, b, i, j)
        ensures rho_real(b, w, v, t, p, a.len() as int) == rho_real(a, w, v, t, p, a.len() as int)      // [C12.rho_unchanged_by_permuting_chains]
    {
        lemma_ssum_swap(a, b, i, j, t, p, a.len() as int);
    }

    /// Geyer's scheme after k pairs: (sum so far, running minimum, stopped?) — P_k = rho_{2k} + rho_{2k+1}; the sum stops at the
    /// first P_k <= 0; each kept term is min(previous kept term, P_k)
    pub open spec fn geyer(r: Seq<Fl>, k: int) -> (real, real, bool) decreases k {
        if k <= 0 { (0real, if r.len() >= 2 { rv(r[0]) + rv(r[1]) } else { 0real }, false) }
        else {
            let (o, m, st) = geyer(r, k - 1);
            if st { (o, m, true) } else {
                let p = rv(r[2 * (k - 1)]) + rv(r[2 * (k - 1) + 1]);
                if p <= 0real { (o, m, true) } else { let ph = if p > m { m } else { p }; (o + ph, ph, false) }
            }
        }
    }
    pub proof fn lemma_geyer_stays_stopped(r: Seq<Fl>, k: int, k2: int)
        requires 0 <= k <= k2, geyer(r, k).2
        ensures geyer(r, k2) == geyer(r, k)
        decreases k2 - k
    {
        if k < k2 { lemma_geyer_stays_stopped(r, k, k2 - 1); }
    }
    /// tau = -1 + 2 * (Geyer sum over all floor(n/2) pairs)
    pub open spec fn tau_real(r: Seq<Fl>) -> real { -1real + 2real * geyer(r, win_count(r.len() as int, 2, 2)).0 }
    pub open spec fn rho_col(acovs: Seq<Seq<Seq<Fl>>>, w: real, v: real, p: int, c: int, n: int) -> Seq<Fl> {
        Seq::new(n as nat, |t: int| fl(rho_real(acovs, w, v, t, p, c)))
    }
    /// what `ess` returns for parameter p
    pub open spec fn ess_post(x: Seq<Seq<Seq<Fl>>>, w: Seq<Fl>, v: Seq<Fl>, c: int, n: int, np: int, out: Seq<Fl>) -> bool {
        exists |acovs: Seq<Seq<Seq<Fl>>>| #[trigger] acovs_ok(acovs, x, c, n, np) && out.len() == np
            && forall |p: int| 0 <= p < np && rv(v[p]) != 0real ==> {
                let tau = tau_real(rho_col(acovs, rv(w[p]), rv(v[p]), p, c, n));
                tau != 0real ==> (#[trigger] out[p]) == fl(((1real / tau) * (c as real)) * (n as real))
            }
    }

    fn ess(sample: ArrayView3<Fl>, within: ArrayView1<Fl>, var: ArrayView1<Fl>) -> (r: Array1<Fl>)
        requires fin3(v3(sample)), dim3(sample).0 >= 1, dim3(sample).1 >= 1, v1(within).len() == dim3(sample).2, v1(var).len() == dim3(sample).2,
            fin1(v1(within)), fin1(v1(var)),
        ensures ess_post(v3(sample), v1(within), v1(var), dim3(sample).0, dim3(sample).1, dim3(sample).2, a1(r))     // [C12.ess_is_MN_over_tau_with_geyer_monotone_pair_sums]
    //@body id=ess file=src/stats.rs name=ess props=C12
    //@sig fn ess (sample : ArrayView3 < f32 > , within : ArrayView1 < f32 > , var : ArrayView1 < f32 >) -> Array1 < f32 >
    //@rules R-f64 R-par R-mapcollect R-windows R-lit R-cast R-index
    //@index rho_d:nd_index_a1x rho_t:nd_index_v1c
    //@outtype __vx_out1 Vec<Array2<Fl>>
    //@outtype __vx_out2 Vec<ArrayView2<Fl>>
    //@outtype __vx_out3 Vec<Fl>
    //@anchor g0 scope=fn pos=after match="^let \\(n_chains"
    //@| let ghost x = v3(sample);
    //@| let ghost cc = n_chains as int; let ghost nn = n_steps as int; let ghost pp = n_params as int;
    //@| proof { assert(rect3(x, cc, nn, pp)); }
    //@loop 1 iter=it1
    //@| invariant
    //@|     it1.iter.end == n_chains, n_chains == cc, n_steps == nn, n_params == pp, cc == dim3(sample).0, nn == dim3(sample).1, pp == dim3(sample).2, x == v3(sample), fin3(x), nn >= 1, rect3(x, cc, nn, pp),
    //@|     __vx_out1@.len() == c,
    //@|     forall |i: int| 0 <= i < c ==> odim2(#[trigger] __vx_out1@[i]) == (nn, pp) && is_autocov(a2(__vx_out1@[i]), x[i], nn, pp),
    //@loop 2 iter=it2
    //@| invariant
    //@|     it2.iter.end == chain_rho.len(), __vx_out2@.len() == __vx_k1,
    //@|     forall |i: int| 0 <= i < __vx_k1 ==> v2(#[trigger] __vx_out2@[i]) == a2(chain_rho@[i]),
    //@anchor a1 scope=fn pos=after match="^let chain_rho : Vec < ArrayView2"
    //@| let ghost acs: Seq<Seq<Seq<Fl>>> = Seq::new(cc as nat, |i: int| v2(chain_rho@[i]));
    //@| proof {
    //@|     assert forall |i: int| 0 <= i < cc implies dim2(#[trigger] chain_rho@[i]) == (nn, pp) by {}
    //@|     assert(acovs_ok(acs, x, cc, nn, pp));
    //@| }
    //@anchor a2 scope=fn pos=after match="^let chain_rho = stack"
    //@| proof { assert(a3(chain_rho) =~= acs); assert(odim3(chain_rho) == (cc, nn, pp)); assert(fin3(a3(chain_rho))); }
    //@anchor a3 scope=fn pos=after match="^let rho ="
    //@| proof {
    //@|     assert(odim2(rho) == (nn, pp));
    //@|     assert forall |t: int, p: int| 0 <= t < nn && 0 <= p < pp && rv(v1(var)[p]) != 0real implies
    //@|         (#[trigger] a2(rho)[t][p]) == fl(rho_real(acs, rv(v1(within)[p]), rv(v1(var)[p]), t, p, cc)) by {}
    //@| }
    //@loop 3 iter=it3
    //@| invariant
    //@|     it3.iter.end == n_params, n_chains == cc, n_steps == nn, n_params == pp, nn >= 1, odim2(rho) == (nn, pp), rect2(a2(rho), nn, pp),
    //@|     forall |t: int, p: int| 0 <= t < nn && 0 <= p < pp && rv(v1(var)[p]) != 0real ==>
    //@|         (#[trigger] a2(rho)[t][p]) == fl(rho_real(acs, rv(v1(within)[p]), rv(v1(var)[p]), t, p, cc)),
    //@|     __vx_out3@.len() == d,
    //@|     forall |q: int| 0 <= q < d && rv(v1(var)[q]) != 0real ==> (#[trigger] __vx_out3@[q]) == fl(tau_real(rho_col(acs, rv(v1(within)[q]), rv(v1(var)[q]), q, cc, nn))),
    //@anchor r0 scope=loop:3 pos=after match="^let rho_d ="
    //@| let ghost ok = rv(v1(var)[d as int]) != 0real;
    //@| let ghost rc = rho_col(acs, rv(v1(within)[d as int]), rv(v1(var)[d as int]), d as int, cc, nn);
    //@| let ghost kk = win_count(nn, 2, 2);
    //@| proof { if ok { assert(a1(rho_d) =~= rc); } assert(a1(rho_d).len() == nn); }
    //@anchor r1 scope=loop:3 pos=after match="^let mut out ="
    //@| let ghost mut stopped = false;
    //@loop 4 iter=it4
    //@| invariant_except_break
    //@|     !stopped,
    //@|     ok ==> val(out) is Fin && val(min) is Fin && (rv(out), rv(min), false) == geyer(rc, __vx_w1 as int),
    //@| invariant
    //@|     it4.iter.end == kk, kk == win_count(nn, 2, 2), a1(rho_d).len() == nn, nn >= 1, ok ==> a1(rho_d) == rc, rc.len() == nn,
    //@|     rc == rho_col(acs, rv(v1(within)[d as int]), rv(v1(var)[d as int]), d as int, cc, nn),
    //@| ensures
    //@|     ok ==> val(out) is Fin && rv(out) == geyer(rc, kk).0,
    //@anchor w0 scope=loop:4 pos=after match="^let rho_t ="
    //@| proof { assert(v1(rho_t)[0] == a1(rho_d)[2 * __vx_w1]); assert(v1(rho_t)[1] == a1(rho_d)[2 * __vx_w1 + 1]); }
    //@anchor w05 scope=loop:4 pos=after match="^let mut p_t ="
    //@| let ghost pw: real = rv(rc[2 * __vx_w1]) + rv(rc[2 * __vx_w1 + 1]);
    //@| let ghost g0 = geyer(rc, __vx_w1 as int);
    //@| proof { if ok { assert(rc[2 * __vx_w1] == fl(rv(rc[2 * __vx_w1])));
    //@|   assert(p_t == fl(pw));
    //@|   assert(!g0.2);
    //@|   assert(geyer(rc, __vx_w1 + 1) == (if pw <= 0real { (g0.0, g0.1, true) } else { let ph = if pw > g0.1 { g0.1 } else { pw }; (g0.0 + ph, ph, false) })); } }
    //@anchor w1 scope=loop:4 pos=before match="^break"
    //@| proof {
    //@|     stopped = true;
    //@|     if ok { assert(geyer(rc, __vx_w1 + 1).2 && geyer(rc, __vx_w1 + 1).0 == rv(out)); lemma_geyer_stays_stopped(rc, __vx_w1 + 1, kk); }
    //@| }
    //@anchor t0 scope=loop:3 pos=end
    //@| proof { if ok { assert(__vx_out3@[d as int] == fl(tau_real(rc))); } }
    //@anchor fin scope=fn pos=after match="^let tau = Array1"
    //@| proof { assert(acovs_ok(acs, x, cc, nn, pp)); }
    //@end
}
} // verus!
fn main() {}