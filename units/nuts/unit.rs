//@unit nuts — src/nuts.rs: leapfrog, stop_criterion, build_tree, NUTSChain::step (C03, C04, C14), init/run/seeding (C09, C07, C08)
#![allow(unused_imports, unused_variables, dead_code, unused_mut, non_snake_case, unused_parens, unused_labels)]
use vstd::prelude::*;
verus! {
// ASSUMPTION (listed): a 64-bit target, as on every platform burn supports
global size_of usize == 8;
//@include prelude/float.rs
//@include prelude/rng.rs
//@include prelude/tensor.rs
//@include prelude/progress.rs

// loops are verified in the context of their function (facts about values bound before a loop need no restating in
// its invariant: hoisting a sub-expression out of a loop must not break the proof)
#[verifier::loop_isolation(false)]
pub mod unit_nuts {
    use vstd::prelude::*;
    use vstd::std_specs::iter::IteratorSpec;
    use super::fl::*;
    use super::rng::*;
    use super::tn::*;
    use super::pg::*;
    broadcast use super::fl::fl_axioms, super::rng::rng_axioms, super::tn::tn_axioms, super::tn::ax_tdim2;

    // R-float: `T: Float` is the abstract float
    pub type T = Fl;

    /// `GradientTarget<T, B>` — ASSUMED law: `unnorm_logp_and_grad(position)` returns (lp(position), grad(position)) as
    /// functions of the position's contents (the default method's plumbing is verified in its own right below;
    /// that burn's autodiff value *is* the analytic gradient is the assumption).
    pub trait GradientTarget<B: AutodiffBackend> {
        spec fn lp(&self, x: V) -> XR;
        spec fn grad(&self, x: V) -> V;
        fn unnorm_logp_and_grad(&self, position: Tensor<B, 1>) -> (r: (Tensor<B, 1>, Tensor<B, 1>))
            ensures v1(r.0) == seq![self.lp(v1(position))], v1(r.1) == self.grad(v1(position));
    }

    // ---- C03: Algorithm 6 of Hoffman & Gelman (2014), transcribed from the paper -----------------
    pub struct Pt { pub x: V, pub r: V, pub g: V }
    pub struct Tree { pub minus: Pt, pub plus: Pt, pub cx: V, pub cg: V, pub clp: XR, pub n: nat, pub s: bool, pub alpha: XR, pub n_alpha: nat }
    pub open spec fn half() -> XR { XR::Fin(1real / 2real) }
    /// one leapfrog step of size e with the carried gradient
    pub open spec fn lf<B: AutodiffBackend, G: GradientTarget<B>>(t: &G, p: Pt, e: XR) -> (Pt, XR) {
        let r1 = vadd(p.r, vscale(vscale(p.g, e), half()));
        let x1 = vadd(p.x, vscale(r1, e));
        let g1 = t.grad(x1);
        let r2 = vadd(r1, vscale(vscale(g1, e), half()));
        (Pt { x: x1, r: r2, g: g1 }, t.lp(x1))
    }
    /// joint log-density L(theta) - r.r/2
    pub open spec fn joint_of(lp: XR, r: V) -> XR { xr_sub(lp, xr_mul(vdot(r, r), half())) }
    /// no U-turn between the two ends: (theta+ - theta-).r- >= 0 and (theta+ - theta-).r+ >= 0
    pub open spec fn no_uturn(m: Pt, p: Pt) -> bool {
        let d = vsub(p.x, m.x);
        xr_ge(vdot(d, m.r), XR::Fin(0real)) && xr_ge(vdot(d, p.r), XR::Fin(0real))
    }
    pub open spec fn max1(n: nat) -> nat { if n >= 1 { n } else { 1 } }
    /// BuildTree(theta, r, u, v, j, eps, theta0, r0) threading the generator state; Delta_max = 1000
    #[verifier::opaque]
    pub open spec fn bt<B: AutodiffBackend, G: GradientTarget<B>>(t: &G, p: Pt, logu: XR, v: int, j: nat, eps: XR, joint0: XR, s: RngState) -> (Tree, RngState)
        decreases j
    {
        if j == 0 {
            let (p1, lp1) = lf::<B, G>(t, p, xr_mul(XR::Fin(v as real), eps));
            let jt = joint_of(lp1, p1.r);
            (Tree { minus: p1, plus: p1, cx: p1.x, cg: p1.g, clp: lp1,
                    n: if xr_lt(logu, jt) { 1 } else { 0 },
                    s: xr_lt(xr_sub(logu, XR::Fin(1000real)), jt),
                    alpha: xr_min(XR::Fin(1real), xr_exp(xr_sub(jt, joint0))), n_alpha: 1 }, s)
        } else {
            let (t1, s1) = bt::<B, G>(t, p, logu, v, (j - 1) as nat, eps, joint0, s);
            if !t1.s { (t1, s1) } else {
                let (t2, s2) = bt::<B, G>(t, if v == -1 { t1.minus } else { t1.plus }, logu, v, (j - 1) as nat, eps, joint0, s1);
                let u = val(unif_out(s2));
                let minus = if v == -1 { t2.minus } else { t1.minus };
                let plus = if v == -1 { t1.plus } else { t2.plus };
                let take2 = xr_lt(u, xr_div(XR::Fin(t2.n as real), XR::Fin(max1(t1.n + t2.n) as real)));
                (Tree { minus, plus,
                        cx: if take2 { t2.cx } else { t1.cx }, cg: if take2 { t2.cg } else { t1.cg }, clp: if take2 { t2.clp } else { t1.clp },
                        n: t1.n + t2.n, s: t2.s && no_uturn(minus, plus),
                        alpha: xr_add(t1.alpha, t2.alpha), n_alpha: t1.n_alpha + t2.n_alpha }, unif_next(s2))
            }
        }
    }
    pub open spec fn pt_of<B: AutodiffBackend>(x: Tensor<B, 1>, r: Tensor<B, 1>, g: Tensor<B, 1>) -> Pt { Pt { x: v1(x), r: v1(r), g: v1(g) } }
    pub open spec fn tree_eq<B: AutodiffBackend>(o: (Tensor<B, 1>, Tensor<B, 1>, Tensor<B, 1>, Tensor<B, 1>, Tensor<B, 1>, Tensor<B, 1>, Tensor<B, 1>, Tensor<B, 1>, Tensor<B, 1>, usize, bool, T, usize), t: Tree) -> bool {
        &&& pt_of(o.0, o.1, o.2) == t.minus
        &&& pt_of(o.3, o.4, o.5) == t.plus
        &&& v1(o.6) == t.cx && v1(o.7) == t.cg && v1(o.8) == seq![t.clp]
        &&& o.9 == t.n && o.10 == t.s && val(o.11) == t.alpha && o.12 == t.n_alpha
    }

    fn leapfrog<B: AutodiffBackend, GTarget: GradientTarget<B>>(position: Tensor<B, 1>, mom: Tensor<B, 1>, grad: Tensor<B, 1>, epsilon: T, gradient_target: &GTarget)
        -> (out: (Tensor<B, 1>, Tensor<B, 1>, Tensor<B, 1>, Tensor<B, 1>))
        ensures ({ let (p1, lp1) = lf::<B, GTarget>(gradient_target, pt_of(position, mom, grad), val(epsilon));
                   pt_of(out.0, out.1, out.2) == p1 && v1(out.3) == seq![lp1] })            // [C03.leapfrog_is_one_verlet_step_with_carried_gradient]
    //@body id=nuts_leapfrog file=src/nuts.rs name=leapfrog props=C03,C14
    //@sig fn leapfrog < B , T , GTarget > (position : Tensor < B , 1 > , mom : Tensor < B , 1 > , grad : Tensor < B , 1 > , epsilon : T , gradient_target : & GTarget ,) -> (Tensor < B , 1 > , Tensor < B , 1 > , Tensor < B , 1 > , Tensor < B , 1 >) where T : Float + ElementConversion , B : AutodiffBackend , GTarget : GradientTarget < T , B > ,
    //@rules R-lit
    //@end

    // ---- C04: the doubling/halving heuristic for the first step size (Hoffman & Gelman Algorithm 4, as ported) ----
    /// log acceptance ratio of one leapfrog step of size e from (x, r):  L(x') - L(x) - (r'.r' - r.r)/2
    pub open spec fn lap<B: AutodiffBackend, G: GradientTarget<B>>(t: &G, x: V, r: V, e: XR) -> XR {
        let (p1, lp1) = lf::<B, G>(t, Pt { x: x, r: r, g: t.grad(x) }, e);
        xr_sub(xr_sub(lp1, t.lp(x)), xr_mul(xr_sub(vdot(p1.r, p1.r), vdot(r, r)), half()))
    }
    pub open spec fn ln2() -> XR { xr_ln(XR::Fin(2real)) }
    /// direction: double (a = 1) when the acceptance ratio of the first trial step exceeds 1/2, halve (a = -1) otherwise
    pub open spec fn dir(l: XR) -> real { if xr_gt(l, xr_ln(half())) { 1real } else { -1real } }
    /// keep doubling / halving while  a * log ratio > -a * ln 2,  i.e. while (ratio)^a > 2^(-a)
    pub open spec fn keep_going(a: real, l: XR) -> bool { xr_gt(xr_mul(XR::Fin(a), l), xr_mul(XR::Fin(-a), ln2())) }
    pub open spec fn fac(a: real) -> real { if a == 1real { 2real } else { 1real / 2real } }
    /// the i-th candidate: k/2 * (2^a)^i
    pub open spec fn eps_seq(k: real, a: real, i: nat) -> real decreases i { if i == 0 { k / 2real } else { eps_seq(k, a, (i - 1) as nat) * fac(a) } }
    pub open spec fn hpow(j: nat) -> real decreases j { if j == 0 { 1real } else { hpow((j - 1) as nat) / 2real } }
    pub open spec fn all_fin(v: V) -> bool { !(exists |i: int| 0 <= i < v.len() && !((#[trigger] v[i]) is Fin)) }
    /// the first trial step 2^-j is backed off while its log-density AND the gradient of the very first trial (step 1) are both not finite
    pub open spec fn backoff<B: AutodiffBackend, G: GradientTarget<B>>(t: &G, x: V, r: V, j: nat) -> bool {
        let p0 = Pt { x: x, r: r, g: t.grad(x) };
        !(lf::<B, G>(t, p0, XR::Fin(hpow(j))).1 is Fin) && !all_fin(lf::<B, G>(t, p0, XR::Fin(1real)).0.g)
    }
    /// `e` is what the heuristic returns after j back-off halvings and n doubling/halving steps
    pub open spec fn heuristic<B: AutodiffBackend, G: GradientTarget<B>>(t: &G, x: V, r: V, j: nat, n: nat, e: XR) -> bool {
        let k = hpow(j);
        let l0 = lap::<B, G>(t, x, r, XR::Fin(k));
        let a = dir(l0);
        &&& forall |i: nat| i < j ==> #[trigger] backoff::<B, G>(t, x, r, i)
        &&& !backoff::<B, G>(t, x, r, j)
        &&& e == XR::Fin(eps_seq(k, a, n))
        &&& n == 0 ==> !keep_going(a, l0)
        &&& n > 0 ==> keep_going(a, l0) && !keep_going(a, lap::<B, G>(t, x, r, XR::Fin(eps_seq(k, a, n))))
        &&& forall |i: nat| 1 <= i < n ==> keep_going(a, lap::<B, G>(t, x, r, XR::Fin(#[trigger] eps_seq(k, a, i))))
    }
    proof fn lemma_hpow_pos(j: nat) ensures hpow(j) > 0real decreases j { if j > 0 { lemma_hpow_pos((j - 1) as nat); } }
    proof fn lemma_eps_seq_pos(k: real, a: real, i: nat) requires k > 0real ensures eps_seq(k, a, i) > 0real decreases i {
        if i > 0 {
            lemma_eps_seq_pos(k, a, (i - 1) as nat);
            assert(eps_seq(k, a, (i - 1) as nat) * fac(a) > 0real) by(nonlinear_arith) requires eps_seq(k, a, (i - 1) as nat) > 0real, fac(a) > 0real;
        }
    }

    #[verifier::exec_allows_no_decreases_clause]
    fn find_reasonable_epsilon<B: AutodiffBackend, GTarget: GradientTarget<B>>(position: Tensor<B, 1>, mom: Tensor<B, 1>, gradient_target: &GTarget) -> (r: T)
        ensures val(r) is Fin && val(r)->Fin_0 > 0real,       // [C04.initial_step_size_is_positive_and_finite]
            exists |j: nat, n: nat| heuristic::<B, GTarget>(gradient_target, v1(position), v1(mom), j, n, val(r)),     // [C04.initial_step_size_is_the_doubling_halving_heuristic]
    //@body id=nuts_find_eps file=src/nuts.rs name=find_reasonable_epsilon props=C04,C14
    //@sig fn find_reasonable_epsilon < B , T , GTarget > (position : Tensor < B , 1 > , mom : Tensor < B , 1 > , gradient_target : & GTarget ,) -> T where T : Float + Element , B : AutodiffBackend , GTarget : GradientTarget < T , B > + Sync ,
    //@rules R-lit R-destruct
    //@anchor g0 scope=fn pos=after match="^let mut k = "
    //@| let ghost mut j: nat = 0;
    //@| let ghost p0 = Pt { x: v1(position), r: v1(mom), g: gradient_target.grad(v1(position)) };
    //@loop 1
    //@| invariant v1(ulogp) == seq![gradient_target.lp(v1(position))], v1(grad) == p0.g,
    //@|     p0 == (Pt { x: v1(position), r: v1(mom), g: gradient_target.grad(v1(position)) }),
    //@|     val(k) == XR::Fin(hpow(j)), val(half) == XR::Fin(1real / 2real), val(epsilon) == XR::Fin(1real), // [C04.initial_step_size_is_the_doubling_halving_heuristic]
    //@|     v1(grad_prime) == lf::<B, GTarget>(gradient_target, p0, XR::Fin(1real)).0.g, // [C04.initial_step_size_is_the_doubling_halving_heuristic]
    //@|     v1(ulogp_prime) == seq![lf::<B, GTarget>(gradient_target, p0, XR::Fin(hpow(j))).1], // [C04.initial_step_size_is_the_doubling_halving_heuristic]
    //@|     v1(mom_prime) == lf::<B, GTarget>(gradient_target, p0, XR::Fin(hpow(j))).0.r, // [C04.initial_step_size_is_the_doubling_halving_heuristic]
    //@|     forall |i: nat| i < j ==> #[trigger] backoff::<B, GTarget>(gradient_target, v1(position), v1(mom), i), // [C04.initial_step_size_is_the_doubling_halving_heuristic]
    //@anchor g1 scope=loop:1 pos=start
    //@| proof {
    //@|     assert(backoff::<B, GTarget>(gradient_target, v1(position), v1(mom), j)) by { // [C04.initial_step_size_is_the_doubling_halving_heuristic]
    //@|         assert(v1(ulogp_prime)[0] == lf::<B, GTarget>(gradient_target, p0, XR::Fin(hpow(j))).1); // [C04.initial_step_size_is_the_doubling_halving_heuristic]
    //@|     }
    //@|     j = j + 1;
    //@| }
    //@anchor g2 scope=loop:1 pos=after match="^k = k \\* half"
    //@| proof { assert(val(k) == XR::Fin(hpow(j))); assert(xr_mul(val(epsilon), val(k)) == XR::Fin(hpow(j))); } // [C04.initial_step_size_is_the_doubling_halving_heuristic]
    //@anchor e0 scope=fn pos=after match="^epsilon = half \\* k \\* epsilon"
    //@| proof {
    //@|     lemma_hpow_pos(j);
    //@|     assert(!backoff::<B, GTarget>(gradient_target, v1(position), v1(mom), j)) by { // [C04.initial_step_size_is_the_doubling_halving_heuristic]
    //@|         assert(v1(ulogp_prime)[0] == lf::<B, GTarget>(gradient_target, p0, XR::Fin(hpow(j))).1); // [C04.initial_step_size_is_the_doubling_halving_heuristic]
    //@|     }
    //@|     assert(val(epsilon) == XR::Fin(eps_seq(hpow(j), 0real, 0))) by(nonlinear_arith) // [C04.initial_step_size_is_the_doubling_halving_heuristic]
    //@|         requires val(epsilon) == XR::Fin((1real / 2real) * hpow(j) * 1real), eps_seq(hpow(j), 0real, 0) == hpow(j) / 2real;
    //@| }
    //@| let ghost l0 = lap::<B, GTarget>(gradient_target, v1(position), v1(mom), XR::Fin(hpow(j)));
    //@| let ghost mut n: nat = 0;
    //@anchor e0b scope=fn pos=after match="^let mut log_accept_prob = "
    //@| proof { assert(val(log_accept_prob) == l0); } // [C04.initial_step_size_is_the_doubling_halving_heuristic]
    //@anchor e0c scope=fn pos=after match="^let a = "
    //@| let ghost ar = dir(l0);
    //@| proof { assert(val(a) == XR::Fin(ar)); assert(eps_seq(hpow(j), ar, 0) == hpow(j) / 2real); } // [C04.initial_step_size_is_the_doubling_halving_heuristic]
    //@loop 2
    //@| invariant v1(ulogp) == seq![gradient_target.lp(v1(position))], v1(grad) == p0.g,
    //@|     p0 == (Pt { x: v1(position), r: v1(mom), g: gradient_target.grad(v1(position)) }),
    //@|     hpow(j) > 0real, ar == dir(l0), ar == 1real || ar == -1real, val(a) == XR::Fin(ar), // [C04.initial_step_size_is_the_doubling_halving_heuristic]
    //@|     l0 == lap::<B, GTarget>(gradient_target, v1(position), v1(mom), XR::Fin(hpow(j))), // [C04.initial_step_size_is_the_doubling_halving_heuristic]
    //@|     val(epsilon) == XR::Fin(eps_seq(hpow(j), ar, n)), // [C04.initial_step_size_is_the_doubling_halving_heuristic]
    //@|     val(log_accept_prob) == (if n == 0 { l0 } else { lap::<B, GTarget>(gradient_target, v1(position), v1(mom), XR::Fin(eps_seq(hpow(j), ar, n))) }), // [C04.initial_step_size_is_the_doubling_halving_heuristic]
    //@|     n > 0 ==> keep_going(ar, l0), // [C04.initial_step_size_is_the_doubling_halving_heuristic]
    //@|     forall |i: nat| 1 <= i < n ==> keep_going(ar, lap::<B, GTarget>(gradient_target, v1(position), v1(mom), XR::Fin(#[trigger] eps_seq(hpow(j), ar, i)))), // [C04.initial_step_size_is_the_doubling_halving_heuristic]
    //@anchor e1a scope=loop:2 pos=start
    //@| proof { assert(keep_going(ar, val(log_accept_prob))); } // [C04.initial_step_size_is_the_doubling_halving_heuristic]
    //@anchor e1 scope=loop:2 pos=after match="^epsilon = epsilon \\* T :: from"
    //@| proof {
    //@|     ax_powf_one(2real); ax_powf_neg_one(2real);
    //@|     assert(powf_r(2real, ar) == fac(ar)); // [C04.initial_step_size_is_the_doubling_halving_heuristic]
    //@|     n = n + 1;
    //@|     assert(val(epsilon) == XR::Fin(eps_seq(hpow(j), ar, n))); // [C04.initial_step_size_is_the_doubling_halving_heuristic]
    //@| }
    //@anchor e2 scope=loop:2 pos=end
    //@| proof { assert(val(log_accept_prob) == lap::<B, GTarget>(gradient_target, v1(position), v1(mom), XR::Fin(eps_seq(hpow(j), ar, n)))); } // [C04.initial_step_size_is_the_doubling_halving_heuristic]
    //@anchor e3 scope=fn pos=end
    //@| proof {
    //@|     lemma_eps_seq_pos(hpow(j), ar, n);
    //@|     assert(!keep_going(ar, val(log_accept_prob))); // [C04.initial_step_size_is_the_doubling_halving_heuristic]
    //@|     assert(heuristic::<B, GTarget>(gradient_target, v1(position), v1(mom), j, n, val(epsilon))); // [C04.initial_step_size_is_the_doubling_halving_heuristic]
    //@| }
    //@end

    fn all_real<B: AutodiffBackend, X>(x: Tensor<B, 1>) -> (r: bool)
        ensures r == !(exists |i: int| 0 <= i < v1(x).len() && !((#[trigger] v1(x)[i]) is Fin))         // [C14.all_real_is_finiteness_of_every_component]
    //@body id=nuts_all_real file=src/nuts.rs name=all_real props=C14
    //@sig fn all_real < B , T > (x : Tensor < B , 1 >) -> bool where T : Float + Element , B : AutodiffBackend ,
    //@rules
    //@end

    fn stop_criterion<B: AutodiffBackend>(position_minus: Tensor<B, 1>, position_plus: Tensor<B, 1>, mom_minus: Tensor<B, 1>, mom_plus: Tensor<B, 1>) -> (r: bool)
        ensures r == no_uturn(Pt { x: v1(position_minus), r: v1(mom_minus), g: seq![] }, Pt { x: v1(position_plus), r: v1(mom_plus), g: seq![] })   // [C03.stop_criterion_is_the_u_turn_test]
    //@body id=nuts_stop_criterion file=src/nuts.rs name=stop_criterion props=C03
    //@sig fn stop_criterion < B > (position_minus : Tensor < B , 1 > , position_plus : Tensor < B , 1 > , mom_minus : Tensor < B , 1 > , mom_plus : Tensor < B , 1 > ,) -> bool where B : AutodiffBackend ,
    //@rules
    //@end

    fn build_tree<B: AutodiffBackend, GTarget: GradientTarget<B>>(position: Tensor<B, 1>, mom: Tensor<B, 1>, grad: Tensor<B, 1>, logu: T, v: i8, j: usize, epsilon: T, gradient_target: &GTarget, joint_0: T, rng: &mut SmallRng)
        -> (out: (Tensor<B, 1>, Tensor<B, 1>, Tensor<B, 1>, Tensor<B, 1>, Tensor<B, 1>, Tensor<B, 1>, Tensor<B, 1>, Tensor<B, 1>, Tensor<B, 1>, usize, bool, T, usize))
        requires v == 1 || v == -1,
            bt::<B, GTarget>(gradient_target, pt_of(position, mom, grad), val(logu), v as int, j as nat, val(epsilon), val(joint_0), state(*old(rng))).0.n <= usize::MAX,
            bt::<B, GTarget>(gradient_target, pt_of(position, mom, grad), val(logu), v as int, j as nat, val(epsilon), val(joint_0), state(*old(rng))).0.n_alpha <= usize::MAX,
        ensures ({ let (t, s) = bt::<B, GTarget>(gradient_target, pt_of(position, mom, grad), val(logu), v as int, j as nat, val(epsilon), val(joint_0), state(*old(rng)));
                   tree_eq(out, t) && state(*final(rng)) == s })                             // [C03.build_tree_is_algorithm_6_BuildTree]
        decreases j
    //@body id=nuts_build_tree file=src/nuts.rs name=build_tree props=C03,C14
    //@sig fn build_tree < B , T , GTarget > (position : Tensor < B , 1 > , mom : Tensor < B , 1 > , grad : Tensor < B , 1 > , logu : T , v : i8 , j : usize , epsilon : T , gradient_target : & GTarget , joint_0 : T , rng : & mut SmallRng ,) -> (Tensor < B , 1 > , Tensor < B , 1 > , Tensor < B , 1 > , Tensor < B , 1 > , Tensor < B , 1 > , Tensor < B , 1 > , Tensor < B , 1 > , Tensor < B , 1 > , Tensor < B , 1 > , usize , bool , T , usize ,) where T : Float + Element , B : AutodiffBackend , GTarget : GradientTarget < T , B > + Sync ,
    //@rules R-lit R-f64 R-cast
    //@anchor rv scope=fn pos=start
    //@| proof { reveal_with_fuel(bt, 2); }
    //@end

    // ---- the transition: outer loop of Algorithm 6 + dual averaging (C03, C04) -------------------
    pub struct NUTSChain<T, B: AutodiffBackend, GTarget> {
        //@fields file=src/nuts.rs name=NUTSChain
    }
    /// state of the doubling loop
    pub struct OSt { pub minus: Pt, pub plus: Pt, pub j: nat, pub n: nat, pub s: bool, pub x: V, pub alpha: XR, pub n_alpha: nat, pub rng: RngState }
    /// one iteration of the outer loop of Algorithm 6: a fair-coin direction from one uniform (`pol` fixes which side of
    /// 1/2 means forward), BuildTree from the matching end at depth j, the new point adopted iff s' and u2 < min(1, n'/n)
    pub open spec fn outer_next<B: AutodiffBackend, G: GradientTarget<B>>(t: &G, eps: XR, logu: XR, joint0: XR, pol: bool, st: OSt) -> OSt {
        let u1 = val(unif_out(st.rng));
        let sa = unif_next(st.rng);
        let v: int = if xr_lt(u1, half()) == pol { 1 } else { -1 };
        let (tr, sb) = bt::<B, G>(t, if v == -1 { st.minus } else { st.plus }, logu, v, st.j, eps, joint0, sa);
        let minus = if v == -1 { tr.minus } else { st.minus };
        let plus = if v == -1 { st.plus } else { tr.plus };
        let u2 = val(unif_out(sb));
        let take = tr.s && xr_lt(u2, xr_min(XR::Fin(1real), xr_div(XR::Fin(tr.n as real), XR::Fin(st.n as real))));
        OSt { minus, plus, j: st.j + 1, n: st.n + tr.n, s: tr.s && no_uturn(minus, plus), x: if take { tr.cx } else { st.x },
              alpha: tr.alpha, n_alpha: tr.n_alpha, rng: unif_next(sb) }
    }
    /// the state after k iterations of the doubling loop, and "the loop condition held before each of them"
    pub open spec fn outer_iter<B: AutodiffBackend, G: GradientTarget<B>>(t: &G, eps: XR, logu: XR, joint0: XR, pol: bool, st0: OSt, k: nat) -> OSt
        decreases k
    {
        if k == 0 { st0 } else { outer_next::<B, G>(t, eps, logu, joint0, pol, outer_iter::<B, G>(t, eps, logu, joint0, pol, st0, (k - 1) as nat)) }
    }
    pub open spec fn all_continue<B: AutodiffBackend, G: GradientTarget<B>>(t: &G, eps: XR, logu: XR, joint0: XR, pol: bool, st0: OSt, k: nat) -> bool
        decreases k
    {
        if k == 0 { true } else { all_continue::<B, G>(t, eps, logu, joint0, pol, st0, (k - 1) as nat) && outer_iter::<B, G>(t, eps, logu, joint0, pol, st0, (k - 1) as nat).s }
    }
    /// start of a transition: momentum = dim fresh normals, slice level log u = joint0 - Exp(1), theta- = theta+ = theta
    pub open spec fn trans_start<B: AutodiffBackend, G: GradientTarget<B>>(t: &G, x: V, s0: RngState) -> (OSt, XR, XR) {
        let r0 = xrs(normal_seq(s0, x.len()));
        let s1 = normal_state(s0, x.len());
        let joint0 = joint_of(t.lp(x), r0);
        let logu = xr_sub(joint0, val(exp1_out(s1)));
        let p0 = Pt { x, r: r0, g: t.grad(x) };
        (OSt { minus: p0, plus: p0, j: 0, n: 1, s: true, x, alpha: XR::Fin(0real), n_alpha: 0, rng: exp1_next(s1) }, logu, joint0)
    }
    // ---- C04: Nesterov dual averaging (Hoffman & Gelman eq. 6), gamma/t0/kappa/mu read from the chain ----
    pub open spec fn fadd(a: Fl, b: Fl) -> Fl { mk(xr_add(val(a), val(b))) }
    pub open spec fn fsub(a: Fl, b: Fl) -> Fl { mk(xr_sub(val(a), val(b))) }
    pub open spec fn fmul(a: Fl, b: Fl) -> Fl { mk(xr_mul(val(a), val(b))) }
    pub open spec fn fneg(a: Fl) -> Fl { mk(xr_neg(val(a))) }
    pub open spec fn fexp(a: Fl) -> Fl { mk(xr_exp(val(a))) }
    pub open spec fn fln(a: Fl) -> Fl { mk(xr_ln(val(a))) }
    pub open spec fn fli(n: int) -> Fl { mk(XR::Fin(n as real)) }
    /// H_m = (1 - 1/(m+t0)) H_{m-1} + 1/(m+t0) (delta - alpha/n_alpha)
    pub open spec fn da_hbar(h_bar: Fl, m1: int, t0: int, delta: Fl, alpha: Fl, n_alpha: int) -> Fl {
        let eta = fl_div(fli(1), fli(m1 + t0));
        fadd(fmul(fsub(fli(1), eta), h_bar), fmul(eta, fsub(delta, fl_div(alpha, fli(n_alpha)))))
    }
    /// eps_m = exp(mu - sqrt(m)/gamma H_m)
    pub open spec fn da_eps(mu: Fl, m1: int, gamma: Fl, h_bar1: Fl) -> Fl {
        fexp(fsub(mu, fmul(fl_div(mk(xr_sqrt(XR::Fin(m1 as real))), gamma), h_bar1)))
    }
    /// ln eps_bar_m = m^-kappa ln eps_m + (1 - m^-kappa) ln eps_bar_{m-1}
    pub open spec fn da_eps_bar(eps_bar: Fl, eps1: Fl, m1: int, kappa: Fl) -> Fl {
        let eta = mk(xr_powf(XR::Fin(m1 as real), val(fneg(kappa))));
        fexp(fadd(fmul(fsub(fli(1), eta), fln(eps_bar)), fmul(eta, fln(eps1))))
    }
    /// the adaptation part of a transition with acceptance statistic alpha / n_alpha
    pub open spec fn da_post<B: AutodiffBackend, G: GradientTarget<B>>(pre: NUTSChain<Fl, B, G>, post: NUTSChain<Fl, B, G>, alpha: Fl, n_alpha: int) -> bool {
        let m1 = pre.m + 1;
        let hb = da_hbar(pre.h_bar, m1, pre.t_0 as int, pre.target_accept_p, alpha, n_alpha);
        &&& post.m == m1 && post.h_bar == hb
        &&& post.gamma == pre.gamma && post.t_0 == pre.t_0 && post.kappa == pre.kappa && post.mu == pre.mu && post.n_discard == pre.n_discard
            && post.n_collect == pre.n_collect && post.target_accept_p == pre.target_accept_p && post.target == pre.target
        &&& m1 <= pre.n_discard ==> post.epsilon == da_eps(pre.mu, m1, pre.gamma, hb)
                && post.epsilon_bar == da_eps_bar(pre.epsilon_bar, post.epsilon, m1, pre.kappa)
        &&& m1 > pre.n_discard ==> post.epsilon == pre.epsilon_bar && post.epsilon_bar == pre.epsilon_bar
    }
    /// C03 + C04: one NUTS transition: the doubling loop of Algorithm 6 runs k >= 1 times (it continues exactly while s),
    /// the chain moves to the point selected by the last state, the generator is the one left by the loop, and the step
    /// size is adapted with the acceptance statistic alpha/n_alpha of the LAST doubling
    pub open spec fn nuts_step_at<B: AutodiffBackend, G: GradientTarget<B>>(pre: NUTSChain<Fl, B, G>, post: NUTSChain<Fl, B, G>, k: nat, pol: bool) -> bool {
        let (st0, logu, joint0) = trans_start::<B, G>(&pre.target, v1(pre.position), state(pre.rng));
        let last = outer_iter::<B, G>(&pre.target, val(pre.epsilon), logu, joint0, pol, st0, k);
        &&& k >= 1 && all_continue::<B, G>(&pre.target, val(pre.epsilon), logu, joint0, pol, st0, k) && !last.s
        &&& v1(post.position) == last.x && state(post.rng) == last.rng
        &&& da_post::<B, G>(pre, post, mk(last.alpha), last.n_alpha as int)
    }
    pub open spec fn nuts_step_post<B: AutodiffBackend, G: GradientTarget<B>>(pre: NUTSChain<Fl, B, G>, post: NUTSChain<Fl, B, G>) -> bool {
        exists |k: nat, pol: bool| #[trigger] nuts_step_at::<B, G>(pre, post, k, pol)
    }
    /// the program variables of the doubling loop hold the abstract loop state
    pub open spec fn cur_is<B: AutodiffBackend, G: GradientTarget<B>>(st: OSt, pm: Tensor<B, 1>, mm: Tensor<B, 1>, gm: Tensor<B, 1>, pp: Tensor<B, 1>, mp: Tensor<B, 1>, gp: Tensor<B, 1>,
        j: usize, n: usize, s: bool, pos: Tensor<B, 1>, alpha: Fl, n_alpha: usize, rng: SmallRng) -> bool {
        &&& st.minus == pt_of(pm, mm, gm) && st.plus == pt_of(pp, mp, gp)
        &&& st.j == j && st.n == n && st.s == s && st.x == v1(pos) && val(alpha) == st.alpha && n_alpha == st.n_alpha && st.rng == state(rng)
    }
    pub open spec fn T_sqrt_is(m: Fl, m1: int) -> bool { mk(xr_sqrt(val(m))) == mk(xr_sqrt(XR::Fin(m1 as real))) }
    // ---- the multi-chain sampler ---------------------------------------------------------------
    pub struct NUTS<T, B: AutodiffBackend, GTarget> {
        //@fields file=src/nuts.rs name=NUTS
    }
    /// the per-chain seed documented for NUTS::set_seed: seed + i + 1, modulo 2^64
    pub open spec fn nuts_chain_seed(seed: u64, i: int) -> u64 { ((seed as int + i + 1) % 0x1_0000_0000_0000_0000) as u64 }
    /// PRNG quality assumption used by C08 only
    pub axiom fn ax_seeded_injective(a: u64, b: u64) requires a != b ensures seeded(a) != seeded(b);

    impl<B: AutodiffBackend, GTarget: GradientTarget<B> + VClone> NUTS<Fl, B, GTarget> {
        pub fn new(target: GTarget, initial_positions: Vec<Vec<T>>, target_accept_p: T) -> (r: Self)
            ensures
                r.chains@.len() == initial_positions@.len(),                                                                            // [C09.nuts_new_count]
                forall |c: int| 0 <= c < initial_positions@.len() ==> v1((#[trigger] r.chains@[c]).position) == xrs(initial_positions@[c]@),   // [C09.nuts_new_row_c_is_state_c]
        //@body id=nuts_new file=src/nuts.rs impl_self=NUTS name=new props=C09
        //@sig fn new (target : GTarget , initial_positions : Vec < Vec < T > > , target_accept_p : T) -> Self
        //@rules R-mapcollect
        //@outtype __vx_out1 Vec<NUTSChain<Fl, B, GTarget>>
        //@anchor snap scope=fn pos=start
        //@| let ghost init0 = initial_positions@;
        //@loop 1 iter=it
        //@| invariant
        //@|     it.history@ + it.iter.remaining() == init0,
        //@|     __vx_out1@.len() == it.history@.len(),
        //@|     forall |c: int| 0 <= c < __vx_out1@.len() ==> v1((#[trigger] __vx_out1@[c]).position) == xrs(init0[c]@),
        //@end

        pub fn set_seed(self, seed: u64) -> (r: Self)
            ensures
                r.chains@.len() == self.chains@.len(),
                forall |i: int| 0 <= i < r.chains@.len() ==> state((#[trigger] r.chains@[i]).rng) == seeded(nuts_chain_seed(seed, i)),      // [C07.nuts_per_chain_seed]
                forall |i: int| 0 <= i < r.chains@.len() ==> (#[trigger] r.chains@[i]).position == self.chains@[i].position && r.chains@[i].m == self.chains@[i].m,
                forall |i: int, j: int| 0 <= i < j < r.chains@.len() ==> state(r.chains@[i].rng) != state(r.chains@[j].rng),              // [C08.nuts_chains_distinct_streams]
        //@body id=nuts_set_seed file=src/nuts.rs impl_self=NUTS name=set_seed props=C07,C08
        //@sig fn set_seed (mut self , seed : u64) -> Self
        //@rules R-mutself R-enum
        //@anchor n0 scope=fn pos=start
        //@| proof { ax_vec_len_le_isize_max(&self.chains); }
        //@loop 1 iter=it
        //@| invariant
        //@|     it.iter.end == self.chains@.len(), __vx_self.chains@.len() == self.chains@.len(), self.chains@.len() <= isize::MAX as int,
        //@|     forall |k: int| 0 <= k < i ==> state((#[trigger] __vx_self.chains@[k]).rng) == seeded(nuts_chain_seed(seed, k)),
        //@|     forall |k: int| 0 <= k < self.chains@.len() ==> (#[trigger] __vx_self.chains@[k]).position == self.chains@[k].position && __vx_self.chains@[k].m == self.chains@[k].m,
        //@anchor fin scope=fn pos=end
        //@| proof {
        //@|     let cs = __vx_self.chains@;
        //@|     assert forall |i: int, j: int| 0 <= i < j < cs.len() implies state(cs[i].rng) != state(cs[j].rng) by {
        //@|         ax_seeded_injective(nuts_chain_seed(seed, i), nuts_chain_seed(seed, j));
        //@|     }
        //@| }
        //@end

        pub fn run(&mut self, n_collect: usize, n_discard: usize) -> (out: Tensor<B, 3>)
            requires n_collect >= 1, old(self).chains@.len() >= 1,
                forall |c: int| 0 <= c < old(self).chains@.len() ==> (#[trigger] old(self).chains@[c]).m + old(self).chains@[c].t_0 + n_collect + n_discard < usize::MAX
                    && v1(old(self).chains@[c].position).len() == v1(old(self).chains@[0].position).len(),
            ensures
                final(self).chains@.len() == old(self).chains@.len(),
                v3(out).len() == old(self).chains@.len(),                                                                                // [C09.nuts_runner_n_chains]
                forall |c: int| 0 <= c < old(self).chains@.len() ==>
                    nuts_run_post::<B, GTarget>(#[trigger] old(self).chains@[c], final(self).chains@[c], v3(out)[c], n_collect as int, n_discard as int),   // [C09.nuts_runner_returns_exactly_what_its_chains_return]
        //@body id=nuts_run file=src/nuts.rs impl_self=NUTS name=run props=C09
        //@sig fn run (& mut self , n_collect : usize , n_discard : usize) -> Tensor < B , 3 >
        //@rules R-par R-mapcollect
        //@outtype __vx_out1 Vec<Tensor<B, 2>>
        //@loop 1 iter=it
        //@| invariant
        //@|     it.iter.end == self.chains@.len(), self.chains@.len() == old(self).chains@.len(), n_collect >= 1,
        //@|     __vx_out1@.len() == __vx_k1,
        //@|     forall |c: int| __vx_k1 <= c < self.chains@.len() ==> (#[trigger] self.chains@[c]) == old(self).chains@[c],
        //@|     forall |c: int| 0 <= c < old(self).chains@.len() ==> (#[trigger] old(self).chains@[c]).m + old(self).chains@[c].t_0 + n_collect + n_discard < usize::MAX
        //@|         && v1(old(self).chains@[c].position).len() == v1(old(self).chains@[0].position).len(),
        //@|     forall |c: int| 0 <= c < __vx_k1 ==> nuts_run_post::<B, GTarget>(#[trigger] old(self).chains@[c], self.chains@[c], v2(__vx_out1@[c]), n_collect as int, n_discard as int),
        //@|     forall |c: int| 0 <= c < __vx_k1 ==> tdim2(#[trigger] __vx_out1@[c]) == (n_collect as int, v1(old(self).chains@[0].position).len() as int),
        //@end

        /// Progress mode of the multi-chain NUTS sampler.  The reporter thread's body is dropped and the scoped chain threads are
        /// read as the in-order map they compute (rule R-threads, ASSUMED like R-par): decides what is returned, not termination.
        pub fn run_progress(&mut self, n_collect: usize, n_discard: usize) -> (res: Result<(Tensor<B, 3>, RunStats), BoxDynError>)
            requires n_collect >= 1, old(self).chains@.len() >= 1,
                forall |c: int| 0 <= c < old(self).chains@.len() ==> (#[trigger] old(self).chains@[c]).m + old(self).chains@[c].t_0 + n_collect + n_discard < usize::MAX
                    && v1(old(self).chains@[c].position).len() == v1(old(self).chains@[0].position).len(),
            ensures
                res is Ok,                                                                                                               // [C10.nuts_run_progress_succeeds_for_every_scalar_and_backend_float_type]
                final(self).chains@.len() == old(self).chains@.len(),
                v3(res->Ok_0.0).len() == old(self).chains@.len(),
                forall |c: int| 0 <= c < old(self).chains@.len() ==>
                    nuts_progress_post::<B, GTarget>(#[trigger] old(self).chains@[c], final(self).chains@[c], v3(res->Ok_0.0)[c], n_collect as int, n_discard as int),   // [C10.nuts_run_progress_row_c_is_chain_c_trajectory_shifted_by_one_draw]
                res->Ok_0.1 == runstats_of_view((key32_if(tkey(res->Ok_0.0), B::float_is_f32()), tdim3(res->Ok_0.0))),                  // [C10.nuts_run_progress_stats_are_a_function_of_the_returned_sample]
        //@body id=nuts_run_progress file=src/nuts.rs impl_self=NUTS name=run_progress props=C10
        //@sig fn run_progress (& mut self , n_collect : usize , n_discard : usize ,) -> Result < (Tensor < B , 3 > , RunStats) , Box < dyn Error > >
        //@rules R-threads R-foreach R-wild R-dynerr
        //@outtype __vx_out1 Vec<Tensor<B, 2>>
        //@anchor g0 scope=fn pos=after match="^let chains ="
        //@| let ghost nc = chains@.len() as int;
        //@| let ghost ch0 = old(self).chains@;
        //@loop 1 iter=it
        //@| invariant
        //@|     it.iter.end == nc, chains@.len() == nc, chains@ == ch0, txs@.len() == __vx_i1, rxs@.len() == __vx_i1,
        //@loop 2 iter=it2
        //@| invariant
        //@|     it2.iter.end == nc, chains@.len() == nc, nc == ch0.len(), nc >= 1, n_collect >= 1,
        //@|     __vx_q1@.len() == nc - __vx_k1, __vx_out1@.len() == __vx_k1,
        //@|     forall |c: int| __vx_k1 <= c < nc ==> (#[trigger] chains@[c]) == ch0[c],
        //@|     forall |c: int| 0 <= c < nc ==> (#[trigger] ch0[c]).m + ch0[c].t_0 + n_collect + n_discard < usize::MAX && v1(ch0[c].position).len() == v1(ch0[0].position).len(),
        //@|     forall |c: int| 0 <= c < __vx_k1 ==> nuts_progress_post::<B, GTarget>(#[trigger] ch0[c], chains@[c], v2(__vx_out1@[c]), n_collect as int, n_discard as int),
        //@|     forall |c: int| 0 <= c < __vx_k1 ==> tdim2(#[trigger] __vx_out1@[c]) == (n_collect as int, v1(ch0[0].position).len() as int),
        //@end
    }
    /// the f32 rendering of a tensor's content: itself on an f32 backend
    pub open spec fn key32_if(k: TKey, is32: bool) -> TKey { if is32 { k } else { key32(k) } }
    #[verifier::external_body]
    pub struct RunStats { _p: u8 }
    #[verifier::external_body]
    #[verifier::accept_recursive_types(X)]
    pub struct ArrayView3<'a, X> { _t: core::marker::PhantomData<&'a X> }
    pub uninterp spec fn view3_key<'a, X>(v: ArrayView3<'a, X>) -> (TKey, (int, int, int));
    pub uninterp spec fn runstats_of_view(k: (TKey, (int, int, int))) -> RunStats;
    impl<'a, X> ArrayView3<'a, X> {
        /// `ArrayView3::from_shape(dims, slice)`: Err iff the slice is too short
        #[verifier::external_body]
        pub fn from_shape(dims: [usize; 3], s: &'a [X]) -> (r: Result<ArrayView3<'a, X>, ShapeErrorV>)
            ensures (r is Ok) == (s@.len() >= dims@[0] * dims@[1] * dims@[2]),
                r is Ok ==> view3_key(r->Ok_0) == (slice_key(s@), (dims@[0] as int, dims@[1] as int, dims@[2] as int))
        { unimplemented!() }
    }
    pub struct ShapeErrorV;
    impl core::fmt::Debug for ShapeErrorV { #[verifier::external_body] fn fmt(&self, f: &mut core::fmt::Formatter<'_>) -> core::fmt::Result { Ok(()) } }
    impl RunStats {
        /// `RunStats::from(view)`: a function of the view (its parts are under contract in unit stats)
        #[verifier::external_body]
        pub fn from<'a>(v: ArrayView3<'a, f32>) -> (r: RunStats) ensures r == runstats_of_view(view3_key(v)) { unimplemented!() }
    }

    /// the tree built at depth j has at most 2^j leaves
    pub proof fn lemma_bt_bounds<B: AutodiffBackend, G: GradientTarget<B>>(t: &G, p: Pt, logu: XR, v: int, j: nat, eps: XR, joint0: XR, s: RngState)
        ensures bt::<B, G>(t, p, logu, v, j, eps, joint0, s).0.n <= vstd::arithmetic::power2::pow2(j),
            bt::<B, G>(t, p, logu, v, j, eps, joint0, s).0.n_alpha <= vstd::arithmetic::power2::pow2(j),
            bt::<B, G>(t, p, logu, v, j, eps, joint0, s).0.n_alpha >= 1,
        decreases j
    {
        reveal_with_fuel(bt, 2);
        vstd::arithmetic::power2::lemma2_to64();
        if j > 0 {
            let (t1, s1) = bt::<B, G>(t, p, logu, v, (j - 1) as nat, eps, joint0, s);
            lemma_bt_bounds::<B, G>(t, p, logu, v, (j - 1) as nat, eps, joint0, s);
            lemma_bt_bounds::<B, G>(t, if v == -1 { t1.minus } else { t1.plus }, logu, v, (j - 1) as nat, eps, joint0, s1);
            vstd::arithmetic::power2::lemma_pow2_unfold(j);
        }
    }
    /// the acceptance statistic of a tree is a finite number in [0, n_alpha] whatever the energies are (min(1, NaN) = 1)
    pub proof fn lemma_bt_alpha<B: AutodiffBackend, G: GradientTarget<B>>(t: &G, p: Pt, logu: XR, v: int, j: nat, eps: XR, joint0: XR, s: RngState)
        ensures ({ let tr = bt::<B, G>(t, p, logu, v, j, eps, joint0, s).0; tr.alpha is Fin && 0real <= tr.alpha->Fin_0 <= tr.n_alpha as real && tr.n_alpha >= 1 })
        decreases j
    {
        reveal_with_fuel(bt, 2);
        if j == 0 {
            let (p1, lp1) = lf::<B, G>(t, p, xr_mul(XR::Fin(v as real), eps));
            let e = xr_exp(xr_sub(joint_of(lp1, p1.r), joint0));
            assert(e is NaN || e is PosInf || (e is Fin && e->Fin_0 >= 0real)) by { broadcast use ax_exp_pos; }
        } else {
            let (t1, s1) = bt::<B, G>(t, p, logu, v, (j - 1) as nat, eps, joint0, s);
            lemma_bt_alpha::<B, G>(t, p, logu, v, (j - 1) as nat, eps, joint0, s);
            lemma_bt_alpha::<B, G>(t, if v == -1 { t1.minus } else { t1.plus }, logu, v, (j - 1) as nat, eps, joint0, s1);
        }
    }
    /// the same for the state of the doubling loop after at least one doubling
    pub proof fn lemma_outer_alpha<B: AutodiffBackend, G: GradientTarget<B>>(t: &G, eps: XR, logu: XR, joint0: XR, pol: bool, st0: OSt, k: nat)
        requires k >= 1
        ensures ({ let st = outer_iter::<B, G>(t, eps, logu, joint0, pol, st0, k); st.alpha is Fin && 0real <= st.alpha->Fin_0 <= st.n_alpha as real && st.n_alpha >= 1 })
    {
        let prev = outer_iter::<B, G>(t, eps, logu, joint0, pol, st0, (k - 1) as nat);
        let u1 = val(unif_out(prev.rng));
        let v: int = if xr_lt(u1, half()) == pol { 1 } else { -1 };
        lemma_bt_alpha::<B, G>(t, if v == -1 { prev.minus } else { prev.plus }, logu, v, prev.j, eps, joint0, unif_next(prev.rng));
    }
    // ---- C03 corollary: the next state is the previous state or a slice-admissible point of the leapfrog trajectory ----
    /// the point k leapfrog steps of size e from p (carried gradient)
    pub open spec fn traj<B: AutodiffBackend, G: GradientTarget<B>>(t: &G, p: Pt, e: XR, k: nat) -> Pt decreases k {
        if k == 0 { p } else { lf::<B, G>(t, traj::<B, G>(t, p, e, (k - 1) as nat), e).0 }
    }
    pub open spec fn ve(v: int, eps: XR) -> XR { xr_mul(XR::Fin(v as real), eps) }
    /// (x, g, lp) are those of the point k steps from p, and that point lies above the slice level
    pub open spec fn is_traj_point<B: AutodiffBackend, G: GradientTarget<B>>(t: &G, p: Pt, e: XR, k: nat, cx: V, cg: V, clp: XR) -> bool {
        let q = traj::<B, G>(t, p, e, k);
        k >= 1 && cx == q.x && cg == q.g && clp == t.lp(q.x)
    }
    pub open spec fn admissible_at<B: AutodiffBackend, G: GradientTarget<B>>(t: &G, p: Pt, e: XR, k: nat, logu: XR) -> bool {
        let q = traj::<B, G>(t, p, e, k);
        xr_lt(logu, joint_of(t.lp(q.x), q.r))
    }
    /// number of leapfrog steps BuildTree takes (2^j unless a subtree stopped)
    pub open spec fn bt_len<B: AutodiffBackend, G: GradientTarget<B>>(t: &G, p: Pt, logu: XR, v: int, j: nat, eps: XR, joint0: XR, s: RngState) -> nat decreases j {
        if j == 0 { 1 } else {
            let (t1, s1) = bt::<B, G>(t, p, logu, v, (j - 1) as nat, eps, joint0, s);
            let l1 = bt_len::<B, G>(t, p, logu, v, (j - 1) as nat, eps, joint0, s);
            if !t1.s { l1 } else { l1 + bt_len::<B, G>(t, if v == -1 { t1.minus } else { t1.plus }, logu, v, (j - 1) as nat, eps, joint0, s1) }
        }
    }
    /// how many leapfrog steps from p the candidate of the tree lies
    pub open spec fn bt_idx<B: AutodiffBackend, G: GradientTarget<B>>(t: &G, p: Pt, logu: XR, v: int, j: nat, eps: XR, joint0: XR, s: RngState) -> nat decreases j {
        if j == 0 { 1 } else {
            let (t1, s1) = bt::<B, G>(t, p, logu, v, (j - 1) as nat, eps, joint0, s);
            let i1 = bt_idx::<B, G>(t, p, logu, v, (j - 1) as nat, eps, joint0, s);
            if !t1.s { i1 } else {
                let edge = if v == -1 { t1.minus } else { t1.plus };
                let (t2, s2) = bt::<B, G>(t, edge, logu, v, (j - 1) as nat, eps, joint0, s1);
                let u = val(unif_out(s2));
                if xr_lt(u, xr_div(XR::Fin(t2.n as real), XR::Fin(max1(t1.n + t2.n) as real))) {
                    bt_len::<B, G>(t, p, logu, v, (j - 1) as nat, eps, joint0, s) + bt_idx::<B, G>(t, edge, logu, v, (j - 1) as nat, eps, joint0, s1)
                } else { i1 }
            }
        }
    }
    pub proof fn lemma_traj_add<B: AutodiffBackend, G: GradientTarget<B>>(t: &G, p: Pt, e: XR, a: nat, b: nat)
        ensures traj::<B, G>(t, traj::<B, G>(t, p, e, a), e, b) == traj::<B, G>(t, p, e, a + b)
        decreases b
    {
        if b > 0 {
            lemma_traj_add::<B, G>(t, p, e, a, (b - 1) as nat);
            assert((a + b - 1) as nat == a + (b - 1) as nat);
        }
    }
    /// BuildTree only ever visits points of the leapfrog trajectory through p: its far end is L steps away, its near end one
    /// step, its candidate I steps (1 <= I <= L), and when the tree has an admissible point (n >= 1) the candidate is one
    pub proof fn lemma_bt_on_trajectory<B: AutodiffBackend, G: GradientTarget<B>>(t: &G, p: Pt, logu: XR, v: int, j: nat, eps: XR, joint0: XR, s: RngState)
        requires v == 1 || v == -1
        ensures ({       // [C03.build_tree_visits_only_the_leapfrog_trajectory_and_selects_admissible_points]
            let tr = bt::<B, G>(t, p, logu, v, j, eps, joint0, s).0;
            let l = bt_len::<B, G>(t, p, logu, v, j, eps, joint0, s);
            let i = bt_idx::<B, G>(t, p, logu, v, j, eps, joint0, s);
            let e = ve(v, eps);
            &&& 1 <= i <= l
            &&& (if v == -1 { tr.minus } else { tr.plus }) == traj::<B, G>(t, p, e, l)
            &&& (if v == -1 { tr.plus } else { tr.minus }) == traj::<B, G>(t, p, e, 1)
            &&& is_traj_point::<B, G>(t, p, e, i, tr.cx, tr.cg, tr.clp)
            &&& tr.n >= 1 ==> admissible_at::<B, G>(t, p, e, i, logu)
        })
        decreases j
    {
        reveal_with_fuel(bt, 2);
        let e = ve(v, eps);
        assert(traj::<B, G>(t, p, e, 1) == lf::<B, G>(t, traj::<B, G>(t, p, e, 0), e).0);
        if j == 0 {
        } else {
            let jm = (j - 1) as nat;
            let (t1, s1) = bt::<B, G>(t, p, logu, v, jm, eps, joint0, s);
            lemma_bt_on_trajectory::<B, G>(t, p, logu, v, jm, eps, joint0, s);
            let l1 = bt_len::<B, G>(t, p, logu, v, jm, eps, joint0, s);
            if t1.s {
                let edge = if v == -1 { t1.minus } else { t1.plus };
                let (t2, s2) = bt::<B, G>(t, edge, logu, v, jm, eps, joint0, s1);
                lemma_bt_on_trajectory::<B, G>(t, edge, logu, v, jm, eps, joint0, s1);
                let l2 = bt_len::<B, G>(t, edge, logu, v, jm, eps, joint0, s1);
                let i2 = bt_idx::<B, G>(t, edge, logu, v, jm, eps, joint0, s1);
                lemma_traj_add::<B, G>(t, p, e, l1, l2);
                lemma_traj_add::<B, G>(t, p, e, l1, i2);
                let u = val(unif_out(s2));
                broadcast use ax_unif_range;
                let den = max1(t1.n + t2.n) as real;
                if t2.n == 0 {
                    assert(0real / den == 0real) by(nonlinear_arith) requires den >= 1real;
                } else if t1.n == 0 {
                    assert(den == t2.n as real);
                    assert(den / den == 1real) by(nonlinear_arith) requires den >= 1real;
                }
            }
        }
    }
    /// where the doubling loop stands after k iterations, counted in leapfrog steps from the start point
    pub struct OGeo { pub km: nat, pub kp: nat, pub dir: int, pub idx: nat }
    pub open spec fn outer_geo<B: AutodiffBackend, G: GradientTarget<B>>(t: &G, eps: XR, logu: XR, joint0: XR, pol: bool, st0: OSt, k: nat) -> OGeo
        decreases k
    {
        if k == 0 { OGeo { km: 0, kp: 0, dir: 0, idx: 0 } } else {
            let st = outer_iter::<B, G>(t, eps, logu, joint0, pol, st0, (k - 1) as nat);
            let g = outer_geo::<B, G>(t, eps, logu, joint0, pol, st0, (k - 1) as nat);
            let u1 = val(unif_out(st.rng));
            let sa = unif_next(st.rng);
            let v: int = if xr_lt(u1, half()) == pol { 1 } else { -1 };
            let edge = if v == -1 { st.minus } else { st.plus };
            let (tr, sb) = bt::<B, G>(t, edge, logu, v, st.j, eps, joint0, sa);
            let l = bt_len::<B, G>(t, edge, logu, v, st.j, eps, joint0, sa);
            let i = bt_idx::<B, G>(t, edge, logu, v, st.j, eps, joint0, sa);
            let u2 = val(unif_out(sb));
            let take = tr.s && xr_lt(u2, xr_min(XR::Fin(1real), xr_div(XR::Fin(tr.n as real), XR::Fin(st.n as real))));
            OGeo { km: if v == -1 { g.km + l } else { g.km }, kp: if v == -1 { g.kp } else { g.kp + l },
                   dir: if take { v } else { g.dir }, idx: if take { (if v == -1 { g.km } else { g.kp }) + i } else { g.idx } }
        }
    }
    /// the doubling loop keeps both ends on the leapfrog trajectory through the start point and its selected point is the
    /// start point itself or a slice-admissible point of that trajectory
    pub open spec fn outer_on_trajectory<B: AutodiffBackend, G: GradientTarget<B>>(t: &G, eps: XR, logu: XR, p0: Pt, st: OSt, g: OGeo) -> bool {
        &&& st.minus == traj::<B, G>(t, p0, ve(-1, eps), g.km) && st.plus == traj::<B, G>(t, p0, ve(1, eps), g.kp)
        &&& st.n >= 1
        &&& g.dir == 0 ==> st.x == p0.x
        &&& g.dir != 0 ==> (g.dir == 1 || g.dir == -1) && g.idx >= 1 && st.x == traj::<B, G>(t, p0, ve(g.dir, eps), g.idx).x
                && admissible_at::<B, G>(t, p0, ve(g.dir, eps), g.idx, logu)
    }
    pub proof fn lemma_outer_on_trajectory<B: AutodiffBackend, G: GradientTarget<B>>(t: &G, eps: XR, logu: XR, joint0: XR, pol: bool, st0: OSt, p0: Pt, k: nat)
        requires st0.minus == p0 && st0.plus == p0 && st0.x == p0.x && st0.n >= 1
        ensures outer_on_trajectory::<B, G>(t, eps, logu, p0, outer_iter::<B, G>(t, eps, logu, joint0, pol, st0, k), outer_geo::<B, G>(t, eps, logu, joint0, pol, st0, k))
        decreases k
    {
        if k > 0 {
            let km1 = (k - 1) as nat;
            lemma_outer_on_trajectory::<B, G>(t, eps, logu, joint0, pol, st0, p0, km1);
            let st = outer_iter::<B, G>(t, eps, logu, joint0, pol, st0, km1);
            let g = outer_geo::<B, G>(t, eps, logu, joint0, pol, st0, km1);
            let u1 = val(unif_out(st.rng));
            let sa = unif_next(st.rng);
            let v: int = if xr_lt(u1, half()) == pol { 1 } else { -1 };
            let edge = if v == -1 { st.minus } else { st.plus };
            let (tr, sb) = bt::<B, G>(t, edge, logu, v, st.j, eps, joint0, sa);
            lemma_bt_on_trajectory::<B, G>(t, edge, logu, v, st.j, eps, joint0, sa);
            let l = bt_len::<B, G>(t, edge, logu, v, st.j, eps, joint0, sa);
            let i = bt_idx::<B, G>(t, edge, logu, v, st.j, eps, joint0, sa);
            let base = if v == -1 { g.km } else { g.kp };
            lemma_traj_add::<B, G>(t, p0, ve(v, eps), base, l);
            lemma_traj_add::<B, G>(t, p0, ve(v, eps), base, i);
            broadcast use ax_unif_range;
            let den = st.n as real;
            if tr.n == 0 {
                assert(0real / den == 0real) by(nonlinear_arith) requires den >= 1real;
            }
        }
    }
    /// C03, "in particular": after any transition the chain is at the previous state or at a point of the leapfrog trajectory
    /// through it (some number of steps of +eps or -eps from the start point and the momentum drawn) whose joint
    /// log-density exceeds the slice level
    pub proof fn lemma_next_state_is_previous_or_admissible_trajectory_point<B: AutodiffBackend, G: GradientTarget<B>>(pre: NUTSChain<Fl, B, G>, post: NUTSChain<Fl, B, G>)
        requires nuts_step_post::<B, G>(pre, post)
        ensures ({       // [C03.next_state_is_previous_or_slice_admissible_point_of_the_leapfrog_trajectory]
            let (st0, logu, joint0) = trans_start::<B, G>(&pre.target, v1(pre.position), state(pre.rng));
            v1(post.position) == v1(pre.position)
            || exists |dir: int, idx: nat| (dir == 1 || dir == -1) && idx >= 1
                && v1(post.position) == (#[trigger] traj::<B, G>(&pre.target, st0.plus, ve(dir, val(pre.epsilon)), idx)).x
                && admissible_at::<B, G>(&pre.target, st0.plus, ve(dir, val(pre.epsilon)), idx, logu)
        })
    {
        let (k, pol) = choose |k: nat, pol: bool| #[trigger] nuts_step_at::<B, G>(pre, post, k, pol);
        let (st0, logu, joint0) = trans_start::<B, G>(&pre.target, v1(pre.position), state(pre.rng));
        lemma_outer_on_trajectory::<B, G>(&pre.target, val(pre.epsilon), logu, joint0, pol, st0, st0.plus, k);
        let g = outer_geo::<B, G>(&pre.target, val(pre.epsilon), logu, joint0, pol, st0, k);
        if g.dir != 0 {
            assert(v1(post.position) == traj::<B, G>(&pre.target, st0.plus, ve(g.dir, val(pre.epsilon)), g.idx).x);
        }
    }

    /// C04: adaptation parameters and state are finite, step size and averaged iterate positive
    pub open spec fn da_ok<B: AutodiffBackend, G: GradientTarget<B>>(c: NUTSChain<Fl, B, G>) -> bool {
        &&& val(c.epsilon) is Fin && rv(c.epsilon) > 0real && val(c.epsilon_bar) is Fin && rv(c.epsilon_bar) > 0real
        &&& val(c.h_bar) is Fin && val(c.mu) is Fin && val(c.gamma) is Fin && rv(c.gamma) > 0real && val(c.kappa) is Fin && val(c.target_accept_p) is Fin && c.t_0 >= 1
    }
    pub open spec fn rv(f: Fl) -> real { val(f)->Fin_0 }
    /// everything in da_ok that init_chain does not touch
    pub open spec fn da_params_ok<B: AutodiffBackend, G: GradientTarget<B>>(c: NUTSChain<Fl, B, G>) -> bool {
        &&& val(c.epsilon_bar) is Fin && rv(c.epsilon_bar) > 0real
        &&& val(c.h_bar) is Fin && val(c.gamma) is Fin && rv(c.gamma) > 0real && val(c.kappa) is Fin && val(c.target_accept_p) is Fin && c.t_0 >= 1
    }
    /// the "step size not chosen yet" marker that NUTSChain::new stores (-1 up to machine epsilon)
    pub open spec fn is_sentinel(e: Fl) -> bool { xr_le(xr_abs(xr_add(val(e), XR::Fin(1real))), XR::Fin(eps_r())) }
    /// what NUTSChain::new builds satisfies the parameter part and carries the sentinel
    pub proof fn lemma_new_chain_is_ready_for_init<B: AutodiffBackend, G: GradientTarget<B>>(c: NUTSChain<Fl, B, G>)
        requires c.t_0 == 10 && val(c.gamma) == XR::Fin(1real / 20real) && val(c.kappa) == XR::Fin(3real / 4real)
            && val(c.epsilon_bar) == XR::Fin(1real) && val(c.h_bar) == XR::Fin(0real) && val(c.epsilon) == XR::Fin(-1real), val(c.target_accept_p) is Fin
        ensures da_params_ok(c) && is_sentinel(c.epsilon)
    {
        ax_eps();
    }
    /// one dual-averaging update keeps all of that: the step size stays positive and finite during and after warm-up
    pub proof fn lemma_da_keeps_step_size_positive_finite<B: AutodiffBackend, G: GradientTarget<B>>(pre: NUTSChain<Fl, B, G>, post: NUTSChain<Fl, B, G>, alpha: Fl, n_alpha: int)
        requires da_ok(pre), da_post::<B, G>(pre, post, alpha, n_alpha), val(alpha) is Fin, 0real <= rv(alpha) <= n_alpha as real, n_alpha >= 1
        ensures da_ok(post)      // [C04.step_size_positive_and_finite_throughout]
    {
        broadcast use ax_exp_pos, ax_powf_pos, ax_sqrt;
        let m1 = pre.m + 1;
        let hb = da_hbar(pre.h_bar, m1, pre.t_0 as int, pre.target_accept_p, alpha, n_alpha);
        assert(val(fl_div(fli(1), fli(m1 + pre.t_0 as int))) is Fin);
        assert(val(fl_div(alpha, fli(n_alpha))) is Fin);
        assert(val(hb) is Fin);
        if m1 <= pre.n_discard {
            assert(val(mk(xr_sqrt(XR::Fin(m1 as real)))) is Fin);
            assert(val(fl_div(mk(xr_sqrt(XR::Fin(m1 as real))), pre.gamma)) is Fin);
            let e1 = da_eps(pre.mu, m1, pre.gamma, hb);
            assert(val(e1) is Fin && rv(e1) > 0real);
            let eta = mk(xr_powf(XR::Fin(m1 as real), val(fneg(pre.kappa))));
            assert(val(eta) is Fin);
            assert(val(fln(pre.epsilon_bar)) is Fin && val(fln(e1)) is Fin);
            let eb = da_eps_bar(pre.epsilon_bar, e1, m1, pre.kappa);
            assert(val(eb) is Fin && rv(eb) > 0real);
        }
    }
    /// ... hence every transition keeps it (the acceptance statistic of the last doubling is finite, lemma_outer_alpha)
    pub proof fn lemma_step_keeps_step_size_positive_finite<B: AutodiffBackend, G: GradientTarget<B>>(pre: NUTSChain<Fl, B, G>, post: NUTSChain<Fl, B, G>)
        requires da_ok(pre), nuts_step_post::<B, G>(pre, post)
        ensures da_ok(post)      // [C04.every_transition_keeps_the_step_size_positive_and_finite]
    {
        let (k, pol) = choose |k: nat, pol: bool| #[trigger] nuts_step_at::<B, G>(pre, post, k, pol);
        let (st0, logu, joint0) = trans_start::<B, G>(&pre.target, v1(pre.position), state(pre.rng));
        lemma_outer_alpha::<B, G>(&pre.target, val(pre.epsilon), logu, joint0, pol, st0, k);
        let last = outer_iter::<B, G>(&pre.target, val(pre.epsilon), logu, joint0, pol, st0, k);
        lemma_da_keeps_step_size_positive_finite::<B, G>(pre, post, mk(last.alpha), last.n_alpha as int);
    }

    /// every point of the tree lives in the space of the start point (vector lengths are kept by leapfrog)
    pub proof fn lemma_bt_lens<B: AutodiffBackend, G: GradientTarget<B>>(t: &G, p: Pt, logu: XR, v: int, j: nat, eps: XR, joint0: XR, s: RngState)
        ensures ({ let tr = bt::<B, G>(t, p, logu, v, j, eps, joint0, s).0; tr.cx.len() == p.x.len() && tr.minus.x.len() == p.x.len() && tr.plus.x.len() == p.x.len() })
        decreases j
    {
        reveal_with_fuel(bt, 2);
        if j > 0 {
            let (t1, s1) = bt::<B, G>(t, p, logu, v, (j - 1) as nat, eps, joint0, s);
            lemma_bt_lens::<B, G>(t, p, logu, v, (j - 1) as nat, eps, joint0, s);
            lemma_bt_lens::<B, G>(t, if v == -1 { t1.minus } else { t1.plus }, logu, v, (j - 1) as nat, eps, joint0, s1);
        }
    }
    pub proof fn lemma_outer_lens<B: AutodiffBackend, G: GradientTarget<B>>(t: &G, eps: XR, logu: XR, joint0: XR, pol: bool, st0: OSt, k: nat)
        requires st0.minus.x.len() == st0.x.len(), st0.plus.x.len() == st0.x.len()
        ensures ({ let st = outer_iter::<B, G>(t, eps, logu, joint0, pol, st0, k); st.x.len() == st0.x.len() && st.minus.x.len() == st0.x.len() && st.plus.x.len() == st0.x.len() })
        decreases k
    {
        if k > 0 {
            lemma_outer_lens::<B, G>(t, eps, logu, joint0, pol, st0, (k - 1) as nat);
            let st = outer_iter::<B, G>(t, eps, logu, joint0, pol, st0, (k - 1) as nat);
            let u1 = val(unif_out(st.rng));
            let v: int = if xr_lt(u1, half()) == pol { 1 } else { -1 };
            lemma_bt_lens::<B, G>(t, if v == -1 { st.minus } else { st.plus }, logu, v, st.j, eps, joint0, unif_next(st.rng));
        }
    }
    // ---- C14: leaves of zero / undefined density are inadmissible and stop the tree; only admissible points are adopted ----
    pub open spec fn bad_density(a: XR) -> bool { a is NaN || a is NegInf }
    /// a single leapfrog step ending at log-density -inf or NaN yields a leaf with n' = 0 and s' = false
    pub proof fn lemma_nuts_leaf_inadmissible<B: AutodiffBackend, G: GradientTarget<B>>(t: &G, p: Pt, logu: XR, v: int, eps: XR, joint0: XR, s: RngState)
        requires bad_density(lf::<B, G>(t, p, xr_mul(XR::Fin(v as real), eps)).1)
        ensures ({ let tr = bt::<B, G>(t, p, logu, v, 0, eps, joint0, s).0; tr.n == 0 && !tr.s })      // [C14.nuts_zero_or_nan_density_leaf_is_inadmissible_and_stops_the_tree]
    {
        reveal_with_fuel(bt, 1);
    }
    /// the doubling loop adopts a point only from a subtree that did not stop and that contains an admissible point
    pub proof fn lemma_nuts_adopts_only_from_live_nonempty_tree<B: AutodiffBackend, G: GradientTarget<B>>(t: &G, eps: XR, logu: XR, joint0: XR, pol: bool, st: OSt)
        requires st.n >= 1
        ensures ({
            let nx = outer_next::<B, G>(t, eps, logu, joint0, pol, st);
            let u1 = val(unif_out(st.rng));
            let v: int = if xr_lt(u1, half()) == pol { 1 } else { -1 };
            let tr = bt::<B, G>(t, if v == -1 { st.minus } else { st.plus }, logu, v, st.j, eps, joint0, unif_next(st.rng)).0;
            nx.x == st.x || (nx.x == tr.cx && tr.s && tr.n >= 1)                                        // [C14.nuts_never_adopts_from_a_stopped_or_empty_subtree]
        })
    {
        broadcast use ax_unif_range;
        let u1 = val(unif_out(st.rng));
        let v: int = if xr_lt(u1, half()) == pol { 1 } else { -1 };
        let (tr, sb) = bt::<B, G>(t, if v == -1 { st.minus } else { st.plus }, logu, v, st.j, eps, joint0, unif_next(st.rng));
        if tr.n == 0 {
            assert(xr_div(XR::Fin(0real), XR::Fin(st.n as real)) == XR::Fin(0real / (st.n as real)));
            assert(0real / (st.n as real) == 0real) by(nonlinear_arith) requires st.n >= 1;
        }
    }
    /// joint log-density of the candidate point carried by the tree (same recursion as bt)
    pub open spec fn bt_cj<B: AutodiffBackend, G: GradientTarget<B>>(t: &G, p: Pt, logu: XR, v: int, j: nat, eps: XR, joint0: XR, s: RngState) -> XR
        decreases j
    {
        if j == 0 {
            let (p1, lp1) = lf::<B, G>(t, p, xr_mul(XR::Fin(v as real), eps));
            joint_of(lp1, p1.r)
        } else {
            let (t1, s1) = bt::<B, G>(t, p, logu, v, (j - 1) as nat, eps, joint0, s);
            if !t1.s { bt_cj::<B, G>(t, p, logu, v, (j - 1) as nat, eps, joint0, s) } else {
                let p2 = if v == -1 { t1.minus } else { t1.plus };
                let (t2, s2) = bt::<B, G>(t, p2, logu, v, (j - 1) as nat, eps, joint0, s1);
                let u = val(unif_out(s2));
                let take2 = xr_lt(u, xr_div(XR::Fin(t2.n as real), XR::Fin(max1(t1.n + t2.n) as real)));
                if take2 { bt_cj::<B, G>(t, p2, logu, v, (j - 1) as nat, eps, joint0, s1) } else { bt_cj::<B, G>(t, p, logu, v, (j - 1) as nat, eps, joint0, s) }
            }
        }
    }
    /// the candidate of a tree with n >= 1 is slice-admissible (joint > log u) and its log-density is the tree's clp:
    /// hence its log-density is neither -inf nor NaN
    pub proof fn lemma_nuts_candidate_admissible<B: AutodiffBackend, G: GradientTarget<B>>(t: &G, p: Pt, logu: XR, v: int, j: nat, eps: XR, joint0: XR, s: RngState)
        ensures ({
            let tr = bt::<B, G>(t, p, logu, v, j, eps, joint0, s).0;
            let cj = bt_cj::<B, G>(t, p, logu, v, j, eps, joint0, s);
            (exists |r: V| cj == joint_of(tr.clp, r)) && (tr.n >= 1 ==> xr_lt(logu, cj) && !bad_density(tr.clp))   // [C14.nuts_candidate_of_nonempty_tree_is_admissible_with_defined_density]
        })
        decreases j
    {
        reveal_with_fuel(bt, 2);
        broadcast use ax_unif_range;
        if j == 0 {
            let (p1, lp1) = lf::<B, G>(t, p, xr_mul(XR::Fin(v as real), eps));
            assert(bt_cj::<B, G>(t, p, logu, v, j, eps, joint0, s) == joint_of(lp1, p1.r));
        } else {
            let (t1, s1) = bt::<B, G>(t, p, logu, v, (j - 1) as nat, eps, joint0, s);
            lemma_nuts_candidate_admissible::<B, G>(t, p, logu, v, (j - 1) as nat, eps, joint0, s);
            if t1.s {
                let p2 = if v == -1 { t1.minus } else { t1.plus };
                let (t2, s2) = bt::<B, G>(t, p2, logu, v, (j - 1) as nat, eps, joint0, s1);
                lemma_nuts_candidate_admissible::<B, G>(t, p2, logu, v, (j - 1) as nat, eps, joint0, s1);
                let u = val(unif_out(s2));
                let nn = max1(t1.n + t2.n) as real;
                if t2.n == 0 {
                    assert(0real / nn == 0real) by(nonlinear_arith) requires nn >= 1real;
                }
                if t1.n == 0 && t2.n >= 1 {
                    assert((t2.n as real) / nn == 1real) by(nonlinear_arith) requires nn == t2.n as real, nn >= 1real;
                }
            }
        }
    }
    pub proof fn lemma_pow2_fits(j: nat)
        requires j <= 62
        ensures vstd::arithmetic::power2::pow2(j) <= 0x4000_0000_0000_0000
    {
        vstd::arithmetic::power2::lemma2_to64();
        vstd::arithmetic::power2::lemma2_to64_rest();
        if j < 62 { vstd::arithmetic::power2::lemma_pow2_strictly_increases(j, 62); }
    }

    /// ASSUMED law for user `Clone` impls (derive(Clone) semantics)
    pub trait VClone: Sized { fn clone(&self) -> (r: Self) ensures r == *self; }

    // ---- C09 for NUTSChain::run: history of chain values linked by the transition contract ----
    pub open spec fn nuts_hist_ok<B: AutodiffBackend, G: GradientTarget<B>>(h: Seq<NUTSChain<Fl, B, G>>, first: NUTSChain<Fl, B, G>, last: NUTSChain<Fl, B, G>, total: int) -> bool {
        &&& h.len() == total + 1 && h[0] == first && h[total] == last
        &&& forall |i: int| 0 <= i < total ==> #[trigger] nuts_step_post::<B, G>(h[i], h[i + 1])
    }
    /// ... and so does every state of a run's history: the step size is positive and finite throughout a run
    pub proof fn lemma_run_keeps_step_size_positive_finite<B: AutodiffBackend, G: GradientTarget<B>>(h: Seq<NUTSChain<Fl, B, G>>, first: NUTSChain<Fl, B, G>, last: NUTSChain<Fl, B, G>, total: int, i: int)
        requires nuts_hist_ok::<B, G>(h, first, last, total), da_ok(first), 0 <= i <= total
        ensures da_ok(h[i])      // [C04.step_size_positive_and_finite_throughout_a_run]
        decreases i
    {
        if i > 0 {
            lemma_run_keeps_step_size_positive_finite::<B, G>(h, first, last, total, i - 1);
            assert(nuts_step_post::<B, G>(h[i - 1], h[i - 1 + 1]));
            lemma_step_keeps_step_size_positive_finite::<B, G>(h[i - 1], h[i]);
        }
    }
    /// what init_chain does to the chain: stores the run lengths, draws dim normals, finds eps0 on first use only,
    /// sets the shrinkage point mu = ln(10 eps); the position and the warm-up counter m are NOT touched
    pub open spec fn init_rel<B: AutodiffBackend, G: GradientTarget<B>>(pre: NUTSChain<Fl, B, G>, post: NUTSChain<Fl, B, G>, n_collect: int, n_discard: int) -> bool {
        &&& post.position == pre.position && post.m == pre.m && post.target == pre.target            // warm-up counter persists across runs
        &&& post.n_collect == n_collect && post.n_discard == n_discard
        &&& post.gamma == pre.gamma && post.t_0 == pre.t_0 && post.kappa == pre.kappa && post.target_accept_p == pre.target_accept_p
            && post.epsilon_bar == pre.epsilon_bar && post.h_bar == pre.h_bar
        &&& post.mu == fln(fmul(fli(10), post.epsilon))
        &&& !(xr_le(xr_abs(xr_add(val(pre.epsilon), XR::Fin(1real))), XR::Fin(eps_r()))) ==> post.epsilon == pre.epsilon && state(post.rng) == normal_state(state(pre.rng), v1(pre.position).len())
    }
    /// row k of the result is the position after n_discard + k transitions counted from the (initialised) chain;
    /// exactly n_collect + n_discard - 1 transitions are made and the chain is left at the last returned state
    pub open spec fn nuts_run_post<B: AutodiffBackend, G: GradientTarget<B>>(pre: NUTSChain<Fl, B, G>, post: NUTSChain<Fl, B, G>, out: M, n_collect: int, n_discard: int) -> bool {
        exists |h: Seq<NUTSChain<Fl, B, G>>| #![trigger nuts_hist_ok::<B, G>(h, h[0], post, n_collect + n_discard - 1)]
            nuts_hist_ok::<B, G>(h, h[0], post, n_collect + n_discard - 1) && init_rel::<B, G>(pre, h[0], n_collect, n_discard)
            && out.len() == n_collect
            && forall |k: int| 0 <= k < n_collect ==> (#[trigger] out[k]) == v1(h[n_discard + k].position)
    }

    /// progress mode: exactly n_collect + n_discard transitions; row k is the position after n_discard + k + 1 of them
    /// (run's trajectory shifted by one draw: run keeps the initial position as its first row)
    pub open spec fn nuts_progress_post<B: AutodiffBackend, G: GradientTarget<B>>(pre: NUTSChain<Fl, B, G>, post: NUTSChain<Fl, B, G>, out: M, n_collect: int, n_discard: int) -> bool {
        exists |h: Seq<NUTSChain<Fl, B, G>>| #![trigger nuts_hist_ok::<B, G>(h, h[0], post, n_collect + n_discard)]
            nuts_hist_ok::<B, G>(h, h[0], post, n_collect + n_discard) && init_rel::<B, G>(pre, h[0], n_collect, n_discard)
            && out.len() == n_collect
            && forall |k: int| 0 <= k < n_collect ==> (#[trigger] out[k]) == v1(h[n_discard + k + 1].position)
    }

    impl<B: AutodiffBackend, GTarget: GradientTarget<B>> NUTSChain<Fl, B, GTarget> {
        pub fn new(target: GTarget, initial_position: Vec<T>, target_accept_p: T) -> (r: Self)
            ensures
                v1(r.position) == xrs(initial_position@),                                                             // [C09.nuts_chain_starts_at_initial_position]
                r.m == 0 && r.t_0 == 10 && val(r.gamma) == XR::Fin(1real / 20real) && val(r.kappa) == XR::Fin(3real / 4real)
                    && val(r.epsilon_bar) == XR::Fin(1real) && val(r.h_bar) == XR::Fin(0real) && val(r.epsilon) == XR::Fin(-1real),   // [C04.dual_averaging_constants_gamma_t0_kappa]
                r.target == target && r.target_accept_p == target_accept_p,
        //@body id=nuts_chain_new file=src/nuts.rs impl_self=NUTSChain name=new props=C04,C09
        //@sig fn new (target : GTarget , initial_position : Vec < T > , target_accept_p : T) -> Self
        //@rules R-lit
        //@end

        pub fn set_seed(self, seed: u64) -> (r: Self)
            ensures state(r.rng) == seeded(seed), r.position == self.position && r.m == self.m && r.epsilon == self.epsilon && r.target == self.target,   // [C07.nuts_chain_set_seed]
        //@body id=nuts_chain_set_seed file=src/nuts.rs impl_self=NUTSChain name=set_seed props=C07
        //@sig fn set_seed (mut self , seed : u64) -> Self
        //@rules R-mutself
        //@end

        #[verifier::exec_allows_no_decreases_clause]
        pub fn run(&mut self, n_collect: usize, n_discard: usize) -> (out: Tensor<B, 2>)
            requires n_collect >= 1, old(self).m + old(self).t_0 + n_collect + n_discard < usize::MAX
            ensures nuts_run_post::<B, GTarget>(*old(self), *final(self), v2(out), n_collect as int, n_discard as int),     // [C09.nuts_run_rows_count_left_at_last]
                tdim2(out) == (n_collect as int, v1(old(self).position).len() as int),
        //@body id=nuts_chain_run file=src/nuts.rs impl_self=NUTSChain name=run props=C09,C04
        //@sig fn run (& mut self , n_collect : usize , n_discard : usize) -> Tensor < B , 2 >
        //@rules
        //@anchor h0 scope=fn pos=after match="^let \\(dim , mut sample\\)"
        //@| let ghost c0 = *self;
        //@| let ghost mut h: Seq<NUTSChain<Fl, B, GTarget>> = seq![*self];
        //@loop 1 iter=it
        //@| invariant
        //@|     it.iter.end == n_collect + n_discard, 1 <= m, n_collect >= 1, dim == v1(c0.position).len(),
        //@|     self.t_0 == c0.t_0, self.m == c0.m + m - 1, c0.m + c0.t_0 + n_collect + n_discard < usize::MAX, v1(self.position).len() == dim,
        //@|     nuts_hist_ok::<B, GTarget>(h, c0, *self, m - 1),
        //@|     tdim2(sample) == (n_collect as int, dim as int),
        //@|     forall |k: int| 0 <= k < n_collect && n_discard + k <= m - 1 ==> (#[trigger] v2(sample)[k]) == v1(h[n_discard + k].position),
        //@|     n_discard >= 1 ==> v2(sample)[0] == v1(c0.position) || n_discard <= m - 1,
        //@anchor p scope=loop:1 pos=after match="^self \\. step \\(\\)"
        //@| proof { h = h.push(*self); }
        //@end

        #[verifier::exec_allows_no_decreases_clause]
        fn run_progress(&mut self, n_collect: usize, n_discard: usize, tx: Sender<ChainStats>) -> (res: Result<Tensor<B, 2>, BoxDynError>)
            requires n_collect >= 1, old(self).m + old(self).t_0 + n_collect + n_discard < usize::MAX
            ensures
                res is Ok,                                                                                                             // [C10.nuts_chain_run_progress_succeeds_whatever_the_channel_does]
                nuts_progress_post::<B, GTarget>(*old(self), *final(self), v2(res->Ok_0), n_collect as int, n_discard as int),         // [C10.nuts_chain_run_progress_is_runs_trajectory_shifted_by_one_draw]
                tdim2(res->Ok_0) == (n_collect as int, v1(old(self).position).len() as int),
        //@body id=nuts_chain_run_progress file=src/nuts.rs impl_self=NUTSChain name=run_progress props=C10
        //@sig fn run_progress (& mut self , n_collect : usize , n_discard : usize , tx : Sender < ChainStats > ,) -> Result < Tensor < B , 2 > , Box < dyn Error > >
        //@rules R-f64 R-fmt R-boolor R-dynerr
        //@closure 1 params="x: T" ret="(r: Fl)"
        //@closure 2 params="x: T" ret="(r: Fl)"
        //@closure 3 params="e: BoxDynError" ret="(r: String)"
        //@anchor h0 scope=fn pos=after match="^let \\(dim , mut sample\\)"
        //@| let ghost c0 = *self;
        //@| let ghost mut h: Seq<NUTSChain<Fl, B, GTarget>> = seq![*self];
        //@loop 1 iter=it
        //@| invariant
        //@|     it.iter.end == total, total == n_discard + n_collect, n_collect >= 1, dim == v1(c0.position).len(), tracker_np(tracker) == dim,
        //@|     self.t_0 == c0.t_0, self.m == c0.m + i, c0.m + c0.t_0 + n_collect + n_discard < usize::MAX, v1(self.position).len() == dim,
        //@|     nuts_hist_ok::<B, GTarget>(h, c0, *self, i as int),
        //@|     tdim2(sample) == (n_collect as int, dim as int),
        //@|     forall |k: int| 0 <= k < n_collect && n_discard + k < i ==> (#[trigger] v2(sample)[k]) == v1(h[n_discard + k + 1].position),
        //@anchor p scope=loop:1 pos=after match="^self \\. step \\(\\)"
        //@| proof { h = h.push(*self); }
        //@anchor fin scope=fn pos=before match="^Ok \\(sample\\)"
        //@| proof {
        //@|     assert(h[0] == c0);
        //@|     assert(nuts_hist_ok::<B, GTarget>(h, h[0], *self, n_collect + n_discard));
        //@|     assert(init_rel::<B, GTarget>(*old(self), h[0], n_collect as int, n_discard as int));
        //@|     assert(v2(sample).len() == n_collect);
        //@|     assert forall |k: int| 0 <= k < n_collect implies (#[trigger] v2(sample)[k]) == v1(h[n_discard + k + 1].position) by {}
        //@| }
        //@end

        #[verifier::exec_allows_no_decreases_clause]
        fn init_chain(&mut self, n_collect: usize, n_discard: usize) -> (r: (usize, Tensor<B, 2>))
            requires n_collect >= 1
            ensures
                init_rel::<B, GTarget>(*old(self), *final(self), n_collect as int, n_discard as int),              // [C04.init_chain_eps0_on_first_use_mu_is_ln_10_eps_counter_kept]
                r.0 == v1(old(self).position).len(), tdim2(r.1) == (n_collect as int, r.0 as int),
                v2(r.1)[0] == v1(old(self).position),                                                                // [C09.nuts_first_kept_draw_is_the_current_state]
                da_params_ok(*old(self)) && (is_sentinel(old(self).epsilon) || (val(old(self).epsilon) is Fin && rv(old(self).epsilon) > 0real)) ==> da_ok(*final(self)),   // [C04.init_chain_establishes_a_positive_finite_step_size]
        //@body id=nuts_init_chain file=src/nuts.rs impl_self=NUTSChain name=init_chain props=C04,C09,C14
        //@sig fn init_chain (& mut self , n_collect : usize , n_discard : usize) -> (usize , Tensor < B , 2 >)
        //@rules R-sampleiter
        //@anchor fin scope=fn pos=before match="^\\(dim , sample\\)"
        //@| proof {
        //@|     if da_params_ok(*old(self)) && (is_sentinel(old(self).epsilon) || (val(old(self).epsilon) is Fin && rv(old(self).epsilon) > 0real)) {
        //@|         assert(val(self.epsilon) is Fin && rv(self.epsilon) > 0real);
        //@|         assert(val(self.mu) == xr_ln(XR::Fin(10real * rv(self.epsilon))));
        //@|         assert(val(self.mu) is Fin);
        //@|         assert(da_ok(*self));
        //@|     }
        //@| }
        //@end

        #[verifier::exec_allows_no_decreases_clause]
        pub fn step(&mut self)
            requires old(self).m + old(self).t_0 < usize::MAX
            ensures nuts_step_post::<B, GTarget>(*old(self), *final(self)),          // [C03.transition_is_algorithm_6]
                exists |alpha: Fl, n_alpha: int| #[trigger] da_post::<B, GTarget>(*old(self), *final(self), alpha, n_alpha),     // [C04.dual_averaging_update_in_warmup_frozen_afterwards]
                final(self).m == old(self).m + 1 && final(self).t_0 == old(self).t_0 && v1(final(self).position).len() == v1(old(self).position).len(),
        //@body id=nuts_step file=src/nuts.rs impl_self=NUTSChain name=step props=C03,C04,C14,C07
        //@sig fn step (& mut self)
        //@rules R-lit R-sampleiter R-cast
        //@anchor t0 scope=fn pos=before match="while s"
        //@| let ghost pre = *old(self);
        //@| let ghost x0 = v1(pre.position);
        //@| let ghost s0 = state(pre.rng);
        //@| let ghost st0 = trans_start::<B, GTarget>(&pre.target, x0, s0);
        //@| let ghost e0 = val(pre.epsilon);
        //@| proof {
        //@|     assert(v1(mom_0) == xrs(normal_seq(s0, x0.len())));
        //@|     assert(val(joint) == st0.2);
        //@|     assert(val(logu) == st0.1);
        //@|     vstd::arithmetic::power2::lemma2_to64();
        //@| }
        //@loop 1
        //@| invariant
        //@|     self.m == pre.m + 1, self.target == pre.target, self.epsilon == pre.epsilon, self.h_bar == pre.h_bar, self.t_0 == pre.t_0,
        //@|     self.gamma == pre.gamma, self.kappa == pre.kappa, self.mu == pre.mu, self.n_discard == pre.n_discard, self.n_collect == pre.n_collect,
        //@|     self.target_accept_p == pre.target_accept_p, self.epsilon_bar == pre.epsilon_bar, pre.m + pre.t_0 < usize::MAX,
        //@|     e0 == val(pre.epsilon), val(logu) == st0.1, val(joint) == st0.2,
        //@|     all_continue::<B, GTarget>(&pre.target, e0, st0.1, st0.2, true, st0.0, j as nat),
        //@|     cur_is::<B, GTarget>(outer_iter::<B, GTarget>(&pre.target, e0, st0.1, st0.2, true, st0.0, j as nat), position_minus, mom_minus, grad_minus, position_plus, mom_plus, grad_plus, j, n, s, self.position, alpha, n_alpha, self.rng),
        //@|     1 <= n <= vstd::arithmetic::power2::pow2(j as nat), j >= 1 ==> n_alpha >= 1, j == 0 ==> s,
        //@anchor l0 scope=loop:1 pos=start
        //@| let ghost cur = outer_iter::<B, GTarget>(&pre.target, e0, st0.1, st0.2, true, st0.0, j as nat);
        //@| proof {
        //@|     // ASSUMPTION (listed): the trajectory is never doubled 60 times in one transition (2^60 leapfrog steps);
        //@|     // the code has no maximum tree depth and its leaf counters are `usize`
        //@|     assume(j <= 60);
        //@|     lemma_pow2_fits(j as nat); lemma_pow2_fits((j + 1) as nat);
        //@|     vstd::arithmetic::power2::lemma_pow2_unfold((j + 1) as nat);
        //@| }
        //@anchor l1 scope=loop:1 pos=after match="^let v ="
        //@| let ghost vv: int = if xr_lt(val(u_run_1), half()) { 1 } else { -1 };
        //@| proof {
        //@|     assert(v as int == vv);
        //@|     lemma_bt_bounds::<B, GTarget>(&pre.target, if vv == -1 { cur.minus } else { cur.plus }, st0.1, vv, j as nat, e0, st0.2, unif_next(cur.rng));
        //@| }
        //@anchor l2 scope=loop:1 pos=end
        //@| proof {
        //@|     let nxt = outer_next::<B, GTarget>(&pre.target, e0, st0.1, st0.2, true, cur);
        //@|     assert(nxt == outer_iter::<B, GTarget>(&pre.target, e0, st0.1, st0.2, true, st0.0, j as nat));
        //@| }
        //@anchor d1 scope=fn pos=after match="^let _m ="
        //@| proof { assert(_m == fli(pre.m + 1)); }
        //@anchor d2 scope=fn pos=after match="^self \\. epsilon = T :: exp"
        //@| proof {
        //@|     assert(T_sqrt_is(_m, pre.m + 1));
        //@|     assert(self.epsilon == da_eps(pre.mu, pre.m + 1, pre.gamma, self.h_bar));
        //@| }
        //@anchor d3 scope=fn pos=after match="^eta = _m \\. powf"
        //@| proof { assert(eta == mk(xr_powf(XR::Fin((pre.m + 1) as real), val(fneg(pre.kappa))))); }
        //@anchor fin scope=fn pos=end
        //@| proof {
        //@|     let last = outer_iter::<B, GTarget>(&pre.target, e0, st0.1, st0.2, true, st0.0, j as nat);
        //@|     let m1 = pre.m + 1;
        //@|     assert(j >= 1 && n_alpha >= 1 && !last.s);
        //@|     assert(fl_div(alpha, fli(n_alpha as int)) == fl_div(mk(last.alpha), fli(n_alpha as int)));
        //@|     let hb = da_hbar(pre.h_bar, m1, pre.t_0 as int, pre.target_accept_p, mk(last.alpha), last.n_alpha as int);
        //@|     assert(self.h_bar == hb);
        //@|     if m1 <= pre.n_discard {
        //@|         assert(self.epsilon == da_eps(pre.mu, m1, pre.gamma, hb));
        //@|         assert(self.epsilon_bar == da_eps_bar(pre.epsilon_bar, self.epsilon, m1, pre.kappa));
        //@|     }
        //@|     lemma_outer_lens::<B, GTarget>(&pre.target, e0, st0.1, st0.2, true, st0.0, j as nat);
        //@|     assert(da_post::<B, GTarget>(pre, *self, mk(last.alpha), last.n_alpha as int));
        //@|     assert(nuts_step_at::<B, GTarget>(pre, *self, j as nat, true));
        //@| }
        //@end
    }
}
} // verus!
fn main() {}
