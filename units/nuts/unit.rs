//@unit nuts — src/nuts.rs: leapfrog, stop_criterion, build_tree, NUTSChain::step (C03, C04, C14), init/run/seeding (C09, C07, C08)
#![allow(unused_imports, unused_variables, dead_code, unused_mut, non_snake_case, unused_parens, unused_labels)]
use vstd::prelude::*;
verus! {
// ASSUMPTION (listed): a 64-bit target, as on every platform burn supports
global size_of usize == 8;
//@include prelude/float.rs
//@include prelude/rng.rs
//@include prelude/tensor.rs

pub mod unit_nuts {
    use vstd::prelude::*;
    use vstd::std_specs::iter::IteratorSpec;
    use super::fl::*;
    use super::rng::*;
    use super::tn::*;
    broadcast use super::fl::fl_axioms, super::rng::rng_axioms, super::tn::tn_axioms, super::tn::ax_tdim2;

    // R-float: `T: Float` is the abstract float
    pub type T = Fl;

    /// `GradientTarget<T, B>` — ASSUMED law: `unnorm_logp_and_grad(position)` returns (lp(position), grad(position)) as
    /// functions of the position's contents (the default method's plumbing is verified in its own right below;
    /// that burn's autodiff value *is* the analytic gradient is the assumption).
    pub trait GradientTarget<B: AutodiffBackend> {
        spec fn lp(&self, x: V) -> XR;
        spec fn grad(&self, x: V) -> V;
        fn unnorm_logp_and_grad(&self, position: Tensor<B, 1>) -> (r: (Tensor<B, 1>, Tensor<B, 1>))
            ensures v1(r.0) == seq![self.lp(v1(position))], v1(r.1) == self.grad(v1(position));
    }

    // ---- C03: Algorithm 6 of Hoffman & Gelman (2014), transcribed from the paper -----------------
    pub struct Pt { pub x: V, pub r: V, pub g: V }
    pub struct Tree { pub minus: Pt, pub plus: Pt, pub cx: V, pub cg: V, pub clp: XR, pub n: nat, pub s: bool, pub alpha: XR, pub n_alpha: nat }
    pub open spec fn half() -> XR { XR::Fin(1real / 2real) }
    /// one leapfrog step of size e with the carried gradient
    pub open spec fn lf<B: AutodiffBackend, G: GradientTarget<B>>(t: &G, p: Pt, e: XR) -> (Pt, XR) {
        let r1 = vadd(p.r, vscale(vscale(p.g, e), half()));
        let x1 = vadd(p.x, vscale(r1, e));
        let g1 = t.grad(x1);
        let r2 = vadd(r1, vscale(vscale(g1, e), half()));
        (Pt { x: x1, r: r2, g: g1 }, t.lp(x1))
    }
    /// joint log-density L(theta) - r.r/2
    pub open spec fn joint_of(lp: XR, r: V) -> XR { xr_sub(lp, xr_mul(vdot(r, r), half())) }
    /// no U-turn between the two ends: (theta+ - theta-).r- >= 0 and (theta+ - theta-).r+ >= 0
    pub open spec fn no_uturn(m: Pt, p: Pt) -> bool {
        let d = vsub(p.x, m.x);
        xr_ge(vdot(d, m.r), XR::Fin(0real)) && xr_ge(vdot(d, p.r), XR::Fin(0real))
    }
    pub open spec fn max1(n: nat) -> nat { if n >= 1 { n } else { 1 } }
    /// BuildTree(theta, r, u, v, j, eps, theta0, r0) threading the generator state; Delta_max = 1000
    #[verifier::opaque]
    pub open spec fn bt<B: AutodiffBackend, G: GradientTarget<B>>(t: &G, p: Pt, logu: XR, v: int, j: nat, eps: XR, joint0: XR, s: RngState) -> (Tree, RngState)
        decreases j
    {
        if j == 0 {
            let (p1, lp1) = lf::<B, G>(t, p, xr_mul(XR::Fin(v as real), eps));
            let jt = joint_of(lp1, p1.r);
            (Tree { minus: p1, plus: p1, cx: p1.x, cg: p1.g, clp: lp1,
                    n: if xr_lt(logu, jt) { 1 } else { 0 },
                    s: xr_lt(xr_sub(logu, XR::Fin(1000real)), jt),
                    alpha: xr_min(XR::Fin(1real), xr_exp(xr_sub(jt, joint0))), n_alpha: 1 }, s)
        } else {
            let (t1, s1) = bt::<B, G>(t, p, logu, v, (j - 1) as nat, eps, joint0, s);
            if !t1.s { (t1, s1) } else {
                let (t2, s2) = bt::<B, G>(t, if v == -1 { t1.minus } else { t1.plus }, logu, v, (j - 1) as nat, eps, joint0, s1);
                let u = val(unif_out(s2));
                let minus = if v == -1 { t2.minus } else { t1.minus };
                let plus = if v == -1 { t1.plus } else { t2.plus };
                let take2 = xr_lt(u, xr_div(XR::Fin(t2.n as real), XR::Fin(max1(t1.n + t2.n) as real)));
                (Tree { minus, plus,
                        cx: if take2 { t2.cx } else { t1.cx }, cg: if take2 { t2.cg } else { t1.cg }, clp: if take2 { t2.clp } else { t1.clp },
                        n: t1.n + t2.n, s: t2.s && no_uturn(minus, plus),
                        alpha: xr_add(t1.alpha, t2.alpha), n_alpha: t1.n_alpha + t2.n_alpha }, unif_next(s2))
            }
        }
    }
    pub open spec fn pt_of<B: AutodiffBackend>(x: Tensor<B, 1>, r: Tensor<B, 1>, g: Tensor<B, 1>) -> Pt { Pt { x: v1(x), r: v1(r), g: v1(g) } }
    pub open spec fn tree_eq<B: AutodiffBackend>(o: (Tensor<B, 1>, Tensor<B, 1>, Tensor<B, 1>, Tensor<B, 1>, Tensor<B, 1>, Tensor<B, 1>, Tensor<B, 1>, Tensor<B, 1>, Tensor<B, 1>, usize, bool, T, usize), t: Tree) -> bool {
        &&& pt_of(o.0, o.1, o.2) == t.minus
        &&& pt_of(o.3, o.4, o.5) == t.plus
        &&& v1(o.6) == t.cx && v1(o.7) == t.cg && v1(o.8) == seq![t.clp]
        &&& o.9 == t.n && o.10 == t.s && val(o.11) == t.alpha && o.12 == t.n_alpha
    }

    fn leapfrog<B: AutodiffBackend, GTarget: GradientTarget<B>>(position: Tensor<B, 1>, mom: Tensor<B, 1>, grad: Tensor<B, 1>, epsilon: T, gradient_target: &GTarget)
        -> (out: (Tensor<B, 1>, Tensor<B, 1>, Tensor<B, 1>, Tensor<B, 1>))
        ensures ({ let (p1, lp1) = lf::<B, GTarget>(gradient_target, pt_of(position, mom, grad), val(epsilon));
                   pt_of(out.0, out.1, out.2) == p1 && v1(out.3) == seq![lp1] })            // [C03.leapfrog_is_one_verlet_step_with_carried_gradient]
    //@body id=nuts_leapfrog file=src/nuts.rs name=leapfrog props=C03,C14
    //@sig fn leapfrog < B , T , GTarget > (position : Tensor < B , 1 > , mom : Tensor < B , 1 > , grad : Tensor < B , 1 > , epsilon : T , gradient_target : & GTarget ,) -> (Tensor < B , 1 > , Tensor < B , 1 > , Tensor < B , 1 > , Tensor < B , 1 >) where T : Float + ElementConversion , B : AutodiffBackend , GTarget : GradientTarget < T , B > ,
    //@rules R-lit
    //@end

    fn stop_criterion<B: AutodiffBackend>(position_minus: Tensor<B, 1>, position_plus: Tensor<B, 1>, mom_minus: Tensor<B, 1>, mom_plus: Tensor<B, 1>) -> (r: bool)
        ensures r == no_uturn(Pt { x: v1(position_minus), r: v1(mom_minus), g: seq![] }, Pt { x: v1(position_plus), r: v1(mom_plus), g: seq![] })   // [C03.stop_criterion_is_the_u_turn_test]
    //@body id=nuts_stop_criterion file=src/nuts.rs name=stop_criterion props=C03
    //@sig fn stop_criterion < B > (position_minus : Tensor < B , 1 > , position_plus : Tensor < B , 1 > , mom_minus : Tensor < B , 1 > , mom_plus : Tensor < B , 1 > ,) -> bool where B : AutodiffBackend ,
    //@rules
    //@end

    fn build_tree<B: AutodiffBackend, GTarget: GradientTarget<B>>(position: Tensor<B, 1>, mom: Tensor<B, 1>, grad: Tensor<B, 1>, logu: T, v: i8, j: usize, epsilon: T, gradient_target: &GTarget, joint_0: T, rng: &mut SmallRng)
        -> (out: (Tensor<B, 1>, Tensor<B, 1>, Tensor<B, 1>, Tensor<B, 1>, Tensor<B, 1>, Tensor<B, 1>, Tensor<B, 1>, Tensor<B, 1>, Tensor<B, 1>, usize, bool, T, usize))
        requires v == 1 || v == -1,
            bt::<B, GTarget>(gradient_target, pt_of(position, mom, grad), val(logu), v as int, j as nat, val(epsilon), val(joint_0), state(*old(rng))).0.n <= usize::MAX,
            bt::<B, GTarget>(gradient_target, pt_of(position, mom, grad), val(logu), v as int, j as nat, val(epsilon), val(joint_0), state(*old(rng))).0.n_alpha <= usize::MAX,
        ensures ({ let (t, s) = bt::<B, GTarget>(gradient_target, pt_of(position, mom, grad), val(logu), v as int, j as nat, val(epsilon), val(joint_0), state(*old(rng)));
                   tree_eq(out, t) && state(*final(rng)) == s })                             // [C03.build_tree_is_algorithm_6_BuildTree]
        decreases j
    //@body id=nuts_build_tree file=src/nuts.rs name=build_tree props=C03,C14
    //@sig fn build_tree < B , T , GTarget > (position : Tensor < B , 1 > , mom : Tensor < B , 1 > , grad : Tensor < B , 1 > , logu : T , v : i8 , j : usize , epsilon : T , gradient_target : & GTarget , joint_0 : T , rng : & mut SmallRng ,) -> (Tensor < B , 1 > , Tensor < B , 1 > , Tensor < B , 1 > , Tensor < B , 1 > , Tensor < B , 1 > , Tensor < B , 1 > , Tensor < B , 1 > , Tensor < B , 1 > , Tensor < B , 1 > , usize , bool , T , usize ,) where T : Float + Element , B : AutodiffBackend , GTarget : GradientTarget < T , B > + Sync ,
    //@rules R-lit R-f64 R-cast
    //@anchor rv scope=fn pos=start
    //@| proof { reveal_with_fuel(bt, 2); }
    //@end

    // ---- the transition: outer loop of Algorithm 6 + dual averaging (C03, C04) -------------------
    pub struct NUTSChain<B: AutodiffBackend, GTarget> {
        //@fields file=src/nuts.rs name=NUTSChain
    }
    /// state of the doubling loop
    pub struct OSt { pub minus: Pt, pub plus: Pt, pub j: nat, pub n: nat, pub s: bool, pub x: V, pub alpha: XR, pub n_alpha: nat, pub rng: RngState }
    /// one iteration of the outer loop of Algorithm 6: a fair-coin direction from one uniform (`pol` fixes which side of
    /// 1/2 means forward), BuildTree from the matching end at depth j, the new point adopted iff s' and u2 < min(1, n'/n)
    pub open spec fn outer_next<B: AutodiffBackend, G: GradientTarget<B>>(t: &G, eps: XR, logu: XR, joint0: XR, pol: bool, st: OSt) -> OSt {
        let u1 = val(unif_out(st.rng));
        let sa = unif_next(st.rng);
        let v: int = if xr_lt(u1, half()) == pol { 1 } else { -1 };
        let (tr, sb) = bt::<B, G>(t, if v == -1 { st.minus } else { st.plus }, logu, v, st.j, eps, joint0, sa);
        let minus = if v == -1 { tr.minus } else { st.minus };
        let plus = if v == -1 { st.plus } else { tr.plus };
        let u2 = val(unif_out(sb));
        let take = tr.s && xr_lt(u2, xr_min(XR::Fin(1real), xr_div(XR::Fin(tr.n as real), XR::Fin(st.n as real))));
        OSt { minus, plus, j: st.j + 1, n: st.n + tr.n, s: tr.s && no_uturn(minus, plus), x: if take { tr.cx } else { st.x },
              alpha: tr.alpha, n_alpha: tr.n_alpha, rng: unif_next(sb) }
    }
    /// the state after k iterations of the doubling loop, and "the loop condition held before each of them"
    pub open spec fn outer_iter<B: AutodiffBackend, G: GradientTarget<B>>(t: &G, eps: XR, logu: XR, joint0: XR, pol: bool, st0: OSt, k: nat) -> OSt
        decreases k
    {
        if k == 0 { st0 } else { outer_next::<B, G>(t, eps, logu, joint0, pol, outer_iter::<B, G>(t, eps, logu, joint0, pol, st0, (k - 1) as nat)) }
    }
    pub open spec fn all_continue<B: AutodiffBackend, G: GradientTarget<B>>(t: &G, eps: XR, logu: XR, joint0: XR, pol: bool, st0: OSt, k: nat) -> bool
        decreases k
    {
        if k == 0 { true } else { all_continue::<B, G>(t, eps, logu, joint0, pol, st0, (k - 1) as nat) && outer_iter::<B, G>(t, eps, logu, joint0, pol, st0, (k - 1) as nat).s }
    }
    /// start of a transition: momentum = dim fresh normals, slice level log u = joint0 - Exp(1), theta- = theta+ = theta
    pub open spec fn trans_start<B: AutodiffBackend, G: GradientTarget<B>>(t: &G, x: V, s0: RngState) -> (OSt, XR, XR) {
        let r0 = xrs(normal_seq(s0, x.len()));
        let s1 = normal_state(s0, x.len());
        let joint0 = joint_of(t.lp(x), r0);
        let logu = xr_sub(joint0, val(exp1_out(s1)));
        let p0 = Pt { x, r: r0, g: t.grad(x) };
        (OSt { minus: p0, plus: p0, j: 0, n: 1, s: true, x, alpha: XR::Fin(0real), n_alpha: 0, rng: exp1_next(s1) }, logu, joint0)
    }
    // ---- C04: Nesterov dual averaging (Hoffman & Gelman eq. 6), gamma/t0/kappa/mu read from the chain ----
    pub open spec fn fadd(a: Fl, b: Fl) -> Fl { mk(xr_add(val(a), val(b))) }
    pub open spec fn fsub(a: Fl, b: Fl) -> Fl { mk(xr_sub(val(a), val(b))) }
    pub open spec fn fmul(a: Fl, b: Fl) -> Fl { mk(xr_mul(val(a), val(b))) }
    pub open spec fn fneg(a: Fl) -> Fl { mk(xr_neg(val(a))) }
    pub open spec fn fexp(a: Fl) -> Fl { mk(xr_exp(val(a))) }
    pub open spec fn fln(a: Fl) -> Fl { mk(xr_ln(val(a))) }
    pub open spec fn fli(n: int) -> Fl { mk(XR::Fin(n as real)) }
    /// H_m = (1 - 1/(m+t0)) H_{m-1} + 1/(m+t0) (delta - alpha/n_alpha)
    pub open spec fn da_hbar(h_bar: Fl, m1: int, t0: int, delta: Fl, alpha: Fl, n_alpha: int) -> Fl {
        let eta = fl_div(fli(1), fli(m1 + t0));
        fadd(fmul(fsub(fli(1), eta), h_bar), fmul(eta, fsub(delta, fl_div(alpha, fli(n_alpha)))))
    }
    /// eps_m = exp(mu - sqrt(m)/gamma H_m)
    pub open spec fn da_eps(mu: Fl, m1: int, gamma: Fl, h_bar1: Fl) -> Fl {
        fexp(fsub(mu, fmul(fl_div(mk(xr_sqrt(XR::Fin(m1 as real))), gamma), h_bar1)))
    }
    /// ln eps_bar_m = m^-kappa ln eps_m + (1 - m^-kappa) ln eps_bar_{m-1}
    pub open spec fn da_eps_bar(eps_bar: Fl, eps1: Fl, m1: int, kappa: Fl) -> Fl {
        let eta = mk(xr_powf(XR::Fin(m1 as real), val(fneg(kappa))));
        fexp(fadd(fmul(fsub(fli(1), eta), fln(eps_bar)), fmul(eta, fln(eps1))))
    }
    /// the adaptation part of a transition with acceptance statistic alpha / n_alpha
    pub open spec fn da_post<B: AutodiffBackend, G: GradientTarget<B>>(pre: NUTSChain<B, G>, post: NUTSChain<B, G>, alpha: Fl, n_alpha: int) -> bool {
        let m1 = pre.m + 1;
        let hb = da_hbar(pre.h_bar, m1, pre.t_0 as int, pre.target_accept_p, alpha, n_alpha);
        &&& post.m == m1 && post.h_bar == hb
        &&& post.gamma == pre.gamma && post.t_0 == pre.t_0 && post.kappa == pre.kappa && post.mu == pre.mu && post.n_discard == pre.n_discard
            && post.n_collect == pre.n_collect && post.target_accept_p == pre.target_accept_p && post.target == pre.target
        &&& m1 <= pre.n_discard ==> post.epsilon == da_eps(pre.mu, m1, pre.gamma, hb)
                && post.epsilon_bar == da_eps_bar(pre.epsilon_bar, post.epsilon, m1, pre.kappa)
        &&& m1 > pre.n_discard ==> post.epsilon == pre.epsilon_bar && post.epsilon_bar == pre.epsilon_bar
    }
    /// C03 + C04: one NUTS transition: the doubling loop of Algorithm 6 runs k >= 1 times (it continues exactly while s),
    /// the chain moves to the point selected by the last state, the generator is the one left by the loop, and the step
    /// size is adapted with the acceptance statistic alpha/n_alpha of the LAST doubling
    pub open spec fn nuts_step_at<B: AutodiffBackend, G: GradientTarget<B>>(pre: NUTSChain<B, G>, post: NUTSChain<B, G>, k: nat, pol: bool) -> bool {
        let (st0, logu, joint0) = trans_start::<B, G>(&pre.target, v1(pre.position), state(pre.rng));
        let last = outer_iter::<B, G>(&pre.target, val(pre.epsilon), logu, joint0, pol, st0, k);
        &&& k >= 1 && all_continue::<B, G>(&pre.target, val(pre.epsilon), logu, joint0, pol, st0, k) && !last.s
        &&& v1(post.position) == last.x && state(post.rng) == last.rng
        &&& da_post::<B, G>(pre, post, mk(last.alpha), last.n_alpha as int)
    }
    pub open spec fn nuts_step_post<B: AutodiffBackend, G: GradientTarget<B>>(pre: NUTSChain<B, G>, post: NUTSChain<B, G>) -> bool {
        exists |k: nat, pol: bool| #[trigger] nuts_step_at::<B, G>(pre, post, k, pol)
    }
    /// the program variables of the doubling loop hold the abstract loop state
    pub open spec fn cur_is<B: AutodiffBackend, G: GradientTarget<B>>(st: OSt, pm: Tensor<B, 1>, mm: Tensor<B, 1>, gm: Tensor<B, 1>, pp: Tensor<B, 1>, mp: Tensor<B, 1>, gp: Tensor<B, 1>,
        j: usize, n: usize, s: bool, pos: Tensor<B, 1>, alpha: Fl, n_alpha: usize, rng: SmallRng) -> bool {
        &&& st.minus == pt_of(pm, mm, gm) && st.plus == pt_of(pp, mp, gp)
        &&& st.j == j && st.n == n && st.s == s && st.x == v1(pos) && val(alpha) == st.alpha && n_alpha == st.n_alpha && st.rng == state(rng)
    }
    pub open spec fn T_sqrt_is(m: Fl, m1: int) -> bool { mk(xr_sqrt(val(m))) == mk(xr_sqrt(XR::Fin(m1 as real))) }
    /// the tree built at depth j has at most 2^j leaves
    pub proof fn lemma_bt_bounds<B: AutodiffBackend, G: GradientTarget<B>>(t: &G, p: Pt, logu: XR, v: int, j: nat, eps: XR, joint0: XR, s: RngState)
        ensures bt::<B, G>(t, p, logu, v, j, eps, joint0, s).0.n <= vstd::arithmetic::power2::pow2(j),
            bt::<B, G>(t, p, logu, v, j, eps, joint0, s).0.n_alpha <= vstd::arithmetic::power2::pow2(j),
            bt::<B, G>(t, p, logu, v, j, eps, joint0, s).0.n_alpha >= 1,
        decreases j
    {
        reveal_with_fuel(bt, 2);
        vstd::arithmetic::power2::lemma2_to64();
        if j > 0 {
            let (t1, s1) = bt::<B, G>(t, p, logu, v, (j - 1) as nat, eps, joint0, s);
            lemma_bt_bounds::<B, G>(t, p, logu, v, (j - 1) as nat, eps, joint0, s);
            lemma_bt_bounds::<B, G>(t, if v == -1 { t1.minus } else { t1.plus }, logu, v, (j - 1) as nat, eps, joint0, s1);
            vstd::arithmetic::power2::lemma_pow2_unfold(j);
        }
    }
    pub proof fn lemma_pow2_fits(j: nat)
        requires j <= 62
        ensures vstd::arithmetic::power2::pow2(j) <= 0x4000_0000_0000_0000
    {
        vstd::arithmetic::power2::lemma2_to64();
        vstd::arithmetic::power2::lemma2_to64_rest();
        if j < 62 { vstd::arithmetic::power2::lemma_pow2_strictly_increases(j, 62); }
    }

    impl<B: AutodiffBackend, GTarget: GradientTarget<B>> NUTSChain<B, GTarget> {
        #[verifier::exec_allows_no_decreases_clause]
        pub fn step(&mut self)
            requires old(self).m + old(self).t_0 < usize::MAX
            ensures nuts_step_post::<B, GTarget>(*old(self), *final(self))          // [C03.transition_is_algorithm_6]
        //@body id=nuts_step file=src/nuts.rs impl_self=NUTSChain name=step props=C03,C04,C14,C07
        //@sig fn step (& mut self)
        //@rules R-lit R-sampleiter R-cast
        //@anchor t0 scope=fn pos=before match="while s"
        //@| let ghost pre = *old(self);
        //@| let ghost x0 = v1(pre.position);
        //@| let ghost s0 = state(pre.rng);
        //@| let ghost st0 = trans_start::<B, GTarget>(&pre.target, x0, s0);
        //@| let ghost e0 = val(pre.epsilon);
        //@| proof {
        //@|     assert(v1(mom_0) == xrs(normal_seq(s0, x0.len())));
        //@|     assert(val(joint) == st0.2);
        //@|     assert(val(logu) == st0.1);
        //@|     vstd::arithmetic::power2::lemma2_to64();
        //@| }
        //@loop 1
        //@| invariant
        //@|     self.m == pre.m + 1, self.target == pre.target, self.epsilon == pre.epsilon, self.h_bar == pre.h_bar, self.t_0 == pre.t_0,
        //@|     self.gamma == pre.gamma, self.kappa == pre.kappa, self.mu == pre.mu, self.n_discard == pre.n_discard, self.n_collect == pre.n_collect,
        //@|     self.target_accept_p == pre.target_accept_p, self.epsilon_bar == pre.epsilon_bar, pre.m + pre.t_0 < usize::MAX,
        //@|     e0 == val(pre.epsilon), val(logu) == st0.1, val(joint) == st0.2,
        //@|     all_continue::<B, GTarget>(&pre.target, e0, st0.1, st0.2, true, st0.0, j as nat),
        //@|     cur_is::<B, GTarget>(outer_iter::<B, GTarget>(&pre.target, e0, st0.1, st0.2, true, st0.0, j as nat), position_minus, mom_minus, grad_minus, position_plus, mom_plus, grad_plus, j, n, s, self.position, alpha, n_alpha, self.rng),
        //@|     1 <= n <= vstd::arithmetic::power2::pow2(j as nat), j >= 1 ==> n_alpha >= 1, j == 0 ==> s,
        //@anchor l0 scope=loop:1 pos=start
        //@| let ghost cur = outer_iter::<B, GTarget>(&pre.target, e0, st0.1, st0.2, true, st0.0, j as nat);
        //@| proof {
        //@|     // ASSUMPTION (listed): the trajectory is never doubled 60 times in one transition (2^60 leapfrog steps);
        //@|     // the code has no maximum tree depth and its leaf counters are `usize`
        //@|     assume(j <= 60);
        //@|     lemma_pow2_fits(j as nat); lemma_pow2_fits((j + 1) as nat);
        //@|     vstd::arithmetic::power2::lemma_pow2_unfold((j + 1) as nat);
        //@| }
        //@anchor l1 scope=loop:1 pos=after match="^let v ="
        //@| let ghost vv: int = if xr_lt(val(u_run_1), half()) { 1 } else { -1 };
        //@| proof {
        //@|     assert(v as int == vv);
        //@|     lemma_bt_bounds::<B, GTarget>(&pre.target, if vv == -1 { cur.minus } else { cur.plus }, st0.1, vv, j as nat, e0, st0.2, unif_next(cur.rng));
        //@| }
        //@anchor l2 scope=loop:1 pos=end
        //@| proof {
        //@|     let nxt = outer_next::<B, GTarget>(&pre.target, e0, st0.1, st0.2, true, cur);
        //@|     assert(nxt == outer_iter::<B, GTarget>(&pre.target, e0, st0.1, st0.2, true, st0.0, j as nat));
        //@| }
        //@anchor d1 scope=fn pos=after match="^let _m ="
        //@| proof { assert(_m == fli(pre.m + 1)); }
        //@anchor d2 scope=fn pos=after match="^self \\. epsilon = T :: exp"
        //@| proof {
        //@|     assert(T_sqrt_is(_m, pre.m + 1));
        //@|     assert(self.epsilon == da_eps(pre.mu, pre.m + 1, pre.gamma, self.h_bar));
        //@| }
        //@anchor d3 scope=fn pos=after match="^eta = _m \\. powf"
        //@| proof { assert(eta == mk(xr_powf(XR::Fin((pre.m + 1) as real), val(fneg(pre.kappa))))); }
        //@anchor fin scope=fn pos=end
        //@| proof {
        //@|     let last = outer_iter::<B, GTarget>(&pre.target, e0, st0.1, st0.2, true, st0.0, j as nat);
        //@|     let m1 = pre.m + 1;
        //@|     assert(j >= 1 && n_alpha >= 1 && !last.s);
        //@|     assert(fl_div(alpha, fli(n_alpha as int)) == fl_div(mk(last.alpha), fli(n_alpha as int)));
        //@|     let hb = da_hbar(pre.h_bar, m1, pre.t_0 as int, pre.target_accept_p, mk(last.alpha), last.n_alpha as int);
        //@|     assert(self.h_bar == hb);
        //@|     if m1 <= pre.n_discard {
        //@|         assert(self.epsilon == da_eps(pre.mu, m1, pre.gamma, hb));
        //@|         assert(self.epsilon_bar == da_eps_bar(pre.epsilon_bar, self.epsilon, m1, pre.kappa));
        //@|     }
        //@|     assert(da_post::<B, GTarget>(pre, *self, mk(last.alpha), last.n_alpha as int));
        //@|     assert(nuts_step_at::<B, GTarget>(pre, *self, j as nat, true));
        //@| }
        //@end
    }
}
} // verus!
fn main() {}
