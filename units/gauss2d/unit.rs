//@unit gauss2d — src/distributions.rs: Gaussian2D (ndarray-based) normalised and unnormalised log-density (C15)
#![allow(unused_imports, unused_variables, dead_code, unused_mut, non_snake_case, unused_parens, unused_labels)]
use vstd::prelude::*;
verus! {
//@include prelude/float.rs
//@include prelude/ndarray.rs
//@include prelude/ndfloat.rs
//@include prelude/ndtrack.rs
//@include prelude/ndgauss.rs

// loops are verified in the context of their function (facts about values bound before a loop need no restating in
// its invariant: hoisting a sub-expression out of a loop must not break the proof)
#[verifier::loop_isolation(false)]
pub mod unit_gauss2d {
    use vstd::prelude::*;
    use super::fl::*;
    use super::nd::*;
    use super::ndf::*;
    use super::ndt::*;
    use super::ndg::*;
    broadcast use super::fl::fl_axioms, super::ndf::ndf_axioms, super::ndt::ndt_axioms, super::ndt::ax_odim2_mk;

    pub type T = Fl;
    pub struct Gaussian2D {
        //@fields file=src/distributions.rs name=Gaussian2D
    }
    pub trait Normalized<X, F> { spec fn logp_req(&self, position: Seq<X>) -> bool; fn logp(&self, position: &[X]) -> F requires self.logp_req(position@); }
    pub trait Target<X, F> { spec fn pos_req(&self, position: Seq<X>) -> bool; fn unnorm_logp(&self, position: &[X]) -> F requires self.pos_req(position@); }

    pub open spec fn cv(g: Gaussian2D, i: int, j: int) -> real { rv(a2(g.cov)[i][j]) }
    pub open spec fn g_det(g: Gaussian2D) -> real { cv(g, 0, 0) * cv(g, 1, 1) - cv(g, 0, 1) * cv(g, 1, 0) }
    /// well-formed parameters: 2-vector mean, 2x2 covariance, all finite, non-singular
    pub open spec fn g_ok(g: Gaussian2D, x: Seq<Fl>) -> bool {
        &&& odim2(g.cov) == (2int, 2int) && a1(g.mean).len() == 2 && x.len() == 2
        &&& fin2(a2(g.cov)) && fin1(a1(g.mean)) && fin1(x) && g_det(g) != 0real
    }
    /// (x - mean)^T cov^{-1} (x - mean), with cov^{-1} = adj(cov)/det   (from the statement)
    pub open spec fn g_quad(g: Gaussian2D, x: Seq<Fl>) -> real {
        let d0 = rv(x[0]) - rv(a1(g.mean)[0]); let d1 = rv(x[1]) - rv(a1(g.mean)[1]);
        let det = g_det(g);
        let (i00, i01, i10, i11) = (cv(g, 1, 1) / det, -cv(g, 0, 1) / det, -cv(g, 1, 0) / det, cv(g, 0, 0) / det);
        (d0 * i00 + d1 * i10) * d0 + (d0 * i01 + d1 * i11) * d1
    }
    pub open spec fn abs_r(x: real) -> real { if x < 0real { -x } else { x } }

    impl Target<T, T> for Gaussian2D {
        open spec fn pos_req(&self, position: Seq<T>) -> bool { g_ok(*self, position) }
        fn unnorm_logp(&self, position: &[T]) -> (r: T)
            ensures r == fl(-(1real / 2real) * g_quad(*self, position@))      // [C15.gaussian2d_nd_unnorm_logp]
        //@body id=g2_unnorm file=src/distributions.rs impl_self=Gaussian2D impl_trait=Target name=unnorm_logp props=C15
        //@sig fn unnorm_logp (& self , position : & [T]) -> T
        //@rules R-lit R-index
        //@index self.cov:nd_index2
        //@anchor i0 scope=fn pos=after match="^let inv_cov"
        //@| let ghost dl = a1(diff);
        //@| let ghost ic = a2(inv_cov);
        //@| let ghost dt = g_det(*self);
        //@| proof {
        //@|     assert(det == fl(dt));
        //@|     let adj = seq![seq![d, mk(xr_neg(val(b)))], seq![mk(xr_neg(val(c))), a]];
        //@|     assert(rect2(adj, 2, 2));
        //@|     assert(rect2(divs2(adj, det), 2, 2));
        //@|     assert(odim2(inv_cov) == (2int, 2int));
        //@|     assert(ic[0][0] == fl(cv(*self, 1, 1) / dt) && ic[0][1] == fl(-cv(*self, 0, 1) / dt) && ic[1][0] == fl(-cv(*self, 1, 0) / dt) && ic[1][1] == fl(cv(*self, 0, 0) / dt));
        //@|     assert(dl[0] == fl(rv(position@[0]) - rv(a1(self.mean)[0])) && dl[1] == fl(rv(position@[1]) - rv(a1(self.mean)[1])));
        //@|     assert(dl.len() == 2);
        //@|     reveal_with_fuel(fsum_prod, 3);
        //@| }
        //@end
    }
    impl Normalized<T, T> for Gaussian2D {
        open spec fn logp_req(&self, position: Seq<T>) -> bool { g_ok(*self, position) }
        fn logp(&self, position: &[T]) -> (r: T)
            ensures r == fl(-ln_r(2real * pi_r()) - (1real / 2real) * ln_r(abs_r(g_det(*self))) - (1real / 2real) * g_quad(*self, position@))      // [C15.gaussian2d_nd_logp_is_normalised_density]
        //@body id=g2_logp file=src/distributions.rs impl_self=Gaussian2D impl_trait=Normalized name=logp props=C15
        //@sig fn logp (& self , position : & [T]) -> T
        //@rules R-lit R-index R-const
        //@index self.cov:nd_index2
        //@const PI:PI_const
        //@anchor i0 scope=fn pos=after match="^let inv_cov"
        //@| let ghost dl = a1(diff);
        //@| let ghost ic = a2(inv_cov);
        //@| let ghost dt = g_det(*self);
        //@| proof {
        //@|     assert(det == fl(dt));
        //@|     let adj = seq![seq![d, mk(xr_neg(val(b)))], seq![mk(xr_neg(val(c))), a]];
        //@|     assert(rect2(adj, 2, 2));
        //@|     assert(rect2(divs2(adj, det), 2, 2));
        //@|     assert(odim2(inv_cov) == (2int, 2int));
        //@|     assert(ic[0][0] == fl(cv(*self, 1, 1) / dt) && ic[0][1] == fl(-cv(*self, 0, 1) / dt) && ic[1][0] == fl(-cv(*self, 1, 0) / dt) && ic[1][1] == fl(cv(*self, 0, 0) / dt));
        //@|     assert(dl[0] == fl(rv(position@[0]) - rv(a1(self.mean)[0])) && dl[1] == fl(rv(position@[1]) - rv(a1(self.mean)[1])));
        //@|     assert(dl.len() == 2);
        //@|     reveal_with_fuel(fsum_prod, 3);
        //@| }
        //@anchor t3 scope=fn pos=after match="^let term_3"
        //@| proof { ax_pi(); assert(term_3 == fl(-(1real / 2real) * g_quad(*self, position@))); }
        //@end
    }
}
} // verus!
fn main() {}
