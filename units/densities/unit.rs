//@unit densities — src/distributions.rs: IsotropicGaussian (proposal density, sampler, seeding, target), DiffableGaussian2D::new (C15)
#![allow(unused_imports, unused_variables, dead_code, unused_mut, non_snake_case, unused_parens, unused_labels)]
use vstd::prelude::*;
verus! {
//@include prelude/float.rs
//@include prelude/rng.rs

// loops are verified in the context of their function (facts about values bound before a loop need no restating in
// its invariant: hoisting a sub-expression out of a loop must not break the proof)
#[verifier::loop_isolation(false)]
pub mod unit_densities {
    use vstd::prelude::*;
    use vstd::std_specs::iter::IteratorSpec;
    use super::fl::*;
    use super::rng::*;
    broadcast use super::fl::fl_axioms, super::rng::rng_axioms;

    // R-float: `T: Float` is the abstract float
    pub type T = Fl;
    pub open spec fn rv(f: Fl) -> real { val(f)->Fin_0 }
    pub open spec fn fl(x: real) -> Fl { mk(XR::Fin(x)) }
    pub open spec fn fin1(s: Seq<Fl>) -> bool { forall |i: int| 0 <= i < s.len() ==> val(#[trigger] s[i]) is Fin }

    pub struct IsotropicGaussian {
        //@fields file=src/distributions.rs name=IsotropicGaussian
    }
    pub trait Proposal<X, F>: Sized {
        spec fn logp_req(&self, from: Seq<X>, to: Seq<X>) -> bool;
        spec fn sample_req(&self) -> bool;
        fn sample(&mut self, current: &[X]) -> Vec<X> requires old(self).sample_req();
        fn logp(&self, from: &[X], to: &[X]) -> F requires self.logp_req(from@, to@);
        fn set_seed(self, seed: u64) -> Self;
    }
    pub trait Target<X, F> {
        fn unnorm_logp(&self, position: &[X]) -> F;
    }

    /// sum over the first k coordinates of (to_i - from_i)^2
    pub open spec fn ssd(from: Seq<Fl>, to: Seq<Fl>, k: int) -> real decreases k {
        if k <= 0 { 0real } else { ssd(from, to, k - 1) + (rv(to[k - 1]) - rv(from[k - 1])) * (rv(to[k - 1]) - rv(from[k - 1])) }
    }
    /// sum of squares of the first k coordinates
    pub open spec fn ssq(x: Seq<Fl>, k: int) -> real decreases k {
        if k <= 0 { 0real } else { ssq(x, k - 1) + rv(x[k - 1]) * rv(x[k - 1]) }
    }
    /// log N(to; from, sigma^2 I) = - sum (to_i - from_i)^2 / (2 sigma^2) - (d/2) ln(2 pi sigma^2)     (from the statement)
    pub open spec fn iso_logpdf(from: Seq<Fl>, to: Seq<Fl>, sigma: real) -> real {
        let d = from.len() as real;
        -(ssd(from, to, from.len() as int) / (2real * (sigma * sigma))) - (d / 2real) * ln_r(2real * pi_r() * (sigma * sigma))
    }
    pub proof fn lemma_ssd_symmetric(a: Seq<Fl>, b: Seq<Fl>, k: int)
        requires 0 <= k <= a.len(), a.len() == b.len()
        ensures ssd(a, b, k) == ssd(b, a, k)
        decreases k
    {
        if k > 0 {
            lemma_ssd_symmetric(a, b, k - 1);
            let x = rv(b[k - 1]) - rv(a[k - 1]);
            let y = rv(a[k - 1]) - rv(b[k - 1]);
            assert(x * x == y * y) by(nonlinear_arith) requires x == -y;
        }
    }
    /// the proposal density is symmetric in its arguments
    pub proof fn lemma_iso_logpdf_symmetric(a: Seq<Fl>, b: Seq<Fl>, sigma: real)
        requires a.len() == b.len()
        ensures iso_logpdf(a, b, sigma) == iso_logpdf(b, a, sigma)      // [C15.iso_logp_symmetric]
    {
        lemma_ssd_symmetric(a, b, a.len() as int);
    }
    pub proof fn lemma_div_sum(a: real, b: real, c: real)
        requires c != 0real
        ensures a / c + b / c == (a + b) / c
    {
        assert(a / c + b / c == (a + b) / c) by(nonlinear_arith) requires c != 0real;
    }

    impl Proposal<T, T> for IsotropicGaussian {
        open spec fn logp_req(&self, from: Seq<T>, to: Seq<T>) -> bool {
            from.len() == to.len() && fin1(from) && fin1(to) && val(self.std) is Fin && rv(self.std) != 0real
        }

        /// `Normal::new(0, std)` must succeed (the library `expect`s it): a finite standard deviation
        open spec fn sample_req(&self) -> bool { val(self.std) is Fin }

        fn sample(&mut self, current: &[T]) -> (r: Vec<T>)
            ensures
                r@.len() == current@.len()
                    && forall |i: int| 0 <= i < current@.len() ==> (#[trigger] r@[i]) == mk(xr_add(xr_add(XR::Fin(0real), xr_mul(val(old(self).std), val(normal_out(normal_state(state(old(self).rng), i as nat))))), val(current@[i]))),   // [C15.iso_sample_is_from_plus_std_times_standard_normal]
                final(self).std == old(self).std,
                state(final(self).rng) == normal_state(state(old(self).rng), (current@.len() + 1) as nat),      // [C15.iso_sample_consumes_own_generator_only]
        //@body id=iso_sample file=src/distributions.rs impl_self=IsotropicGaussian impl_trait=Proposal name=sample props=C15,C07
        //@sig fn sample (& mut self , current : & [T]) -> Vec < T >
        //@rules R-samplezip
        //@outtype __vx_out1 Vec<T>
        //@anchor s0 scope=fn pos=start
        //@| let ghost s0 = state(self.rng);
        //@| let ghost sd = self.std;
        //@loop 1 iter=it
        //@| invariant
        //@|     it.iter.end == current@.len(), self.std == sd, normal.mean == mk(XR::Fin(0real)) && normal.std_dev == sd,
        //@|     state(self.rng) == normal_state(s0, __vx_k1 as nat),
        //@|     __vx_out1@.len() == __vx_k1,
        //@|     forall |i: int| 0 <= i < __vx_k1 ==> (#[trigger] __vx_out1@[i]) == mk(xr_add(xr_add(XR::Fin(0real), xr_mul(val(sd), val(normal_out(normal_state(s0, i as nat))))), val(current@[i]))),
        //@end

        fn logp(&self, from: &[T], to: &[T]) -> (lp: T)
            ensures lp == fl(iso_logpdf(from@, to@, rv(self.std)))       // [C15.iso_logp_is_normalised_log_density]
        //@body id=iso_logp file=src/distributions.rs impl_self=IsotropicGaussian impl_trait=Proposal name=logp props=C15
        //@sig fn logp (& self , from : & [T] , to : & [T]) -> T
        //@rules R-zip R-const R-lit
        //@const PI:PI_const
        //@anchor g0 scope=fn pos=after match="^let var ="
        //@| let ghost s = rv(self.std);
        //@| proof {
        //@|     assert(s * s > 0real) by(nonlinear_arith) requires s != 0real;
        //@|     assert(0real / (2real * (s * s)) == 0real) by(nonlinear_arith) requires s * s > 0real;
        //@| }
        //@loop 1 iter=it
        //@| invariant
        //@|     it.iter.end == from@.len(), from@.len() == to@.len(), fin1(from@), fin1(to@),
        //@|     s == rv(self.std), val(self.std) is Fin, s * s > 0real, var == fl(s * s), two == fl(2real), d == fl(from@.len() as real),
        //@|     lp == fl(-(ssd(from@, to@, __vx_k1 as int) / (2real * (s * s)))),
        //@anchor step scope=loop:1 pos=end
        //@| proof {
        //@|     let a = ssd(from@, to@, __vx_k1 as int);
        //@|     let b = (rv(to@[__vx_k1 as int]) - rv(from@[__vx_k1 as int])) * (rv(to@[__vx_k1 as int]) - rv(from@[__vx_k1 as int]));
        //@|     let c = 2real * (s * s);
        //@|     lemma_div_sum(a, b, c);
        //@|     assert((-b) / c == -(b / c)) by(nonlinear_arith) requires c > 0real;
        //@|     assert(-(a / c) + -(b / c) == -((a + b) / c));
        //@| }
        //@anchor fin scope=fn pos=end
        //@| proof {
        //@|     ax_pi();
        //@|     let x = 2real * pi_r() * (s * s);
        //@|     assert(x > 0real) by(nonlinear_arith) requires s * s > 0real, pi_r() > 3real, x == 2real * pi_r() * (s * s);
        //@|     let dd = from@.len() as real;
        //@|     assert((-dd) * (1real / 2real) * ln_r(x) == -((dd / 2real) * ln_r(x))) by(nonlinear_arith);
        //@| }
        //@end

        fn set_seed(self, seed: u64) -> (r: Self)
            ensures state(r.rng) == seeded(seed), r.std == self.std      // [C15.iso_set_seed_determines_the_stream]
        //@body id=iso_set_seed file=src/distributions.rs impl_self=IsotropicGaussian impl_trait=Proposal name=set_seed props=C15,C07,C08
        //@sig fn set_seed (mut self , seed : u64) -> Self
        //@rules R-mutself
        //@end
    }

    impl Target<T, T> for IsotropicGaussian {
        fn unnorm_logp(&self, position: &[T]) -> (r: T)
            ensures fin1(position@) && val(self.std) is Fin && rv(self.std) != 0real ==>
                r == fl((-(1real / 2real) * ssq(position@, position@.len() as int)) / (rv(self.std) * rv(self.std)))      // [C15.iso_unnorm_logp]
        //@body id=iso_unnorm_logp file=src/distributions.rs impl_self=IsotropicGaussian impl_trait=Target name=unnorm_logp props=C15
        //@sig fn unnorm_logp (& self , position : & [T]) -> T
        //@rules R-iterref R-lit
        //@loop 1 iter=it
        //@| invariant
        //@|     it.iter.end == position@.len(),
        //@|     fin1(position@) ==> sum == fl(ssq(position@, __vx_k1 as int)),
        //@anchor fin scope=fn pos=end
        //@| proof {
        //@|     let s = rv(self.std);
        //@|     if val(self.std) is Fin && s != 0real { assert(s * s != 0real) by(nonlinear_arith) requires s != 0real; }
        //@| }
        //@end
    }

    // ---- DiffableGaussian2D::new: inverse covariance, log-determinant, normalising constant ----
    pub struct DiffableGaussian2D {
        //@fields file=src/distributions.rs name=DiffableGaussian2D
    }
    pub open spec fn m2(a: [[T; 2]; 2], i: int, j: int) -> real { rv(a@[i]@[j]) }
    pub open spec fn fin22(a: [[T; 2]; 2]) -> bool { val(a@[0]@[0]) is Fin && val(a@[0]@[1]) is Fin && val(a@[1]@[0]) is Fin && val(a@[1]@[1]) is Fin }
    pub open spec fn det2(a: [[T; 2]; 2]) -> real { m2(a, 0, 0) * m2(a, 1, 1) - m2(a, 0, 1) * m2(a, 1, 0) }
    /// a * b == identity (2x2)
    pub open spec fn is_inverse(a: [[T; 2]; 2], b: [[T; 2]; 2]) -> bool {
        &&& m2(a, 0, 0) * m2(b, 0, 0) + m2(a, 0, 1) * m2(b, 1, 0) == 1real
        &&& m2(a, 0, 0) * m2(b, 0, 1) + m2(a, 0, 1) * m2(b, 1, 1) == 0real
        &&& m2(a, 1, 0) * m2(b, 0, 0) + m2(a, 1, 1) * m2(b, 1, 0) == 0real
        &&& m2(a, 1, 0) * m2(b, 0, 1) + m2(a, 1, 1) * m2(b, 1, 1) == 1real
    }
    pub proof fn lemma_inverse_2x2(a: real, b: real, c: real, d: real, det: real)
        requires det == a * d - b * c, det != 0real
        ensures
            a * (d * (1real / det)) + b * (-c * (1real / det)) == 1real,
            a * (-b * (1real / det)) + b * (a * (1real / det)) == 0real,
            c * (d * (1real / det)) + d * (-c * (1real / det)) == 0real,
            c * (-b * (1real / det)) + d * (a * (1real / det)) == 1real,
    {
        let k = 1real / det;
        assert(det * k == 1real) by(nonlinear_arith) requires det != 0real, k == 1real / det;
        assert(a * (d * k) + b * (-c * k) == (a * d - b * c) * k) by(nonlinear_arith);
        assert(a * (-b * k) + b * (a * k) == 0real) by(nonlinear_arith);
        assert(c * (d * k) + d * (-c * k) == 0real) by(nonlinear_arith);
        assert(c * (-b * k) + d * (a * k) == (a * d - b * c) * k) by(nonlinear_arith);
    }
    impl DiffableGaussian2D {
        pub fn new(mean: [T; 2], cov: [[T; 2]; 2]) -> (r: Self)
            requires fin22(cov), det2(cov) > 0real
            ensures
                r.mean == mean && r.cov == cov,
                fin22(r.inv_cov) && is_inverse(cov, r.inv_cov),                                                   // [C15.diffable_inverse_covariance]
                r.logdet_cov == fl(ln_r(det2(cov))),                                                              // [C15.diffable_logdet]
                r.norm_const == fl(-(2real * ln_r(2real * pi_r()) + ln_r(det2(cov))) / 2real),                   // [C15.diffable_norm_const_is_minus_ln_2pi_minus_half_logdet]
        //@body id=diffable_new file=src/distributions.rs impl_self=DiffableGaussian2D name=new props=C15
        //@sig fn new (mean : [T ; 2] , cov : [[T ; 2] ; 2]) -> Self
        //@rules
        //@anchor fin scope=fn pos=before match="^Self \\{"
        //@| proof {
        //@|     ax_pi();
        //@|     lemma_inverse_2x2(m2(cov, 0, 0), m2(cov, 0, 1), m2(cov, 1, 0), m2(cov, 1, 1), det2(cov));
        //@|     assert(2real * pi_r() > 0real);
        //@| }
        //@end
    }
}
} // verus!
fn main() {}
