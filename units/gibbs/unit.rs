//@unit gibbs — src/gibbs.rs: GibbsMarkovChain::step (C05), constructors (C09), set_seed (C07)
#![allow(unused_imports, unused_variables, dead_code, unused_mut, non_snake_case, unused_parens, unused_labels)]
use vstd::prelude::*;
verus! {
//@include prelude/float.rs
//@include prelude/rng.rs

// loops are verified in the context of their function (facts about values bound before a loop need no restating in
// its invariant: hoisting a sub-expression out of a loop must not break the proof)
#[verifier::loop_isolation(false)]
pub mod unit_gibbs {
    use vstd::prelude::*;
    use vstd::std_specs::iter::IteratorSpec;
    use super::fl::*;
    use super::rng::*;
    use super::rng as rand;
    broadcast use super::fl::fl_axioms, super::rng::rng_axioms;

    /// ASSUMED law for user `Clone` impls (derive(Clone) semantics)
    pub trait VClone: Sized {
        fn clone(&self) -> (r: Self) ensures r == *self;
    }
    /// `Conditional<S>`: one call is an arbitrary relation between (conditional before, index, state
    /// passed, conditional after, value returned).  Nothing else is assumed of user code.
    pub trait Conditional<S>: VClone {
        spec fn sample_rel(pre: Self, index: usize, given: Seq<S>, post: Self, ret: S) -> bool;
        fn sample(&mut self, index: usize, given: &[S]) -> (r: S)
            ensures Self::sample_rel(*old(self), index, given@, *final(self), r);
    }
    pub trait MarkovChain<S> { fn step(&mut self) -> &Vec<S>; }

    /// `<[T]>::to_vec` for the Copy scalar types a Gibbs state is made of (T: LinalgScalar): element-wise copy
    pub assume_specification<T: Clone> [<[T]>::to_vec] (s: &[T]) -> (r: Vec<T>)
        ensures r@ == s@;

    pub struct GibbsMarkovChain<S, D> {
        //@fields file=src/gibbs.rs name=GibbsMarkovChain
    }
    pub struct GibbsSampler<S, D> {
        //@fields file=src/gibbs.rs name=GibbsSampler
    }

    // ---- C05: one sweep, written from the statement (order-agnostic: `perm` is the visiting order) ----
    pub open spec fn is_perm(perm: Seq<int>, d: int) -> bool {
        &&& perm.len() == d
        &&& forall |k: int| 0 <= k < d ==> 0 <= #[trigger] perm[k] < d
        &&& forall |k: int, l: int| 0 <= k < l < d ==> perm[k] != perm[l]
    }
    /// ds[k], xs[k]: conditional and chain state before call k; rs[k]: value returned by call k.
    /// Call k asks for coordinate perm[k], is given the *current* state xs[k] (all earlier answers already
    /// written), and its answer is written to that coordinate only.
    pub open spec fn sweep<S, D: Conditional<S>>(d0: D, x0: Seq<S>, d1: D, x1: Seq<S>, ds: Seq<D>, xs: Seq<Seq<S>>, rs: Seq<S>, perm: Seq<int>, k: int) -> bool {
        &&& ds.len() == k + 1 && xs.len() == k + 1 && rs.len() == k
        &&& ds[0] == d0 && xs[0] == x0 && ds[k] == d1 && xs[k] == x1
        &&& forall |i: int| 0 <= i < k ==> #[trigger] D::sample_rel(ds[i], perm[i] as usize, xs[i], ds[i + 1], rs[i])
        &&& forall |i: int| 0 <= i < k ==> #[trigger] xs[i + 1] == xs[i].update(perm[i], rs[i])
    }
    pub open spec fn gibbs_step_post<S, D: Conditional<S>>(pre: GibbsMarkovChain<S, D>, post: GibbsMarkovChain<S, D>) -> bool {
        exists |ds: Seq<D>, xs: Seq<Seq<S>>, rs: Seq<S>, perm: Seq<int>|
            is_perm(perm, pre.current_state@.len() as int)
            && #[trigger] sweep(pre.target, pre.current_state@, post.target, post.current_state@, ds, xs, rs, perm, pre.current_state@.len() as int)
    }

    impl<S, D: Conditional<S>> MarkovChain<S> for GibbsMarkovChain<S, D> {
        fn step(&mut self) -> (ret: &Vec<S>)
            ensures
                gibbs_step_post(*old(self), *final(self)),                        // [C05.sweep_each_coordinate_once_on_freshest_state]
                final(self).current_state@.len() == old(self).current_state@.len(), // [C05.length_kept]
                final(self).seed == old(self).seed && final(self).rng == old(self).rng, // [C05.nothing_else_changes]
                ret@ == final(self).current_state@,                               // [C05.returns_state]
        //@body id=gibbs_step file=src/gibbs.rs impl_self=GibbsMarkovChain impl_trait=MarkovChain name=step props=C05
        //@sig fn step (& mut self) -> & Vec < S >
        //@rules R-foreach
        //@anchor g0 scope=fn pos=start
        //@| let ghost d0 = self.target;
        //@| let ghost x0 = self.current_state@;
        //@| let ghost mut ds: Seq<D> = seq![self.target];
        //@| let ghost mut xs: Seq<Seq<S>> = seq![self.current_state@];
        //@| let ghost mut rs: Seq<S> = seq![];
        //@| let ghost perm: Seq<int> = Seq::new(x0.len(), |i: int| i);
        //@loop 1 iter=it
        //@| invariant
        //@|     it.iter.end == x0.len(),
        //@|     self.current_state@.len() == x0.len(),
        //@|     self.seed == old(self).seed, self.rng == old(self).rng,
        //@|     perm == Seq::new(x0.len(), |i: int| i),
        //@|     sweep(d0, x0, self.target, self.current_state@, ds, xs, rs, perm, i as int),
        //@anchor pre scope=loop:1 pos=start
        //@| let ghost dpre = self.target;
        //@| let ghost xpre = self.current_state@;
        //@anchor post scope=loop:1 pos=end
        //@| proof {
        //@|     rs = rs.push(self.current_state@[i as int]);
        //@|     ds = ds.push(self.target);
        //@|     xs = xs.push(self.current_state@);
        //@|     assert(xs[i as int] == xpre && ds[i as int] == dpre);
        //@|     assert(self.current_state@ == xpre.update(i as int, rs[i as int]));
        //@| }
        //@end
    }

    impl<T, D: Conditional<T>> GibbsMarkovChain<T, D> {
        pub fn new(target: D, initial_state: &[T]) -> (r: Self) where T: Clone
            ensures
                r.current_state@ == initial_state@,    // [C09.gibbs_chain_new_state]
                r.target == target,
        //@body id=gibbs_chain_new file=src/gibbs.rs impl_self=GibbsMarkovChain name=new props=C09
        //@sig fn new (target : D , initial_state : & [T]) -> Self
        //@rules
        //@end
    }

    /// the per-chain seed documented for `set_seed`: seed + i, modulo 2^64
    pub open spec fn gibbs_chain_seed(seed: u64, i: int) -> u64 { ((seed as int + i) % 0x1_0000_0000_0000_0000) as u64 }

    impl<T: Clone, D: Conditional<T>> GibbsSampler<T, D> {
        pub fn new(target: D, initial_states: Vec<Vec<T>>) -> (r: Self)
            ensures
                r.chains@.len() == initial_states@.len(),                                                                       // [C09.gibbs_new_count]
                forall |c: int| 0 <= c < initial_states@.len() ==> (#[trigger] r.chains@[c]).current_state@ == initial_states@[c]@,  // [C09.gibbs_new_row_c_is_state_c]
                forall |c: int| 0 <= c < r.chains@.len() ==> (#[trigger] r.chains@[c]).target == target,
        //@body id=gibbs_new file=src/gibbs.rs impl_self=GibbsSampler name=new props=C09
        //@sig fn new (target : D , initial_states : Vec < Vec < T > >) -> Self
        //@rules R-mapcollect
        //@outtype __vx_out1 Vec<GibbsMarkovChain<T, D>>
        //@anchor snap scope=fn pos=start
        //@| let ghost init0 = initial_states@;
        //@loop 1 iter=it
        //@| invariant
        //@|     it.history@ + it.iter.remaining() == init0,
        //@|     __vx_out1@.len() == it.history@.len(),
        //@|     forall |c: int| 0 <= c < __vx_out1@.len() ==> (#[trigger] __vx_out1@[c]).current_state@ == init0[c]@ && __vx_out1@[c].target == target,
        //@end

        pub fn set_seed(self, seed: u64) -> (r: Self)
            ensures
                r.seed == seed,
                r.chains@.len() == self.chains@.len(),
                forall |i: int| 0 <= i < r.chains@.len() ==> state((#[trigger] r.chains@[i]).rng) == seeded(gibbs_chain_seed(seed, i))
                    && r.chains@[i].seed == gibbs_chain_seed(seed, i),                                                         // [C07.gibbs_per_chain_seed]
                forall |i: int| 0 <= i < r.chains@.len() ==> (#[trigger] r.chains@[i]).current_state == self.chains@[i].current_state
                    && r.chains@[i].target == self.chains@[i].target,                                                          // [C07.gibbs_seed_frame]
                r.target == self.target,
        //@body id=gibbs_set_seed file=src/gibbs.rs impl_self=GibbsSampler name=set_seed props=C07
        //@sig fn set_seed (mut self , seed : u64) -> Self
        //@rules R-mutself R-enum
        //@loop 1 iter=it
        //@| invariant
        //@|     it.iter.end == self.chains@.len(),
        //@|     __vx_self.chains@.len() == self.chains@.len(),
        //@|     __vx_self.target == self.target, __vx_self.seed == seed,
        //@|     forall |k: int| 0 <= k < i ==> state((#[trigger] __vx_self.chains@[k]).rng) == seeded(gibbs_chain_seed(seed, k)) && __vx_self.chains@[k].seed == gibbs_chain_seed(seed, k),
        //@|     forall |k: int| 0 <= k < self.chains@.len() ==> (#[trigger] __vx_self.chains@[k]).current_state == self.chains@[k].current_state
        //@|         && __vx_self.chains@[k].target == self.chains@[k].target,
        //@end
    }

    // ---- lemma: the invariance corollary on finite state spaces (reals) ------------------------------------------
    // One coordinate update with the exact full conditional has the kernel K(x -> y) = [x_-i == y_-i] pi(y_i | x_-i), with
    // pi(b | x_-i) = pi(x_-i, b) / sum_a pi(x_-i, a).  Writing w(a) = pi(y_-i, a):  (pi K)(y) = sum_a w(a) * (w(y_i) / S) = w(y_i) = pi(y).
    // A sweep is a composition of such updates (gibbs_step_post: every coordinate once, each on the freshest state), so it
    // preserves pi as well.  That the user's Conditional *is* the full conditional is the user's obligation.
    pub open spec fn wsum(w: spec_fn(int) -> real, k: int) -> real decreases k {
        if k <= 0 { 0real } else { wsum(w, k - 1) + w(k - 1) }
    }
    pub proof fn lemma_wsum_scale(w: spec_fn(int) -> real, g: spec_fn(int) -> real, c: real, k: int)
        requires forall |a: int| 0 <= a < k ==> #[trigger] g(a) == w(a) * c
        ensures wsum(g, k) == wsum(w, k) * c
        decreases k
    {
        if k > 0 {
            lemma_wsum_scale(w, g, c, k - 1);
            assert(g(k - 1) == w(k - 1) * c);
            assert(wsum(w, k - 1) * c + w(k - 1) * c == (wsum(w, k - 1) + w(k - 1)) * c) by(nonlinear_arith);
        } else {
            assert(0real * c == 0real) by(nonlinear_arith);
        }
    }
    /// the mass arriving at a state y under one coordinate update with the full conditional equals the mass of y
    pub proof fn lemma_full_conditional_update_preserves_joint(w: spec_fn(int) -> real, g: spec_fn(int) -> real, k: int, b: int)
        requires 0 <= b < k, wsum(w, k) > 0real,
            forall |a: int| 0 <= a < k ==> #[trigger] g(a) == w(a) * (w(b) / wsum(w, k)),
        ensures wsum(g, k) == w(b)      // [C05.full_conditional_update_leaves_the_joint_invariant]
    {
        let s = wsum(w, k);
        lemma_wsum_scale(w, g, w(b) / s, k);
        assert(s * (w(b) / s) == w(b)) by(nonlinear_arith) requires s > 0real;
    }
}
} // verus!
fn main() {}
