//@unit stats — src/stats.rs: splitcat, withinvar, rhat, split_rhat_mean_ess, basic_stats (C11)
#![allow(unused_imports, unused_variables, dead_code, unused_mut, non_snake_case, unused_parens, unused_labels)]
use vstd::prelude::*;
verus! {
//@include prelude/float.rs
//@include prelude/ndarray.rs
//@include prelude/ndfloat.rs
//@include prelude/ndtrack.rs

// loops are verified in the context of their function (facts about values bound before a loop need no restating in
// its invariant: hoisting a sub-expression out of a loop must not break the proof)
#[verifier::loop_isolation(false)]
pub mod unit_stats {
    use vstd::prelude::*;
    use vstd::std_specs::iter::IteratorSpec;
    use core::cmp::Ordering;
    use super::fl::*;
    use super::nd::*;
    use super::ndf::*;
    use super::ndt::{ToPrimitive, vdim3};
    broadcast use super::fl::fl_axioms, super::ndf::ndf_axioms, super::ndf::ax_mk_a1;

    // ---- C11: split R-hat written from the statement ---------------------------------------
    /// the draws of parameter p: one row per (half-)chain
    pub open spec fn col(x: Seq<Seq<Seq<Fl>>>, p: int) -> Seq<Seq<Fl>> {
        Seq::new(x.len(), |m: int| Seq::new(x[m].len(), |t: int| x[m][t][p]))
    }
    /// per-chain means
    pub open spec fn means(h: Seq<Seq<Fl>>) -> Seq<Fl> { Seq::new(h.len(), |m: int| fl(rmean(h[m]))) }
    /// per-chain variances with divisor n - ddof
    pub open spec fn variances(h: Seq<Seq<Fl>>, n: int, ddof: int) -> Seq<Fl> {
        Seq::new(h.len(), |m: int| fl(rssd(h[m], rmean(h[m]), n) / ((n - ddof) as real)))
    }
    /// W: mean within-chain variance
    pub open spec fn within_w(h: Seq<Seq<Fl>>, n: int, ddof: int) -> real { rmean(variances(h, n, ddof)) }
    /// B/n: variance of the chain means (divisor M - 1)
    pub open spec fn between_over_n(h: Seq<Seq<Fl>>) -> real {
        rssd(means(h), rmean(means(h)), h.len() as int) / ((h.len() - 1) as real)
    }
    /// var+ = (n-1)/n W + B/n
    pub open spec fn var_plus(h: Seq<Seq<Fl>>, n: int, ddof: int) -> real {
        ((n - 1) as real / (n as real)) * within_w(h, n, ddof) + between_over_n(h)
    }
    /// the two halves of every chain: first floor(n/2) and last floor(n/2) draws
    pub open spec fn split_halves(x: Seq<Seq<Seq<Fl>>>, n: int) -> Seq<Seq<Seq<Fl>>> {
        let half = n / 2;
        Seq::new(2 * x.len(), |m: int| if m < x.len() { x[m].subrange(0, half) } else { x[m - x.len()].subrange(n - half, n) })
    }

    /// h is x split: chain m < c holds the first floor(n/2) draws of chain m, chain c + m the last floor(n/2)
    pub open spec fn halves_of(h: Seq<Seq<Seq<Fl>>>, x: Seq<Seq<Seq<Fl>>>, c: int, n: int) -> bool {
        &&& h.len() == 2 * c
        &&& forall |m: int, t: int| 0 <= m < 2 * c && 0 <= t < n / 2 ==>
                (#[trigger] h[m][t]) == (if m < c { x[m][t] } else { x[m - c][n - n / 2 + t] })
    }

    pub proof fn lemma_rsum_pow2_is_rssd(d: Seq<Fl>, sq: Seq<Fl>, xs: Seq<Fl>, m: real, k: int)
        requires 0 <= k <= xs.len(), d.len() == xs.len(), sq.len() == xs.len(), fin1(xs),
            forall |i: int| 0 <= i < xs.len() ==> #[trigger] d[i] == fl(rv(xs[i]) - m),
            forall |i: int| 0 <= i < xs.len() ==> #[trigger] sq[i] == fl(rv(d[i]) * rv(d[i])),
        ensures rsum(sq, k) == rssd(xs, m, k)
        decreases k
    {
        broadcast use ax_val_mk;
        if k > 0 {
            lemma_rsum_pow2_is_rssd(d, sq, xs, m, k - 1);
            assert(rv(sq[k - 1]) == rv(d[k - 1]) * rv(d[k - 1]));
            assert(rv(d[k - 1]) == rv(xs[k - 1]) - m);
        }
    }

    // ---- C11 corollaries of the formula (real arithmetic) ------------------------------------------------
    pub proof fn lemma_rssd_nonneg(s: Seq<Fl>, m: real, k: int)
        ensures rssd(s, m, k) >= 0real
        decreases k
    {
        if k > 0 {
            lemma_rssd_nonneg(s, m, k - 1);
            let d = rv(s[k - 1]) - m;
            assert(d * d >= 0real) by(nonlinear_arith);
        }
    }
    /// sqrt is monotone on the non-negative reals (from sqrt(x)^2 = x, sqrt(x) >= 0)
    pub proof fn lemma_sqrt_mono(a: real, b: real)
        requires 0real <= a <= b
        ensures sqrt_r(a) <= sqrt_r(b)
    {
        broadcast use ax_sqrt;
        let (x, y) = (sqrt_r(a), sqrt_r(b));
        if x > y { assert(x * x > y * y) by(nonlinear_arith) requires x > y, y >= 0real; }
    }
    /// split R-hat is never below sqrt((n-1)/n): var+/W = (n-1)/n + (B/n)/W with B >= 0
    pub proof fn lemma_rhat_lower_bound(h: Seq<Seq<Fl>>, n: int)
        requires n >= 1, h.len() >= 2, within_w(h, n, 0) > 0real
        ensures var_plus(h, n, 0) / within_w(h, n, 0) >= (n - 1) as real / (n as real),
            sqrt_r(var_plus(h, n, 0) / within_w(h, n, 0)) >= sqrt_r((n - 1) as real / (n as real))      // [C11.rhat_never_below_sqrt_n_minus_1_over_n]
    {
        let w = within_w(h, n, 0);
        let b = between_over_n(h);
        lemma_rssd_nonneg(means(h), rmean(means(h)), h.len() as int);
        assert(b >= 0real) by(nonlinear_arith) requires b == rssd(means(h), rmean(means(h)), h.len() as int) / ((h.len() - 1) as real), rssd(means(h), rmean(means(h)), h.len() as int) >= 0real, h.len() >= 2;
        let c = (n - 1) as real / (n as real);
        assert(c >= 0real) by(nonlinear_arith) requires c == (n - 1) as real / (n as real), n >= 1;
        assert((c * w + b) / w >= c) by(nonlinear_arith) requires w > 0real, b >= 0real;
        lemma_sqrt_mono(c, var_plus(h, n, 0) / w);
    }
    /// the R-hat of parameter q depends on the draws of parameter q only
    pub proof fn lemma_rhat_ignores_other_parameters(x: Seq<Seq<Seq<Fl>>>, y: Seq<Seq<Seq<Fl>>>, n: int, q: int)
        requires col(x, q) =~~= col(y, q)
        ensures wv(x, n, q) == wv(y, n, q)      // [C11.rhat_unchanged_by_the_values_of_other_parameters]
    {
    }
    /// sums under an affine map t_i = a s_i + b
    pub proof fn lemma_rsum_affine(s: Seq<Fl>, t: Seq<Fl>, a: real, b: real, k: int)
        requires k >= 0, forall |i: int| 0 <= i < k ==> rv(#[trigger] t[i]) == a * rv(s[i]) + b
        ensures rsum(t, k) == a * rsum(s, k) + b * (k as real)
        decreases k
    {
        if k > 0 {
            lemma_rsum_affine(s, t, a, b, k - 1);
            assert(rv(t[k - 1]) == a * rv(s[k - 1]) + b);
            assert(a * rsum(s, k - 1) + b * ((k - 1) as real) + (a * rv(s[k - 1]) + b) == a * (rsum(s, k - 1) + rv(s[k - 1])) + b * (k as real)) by(nonlinear_arith);
        } else {
            assert(a * 0real + b * 0real == 0real) by(nonlinear_arith);
        }
    }
    pub proof fn lemma_rssd_affine(s: Seq<Fl>, t: Seq<Fl>, a: real, b: real, m: real, k: int)
        requires k >= 0, forall |i: int| 0 <= i < k ==> rv(#[trigger] t[i]) == a * rv(s[i]) + b
        ensures rssd(t, a * m + b, k) == a * a * rssd(s, m, k)
        decreases k
    {
        if k > 0 {
            lemma_rssd_affine(s, t, a, b, m, k - 1);
            let (x, y) = (rv(s[k - 1]), rv(t[k - 1]));
            assert(y == a * x + b);
            assert((y - (a * m + b)) * (y - (a * m + b)) == a * a * ((x - m) * (x - m))) by(nonlinear_arith) requires y == a * x + b;
            assert(a * a * rssd(s, m, k - 1) + a * a * ((x - m) * (x - m)) == a * a * (rssd(s, m, k - 1) + (x - m) * (x - m))) by(nonlinear_arith);
        } else {
            assert(a * a * 0real == 0real) by(nonlinear_arith);
        }
    }
    /// g is the image of h under x -> a x + b (every half-chain has n draws)
    pub open spec fn affine_image(h: Seq<Seq<Fl>>, g: Seq<Seq<Fl>>, n: int, a: real, b: real) -> bool {
        &&& g.len() == h.len()
        &&& forall |m: int| 0 <= m < h.len() ==> (#[trigger] h[m]).len() == n && g[m].len() == n
        &&& forall |m: int, t: int| 0 <= m < h.len() && 0 <= t < n ==> rv(#[trigger] g[m][t]) == a * rv(h[m][t]) + b
    }
    /// W and var+ scale by a^2 under x -> a x + b, so split R-hat = sqrt(var+/W) is unchanged (a != 0)
    pub proof fn lemma_rhat_affine_invariant(h: Seq<Seq<Fl>>, g: Seq<Seq<Fl>>, n: int, a: real, b: real)
        requires n >= 1, h.len() >= 2, affine_image(h, g, n, a, b), a != 0real, within_w(h, n, 0) != 0real
        ensures within_w(g, n, 0) == a * a * within_w(h, n, 0), var_plus(g, n, 0) == a * a * var_plus(h, n, 0),
            var_plus(g, n, 0) / within_w(g, n, 0) == var_plus(h, n, 0) / within_w(h, n, 0)      // [C11.rhat_unchanged_by_affine_rescaling]
    {
        broadcast use ax_val_mk;
        let mm = h.len() as int;
        let nr = n as real;
        // per half-chain: mean and variance
        assert forall |m: int| 0 <= m < mm implies rmean(#[trigger] g[m]) == a * rmean(h[m]) + b
            && rssd(g[m], rmean(g[m]), n) == a * a * rssd(h[m], rmean(h[m]), n) by {
            lemma_rsum_affine(h[m], g[m], a, b, n);
            let sh = rsum(h[m], n);
            assert((a * sh + b * nr) / nr == a * (sh / nr) + b) by(nonlinear_arith) requires nr >= 1real;
            lemma_rssd_affine(h[m], g[m], a, b, rmean(h[m]), n);
        }
        // W
        let (vh, vg) = (variances(h, n, 0), variances(g, n, 0));
        assert forall |m: int| 0 <= m < mm implies rv(#[trigger] vg[m]) == (a * a) * rv(vh[m]) + 0real by {
            assert(rmean(g[m]) == a * rmean(h[m]) + b);
            let q = rssd(h[m], rmean(h[m]), n);
            assert((a * a * q) / nr == (a * a) * (q / nr)) by(nonlinear_arith) requires nr >= 1real;
        }
        lemma_rsum_affine(vh, vg, a * a, 0real, mm);
        let mr = mm as real;
        assert(((a * a) * rsum(vh, mm) + 0real * mr) / mr == a * a * (rsum(vh, mm) / mr)) by(nonlinear_arith) requires mr >= 2real;
        assert(within_w(g, n, 0) == a * a * within_w(h, n, 0));
        // B/n
        let (uh, ug) = (means(h), means(g));
        assert forall |m: int| 0 <= m < mm implies rv(#[trigger] ug[m]) == a * rv(uh[m]) + b by { assert(rmean(g[m]) == a * rmean(h[m]) + b); }
        lemma_rsum_affine(uh, ug, a, b, mm);
        let su = rsum(uh, mm);
        assert((a * su + b * mr) / mr == a * (su / mr) + b) by(nonlinear_arith) requires mr >= 2real;
        lemma_rssd_affine(uh, ug, a, b, rmean(uh), mm);
        let bh = rssd(uh, rmean(uh), mm);
        let d = (mm - 1) as real;
        assert((a * a * bh) / d == a * a * (bh / d)) by(nonlinear_arith) requires d >= 1real;
        assert(between_over_n(g) == a * a * between_over_n(h));
        // var+ and the ratio
        let c = (n - 1) as real / nr;
        let (w, bo) = (within_w(h, n, 0), between_over_n(h));
        assert(c * (a * a * w) + a * a * bo == a * a * (c * w + bo)) by(nonlinear_arith);
        let vp = var_plus(h, n, 0);
        assert(a * a != 0real) by(nonlinear_arith) requires a != 0real;
        assert((a * a * vp) / (a * a * w) == vp / w) by(nonlinear_arith) requires a * a != 0real, w != 0real;
    }

    // ---- C11 corollary: moving one chain away (real arithmetic) --------------------------------------------
    /// sum of squares of the first k entries
    pub open spec fn rsq(s: Seq<Fl>, k: int) -> real decreases k {
        if k <= 0 { 0real } else { rsq(s, k - 1) + rv(s[k - 1]) * rv(s[k - 1]) }
    }
    /// sum (s_j - c)^2 = sum s_j^2 - 2 c sum s_j + k c^2
    pub proof fn lemma_rssd_expand(s: Seq<Fl>, c: real, k: int)
        requires k >= 0
        ensures rssd(s, c, k) == rsq(s, k) - 2real * c * rsum(s, k) + (k as real) * c * c
        decreases k
    {
        if k > 0 {
            lemma_rssd_expand(s, c, k - 1);
            let x = rv(s[k - 1]);
            let (q, t, kr) = (rsq(s, k - 1), rsum(s, k - 1), (k - 1) as real);
            assert((q - 2real * c * t + kr * c * c) + (x - c) * (x - c) == (q + x * x) - 2real * c * (t + x) + (kr + 1real) * c * c) by(nonlinear_arith);
        } else {
            assert(0real - 2real * c * 0real + 0real * c * c == 0real) by(nonlinear_arith);
        }
    }
    /// t is s with entry i increased by dlt (values compared as reals)
    pub open spec fn bumped(s: Seq<Fl>, t: Seq<Fl>, i: int, dlt: real) -> bool {
        &&& 0 <= i < s.len() && t.len() == s.len() && rv(t[i]) == rv(s[i]) + dlt
        &&& forall |k: int| 0 <= k < s.len() && k != i ==> rv(#[trigger] t[k]) == rv(s[k])
    }
    pub proof fn lemma_sums_bump(s: Seq<Fl>, t: Seq<Fl>, i: int, dlt: real, k: int)
        requires bumped(s, t, i, dlt), 0 <= k <= s.len()
        ensures
            k <= i ==> rsum(t, k) == rsum(s, k) && rsq(t, k) == rsq(s, k),
            k > i ==> rsum(t, k) == rsum(s, k) + dlt && rsq(t, k) == rsq(s, k) + 2real * dlt * rv(s[i]) + dlt * dlt,
        decreases k
    {
        if k > 0 {
            lemma_sums_bump(s, t, i, dlt, k - 1);
            if k - 1 != i { assert(rv(t[k - 1]) == rv(s[k - 1])); }
            else {
                let x = rv(s[i]);
                assert((x + dlt) * (x + dlt) == x * x + 2real * dlt * x + dlt * dlt) by(nonlinear_arith);
            }
        }
    }
    /// g is h with every draw of half-chain i moved by dlt (every half-chain has n draws)
    pub open spec fn chain_moved(h: Seq<Seq<Fl>>, g: Seq<Seq<Fl>>, n: int, i: int, dlt: real) -> bool {
        &&& 0 <= i < h.len() && g.len() == h.len()
        &&& forall |m: int| 0 <= m < h.len() ==> (#[trigger] h[m]).len() == n && g[m].len() == n
        &&& forall |m: int, t: int| 0 <= m < h.len() && 0 <= t < n ==> rv(#[trigger] g[m][t]) == rv(h[m][t]) + (if m == i { dlt } else { 0real })
    }
    /// Moving one of M >= 2 half-chains by dlt leaves W unchanged and changes B/n by (2 dlt (u_i - u_bar)) / (M - 1) + dlt^2 / M:
    /// quadratic in the displacement with leading coefficient 1/M > 0, hence var+/W (and split R-hat) grows without bound as
    /// the chain is moved away; moving it further from the grand mean (dlt (u_i - u_bar) >= 0) never decreases it
    pub proof fn lemma_rhat_grows_as_a_chain_is_moved_away(h: Seq<Seq<Fl>>, g: Seq<Seq<Fl>>, n: int, i: int, dlt: real)
        requires n >= 1, h.len() >= 2, chain_moved(h, g, n, i, dlt)
        ensures
            within_w(g, n, 0) == within_w(h, n, 0),
            between_over_n(g) == between_over_n(h) + (2real * dlt * (rmean(h[i]) - rmean(means(h)))) / ((h.len() - 1) as real) + dlt * dlt / (h.len() as real),   // [C11.rhat_grows_quadratically_as_a_chain_is_moved_away]
            dlt * (rmean(h[i]) - rmean(means(h))) >= 0real ==> var_plus(g, n, 0) >= var_plus(h, n, 0) + dlt * dlt / (h.len() as real),
    {
        broadcast use ax_val_mk;
        let mm = h.len() as int;
        let (nr, mr) = (n as real, mm as real);
        // per half-chain: the mean moves with the chain, the sum of squared deviations does not change
        assert forall |m: int| 0 <= m < mm implies rmean(#[trigger] g[m]) == rmean(h[m]) + (if m == i { dlt } else { 0real })
            && rssd(g[m], rmean(g[m]), n) == rssd(h[m], rmean(h[m]), n) by {
            let b = if m == i { dlt } else { 0real };
            assert forall |t: int| 0 <= t < n implies rv(#[trigger] g[m][t]) == 1real * rv(h[m][t]) + b by {}
            lemma_rsum_affine(h[m], g[m], 1real, b, n);
            let sh = rsum(h[m], n);
            assert((1real * sh + b * nr) / nr == sh / nr + b) by(nonlinear_arith) requires nr >= 1real;
            lemma_rssd_affine(h[m], g[m], 1real, b, rmean(h[m]), n);
            assert(1real * rmean(h[m]) + b == rmean(h[m]) + b);
            assert(1real * 1real * rssd(h[m], rmean(h[m]), n) == rssd(h[m], rmean(h[m]), n)) by(nonlinear_arith);
        }
        // W
        let (vh, vg) = (variances(h, n, 0), variances(g, n, 0));
        assert forall |m: int| 0 <= m < mm implies rv(#[trigger] vg[m]) == 1real * rv(vh[m]) + 0real by {
            assert(rssd(g[m], rmean(g[m]), n) == rssd(h[m], rmean(h[m]), n));
        }
        lemma_rsum_affine(vh, vg, 1real, 0real, mm);
        assert(1real * rsum(vh, mm) + 0real * mr == rsum(vh, mm)) by(nonlinear_arith);
        assert(within_w(g, n, 0) == within_w(h, n, 0));
        // B/n through  sum (u_k - u_bar)^2 = Q - S^2 / M
        let (uh, ug) = (means(h), means(g));
        assert(bumped(uh, ug, i, dlt)) by {
            assert(rmean(g[i]) == rmean(h[i]) + dlt);
            assert forall |k: int| 0 <= k < mm && k != i implies rv(#[trigger] ug[k]) == rv(uh[k]) by { assert(rmean(g[k]) == rmean(h[k]) + 0real); }
        }
        lemma_sums_bump(uh, ug, i, dlt, mm);
        let (q, su, ui) = (rsq(uh, mm), rsum(uh, mm), rv(uh[i]));
        assert(ui == rmean(h[i]));
        let (q2, su2) = (rsq(ug, mm), rsum(ug, mm));
        assert(su2 == su + dlt && q2 == q + 2real * dlt * ui + dlt * dlt);
        let (cb, cb2) = (su / mr, su2 / mr);
        lemma_rssd_expand(uh, cb, mm);
        lemma_rssd_expand(ug, cb2, mm);
        let (ss, ss2) = (rssd(uh, cb, mm), rssd(ug, cb2, mm));
        assert(ss == q - su * su / mr) by(nonlinear_arith) requires ss == q - 2real * cb * su + mr * cb * cb, cb == su / mr, mr >= 2real;
        assert(ss2 == q2 - su2 * su2 / mr) by(nonlinear_arith) requires ss2 == q2 - 2real * cb2 * su2 + mr * cb2 * cb2, cb2 == su2 / mr, mr >= 2real;
        assert(ss2 == ss + 2real * dlt * (ui - cb) + dlt * dlt * (mr - 1real) / mr) by(nonlinear_arith)
            requires ss == q - su * su / mr, ss2 == q2 - su2 * su2 / mr, su2 == su + dlt, q2 == q + 2real * dlt * ui + dlt * dlt, cb == su / mr, mr >= 2real;
        let d = (mm - 1) as real;
        assert(d == mr - 1real);
        assert(ss2 / d == ss / d + (2real * dlt * (ui - cb)) / d + dlt * dlt / mr) by(nonlinear_arith)
            requires ss2 == ss + 2real * dlt * (ui - cb) + dlt * dlt * (mr - 1real) / mr, d == mr - 1real, mr >= 2real;
        assert(between_over_n(g) == ss2 / d && between_over_n(h) == ss / d);
        if dlt * (ui - cb) >= 0real {
            assert((2real * dlt * (ui - cb)) / d >= 0real) by(nonlinear_arith) requires dlt * (ui - cb) >= 0real, d >= 1real;
        }
    }

    /// t is s with the entries at positions i < j exchanged (values compared as reals)
    pub open spec fn swapped(s: Seq<Fl>, t: Seq<Fl>, i: int, j: int) -> bool {
        &&& 0 <= i < j < s.len() && t.len() == s.len()
        &&& rv(t[i]) == rv(s[j]) && rv(t[j]) == rv(s[i])
        &&& forall |k: int| 0 <= k < s.len() && k != i && k != j ==> rv(#[trigger] t[k]) == rv(s[k])
    }
    pub proof fn lemma_sums_swap(s: Seq<Fl>, t: Seq<Fl>, i: int, j: int, m: real, k: int)
        requires swapped(s, t, i, j), 0 <= k <= s.len()
        ensures
            k <= i ==> rsum(t, k) == rsum(s, k) && rssd(t, m, k) == rssd(s, m, k),
            i < k <= j ==> rsum(t, k) == rsum(s, k) - rv(s[i]) + rv(s[j])
                && rssd(t, m, k) == rssd(s, m, k) - (rv(s[i]) - m) * (rv(s[i]) - m) + (rv(s[j]) - m) * (rv(s[j]) - m),
            k > j ==> rsum(t, k) == rsum(s, k) && rssd(t, m, k) == rssd(s, m, k),
        decreases k
    {
        if k > 0 {
            lemma_sums_swap(s, t, i, j, m, k - 1);
            if k - 1 != i && k - 1 != j { assert(rv(t[k - 1]) == rv(s[k - 1])); }
        }
    }
    /// g is h with the half-chains i < j exchanged
    pub open spec fn chains_swapped(h: Seq<Seq<Fl>>, g: Seq<Seq<Fl>>, i: int, j: int) -> bool {
        &&& 0 <= i < j < h.len() && g.len() == h.len() && g[i] == h[j] && g[j] == h[i]
        &&& forall |k: int| 0 <= k < h.len() && k != i && k != j ==> (#[trigger] g[k]) == h[k]
    }
    /// exchanging two chains changes neither W nor var+ (transpositions generate every permutation of the chains)
    pub proof fn lemma_rhat_chain_swap_invariant(h: Seq<Seq<Fl>>, g: Seq<Seq<Fl>>, n: int, i: int, j: int)
        requires chains_swapped(h, g, i, j)
        ensures within_w(g, n, 0) == within_w(h, n, 0), var_plus(g, n, 0) == var_plus(h, n, 0)      // [C11.rhat_unchanged_by_permuting_chains]
    {
        broadcast use ax_val_mk;
        let mm = h.len() as int;
        let (vh, vg) = (variances(h, n, 0), variances(g, n, 0));
        assert(swapped(vh, vg, i, j)) by {
            assert forall |k: int| 0 <= k < mm && k != i && k != j implies rv(#[trigger] vg[k]) == rv(vh[k]) by { assert(g[k] == h[k]); }
        }
        lemma_sums_swap(vh, vg, i, j, 0real, mm);
        let (uh, ug) = (means(h), means(g));
        assert(swapped(uh, ug, i, j)) by {
            assert forall |k: int| 0 <= k < mm && k != i && k != j implies rv(#[trigger] ug[k]) == rv(uh[k]) by { assert(g[k] == h[k]); }
        }
        lemma_sums_swap(uh, ug, i, j, rmean(uh), mm);
        assert(rmean(ug) == rmean(uh));
    }

    fn splitcat(sample: ArrayView3<Fl>) -> (r: Array3<Fl>)
        requires 2 <= dim3(sample).1, dim3(sample).1 / 2 <= i32::MAX
        ensures
            odim3(r) == (2 * dim3(sample).0, dim3(sample).1 / 2, dim3(sample).2),                  // [C11.splitcat_shape]
            halves_of(a3(r), v3(sample), dim3(sample).0, dim3(sample).1),                          // [C11.splitcat_halves]
    //@body id=splitcat file=src/stats.rs name=splitcat props=C11,C12
    //@sig fn splitcat (sample : ArrayView3 < f32 >) -> Array3 < f32 >
    //@rules R-f64 R-smacro
    //@end

    /// (W_q, var+_q) of parameter q for the (already split) sample x with n draws per half-chain; ddof 0
    pub open spec fn wv(x: Seq<Seq<Seq<Fl>>>, n: int, q: int) -> (Fl, Fl) {
        (fl(within_w(col(x, q), n, 0)), fl(var_plus(col(x, q), n, 0)))
    }
    pub proof fn lemma_var_plus_algebra(s: real, w: real, n: real, cm1: real)
        requires n != 0real, cm1 != 0real
        ensures ((n - 1real) / n) * w + (s * (n / cm1)) / n == ((n - 1real) / n) * w + s / cm1
    {
        assert((s * (n / cm1)) / n == s / cm1) by(nonlinear_arith) requires n != 0real, cm1 != 0real;
    }

    fn withinvar(sample: ArrayView3<Fl>) -> (r: (Array1<Fl>, Array1<Fl>))
        requires fin3(v3(sample)), dim3(sample).0 >= 2, dim3(sample).1 >= 1
        ensures
            a1(r.0).len() == dim3(sample).2 && a1(r.1).len() == dim3(sample).2,                                   // [C11.withinvar_len]
            forall |q: int| 0 <= q < dim3(sample).2 ==> (#[trigger] a1(r.0)[q]) == wv(v3(sample), dim3(sample).1, q).0,   // [C11.within_is_mean_half_chain_variance]
            forall |q: int| 0 <= q < dim3(sample).2 ==> (#[trigger] a1(r.1)[q]) == wv(v3(sample), dim3(sample).1, q).1,   // [C11.var_plus_formula]
    //@body id=withinvar file=src/stats.rs name=withinvar props=C11
    //@sig fn withinvar (sample : ArrayView3 < f32 >) -> (Array1 < f32 > , Array1 < f32 >)
    //@rules R-f64 R-smacro R-par R-mapcollect R-fold R-mapsum R-cast R-lit R-index R-binop
    //@index chain_means:nd_index_a1 row:nd_index_v1
    //@binop chain_means-:nd_sub_scalar
    //@outtype squares Vec<Fl>
    //@anchor g0 scope=fn pos=after match="^let p ="
    //@| let ghost x = v3(sample);
    //@| proof { assert(rect3(x, c as int, n as int, p as int)); }
    //@loop 1 iter=it1
    //@| invariant
    //@|     c == dim3(sample).0, n == dim3(sample).1, p == dim3(sample).2, x == v3(sample),
    //@|     it1.history@ + it1.iter.remaining() == it1.snapshot@.remaining(),
    //@|     it1.snapshot@.remaining().len() == p,
    //@|     forall |q: int| 0 <= q < p ==> (#[trigger] it1.snapshot@.remaining()[q]) == wv(x, n as int, q),
    //@|     __vx_acc1.0@.len() == it1.history@.len() && __vx_acc1.1@.len() == it1.history@.len(),
    //@|     forall |q: int| 0 <= q < it1.history@.len() ==> (#[trigger] __vx_acc1.0@[q]) == wv(x, n as int, q).0,
    //@|     forall |q: int| 0 <= q < it1.history@.len() ==> (#[trigger] __vx_acc1.1@[q]) == wv(x, n as int, q).1,
    //@loop 2 iter=it2
    //@| invariant
    //@|     it2.iter.end == p, c == dim3(sample).0, n == dim3(sample).1, p == dim3(sample).2, x == v3(sample),
    //@|     fin3(x), c >= 2, n >= 1, rect3(x, c as int, n as int, p as int),
    //@|     __vx_out1@.len() == param_idx,
    //@|     forall |q: int| 0 <= q < param_idx ==> (#[trigger] __vx_out1@[q]) == wv(x, n as int, q),
    //@anchor h0 scope=loop:2 pos=after match="^let data_p ="
    //@| let ghost h = col(x, param_idx as int);
    //@| proof {
    //@|     assert(v2(data_p) =~~= h);
    //@|     assert(fin2(h));
    //@| }
    //@anchor h1 scope=loop:2 pos=after match="^let chain_means ="
    //@| proof { assert(a1(chain_means) =~= means(h)); assert(fin1(means(h))); }
    //@anchor h2 scope=loop:2 pos=after match="^let diff ="
    //@| let ghost grand = rmean(means(h));
    //@| proof { assert(forall |i: int| 0 <= i < c ==> #[trigger] a1(diff)[i] == fl(rv(means(h)[i]) - grand)); }
    //@anchor h3 scope=loop:2 pos=after match="^let b ="
    //@| let ghost ssd = rssd(means(h), grand, c as int);
    //@| proof {
    //@|     let sq = pow2_spec(a1(diff));
    //@|     assert(forall |i: int| 0 <= i < c ==> #[trigger] sq[i] == fl(rv(a1(diff)[i]) * rv(a1(diff)[i])));
    //@|     assert(fin1(sq));
    //@|     lemma_rsum_pow2_is_rssd(a1(diff), sq, means(h), grand, c as int);
    //@|     assert(b == fl(ssd * (n as real / ((c - 1) as real))));
    //@| }
    //@loop 3 iter=it3
    //@| invariant
    //@|     it3.iter.end == c, c == h.len(), n >= 1, fin2(h), rect2(h, c as int, n as int), v2(data_p) == h, a1(chain_means) == means(h),
    //@|     squares@.len() == chain_i,
    //@|     forall |i: int| 0 <= i < chain_i ==> (#[trigger] squares@[i]) == variances(h, n as int, 0)[i],
    //@loop 4 iter=it4
    //@| invariant
    //@|     it4.iter.end == v1(row).len(), v1(row) == h[chain_i as int], fin1(v1(row)), val(cm) is Fin,
    //@|     __vx_sum1 == fl(rssd(v1(row), rv(cm), __vx_k1 as int)),
    //@anchor h4 scope=loop:2 pos=after match="^let squares = Array1"
    //@| proof { assert(a1(squares) =~= variances(h, n as int, 0)); assert(fin1(a1(squares))); }
    //@anchor h5 scope=loop:2 pos=after match="^let v = \(\("
    //@| proof {
    //@|     lemma_var_plus_algebra(ssd, within_w(h, n as int, 0), n as real, (c - 1) as real);
    //@|     assert(w == fl(within_w(h, n as int, 0)));
    //@|     assert(v == fl(var_plus(h, n as int, 0)));
    //@| }
    //@end

    fn rhat(within: ArrayView1<Fl>, var: ArrayView1<Fl>) -> (r: Array1<Fl>)
        requires v1(within).len() == v1(var).len()
        ensures
            a1(r).len() == v1(within).len(),
            forall |p: int| 0 <= p < v1(within).len() ==> (#[trigger] a1(r)[p]) == mk(xr_sqrt(val(fl_div(v1(var)[p], v1(within)[p])))),   // [C11.rhat_formula]
    //@body id=rhat file=src/stats.rs name=rhat props=C11
    //@sig fn rhat (within : ArrayView1 < f32 > , var : ArrayView1 < f32 >) -> Array1 < f32 >
    //@rules R-f64
    //@end

    /// ASSUMED until the ESS unit replaces it: `ess` is total on well-shaped input (its formula is C12's business)
    #[verifier::external_body]
    fn ess(sample: ArrayView3<Fl>, within: ArrayView1<Fl>, var: ArrayView1<Fl>) -> (r: Array1<Fl>)
        requires v1(within).len() == dim3(sample).2, v1(var).len() == dim3(sample).2
        ensures a1(r).len() == dim3(sample).2
    { unimplemented!() }

    /// split R-hat of parameter q computed from the half-chains h (n_h draws each)
    pub open spec fn rhat_of(h: Seq<Seq<Seq<Fl>>>, n_h: int, q: int) -> Fl {
        mk(xr_sqrt(val(fl_div(wv(h, n_h, q).1, wv(h, n_h, q).0))))
    }
    pub open spec fn split_rhat_post(x: Seq<Seq<Seq<Fl>>>, c: int, n: int, p: int, out: Seq<Fl>) -> bool {
        exists |h: Seq<Seq<Seq<Fl>>>| #[trigger] halves_of(h, x, c, n) && rect3(h, 2 * c, n / 2, p)
            && out.len() == p && forall |q: int| 0 <= q < p ==> (#[trigger] out[q]) == rhat_of(h, n / 2, q)
    }

    pub fn split_rhat_mean_ess(sample: ArrayView3<Fl>) -> (r: (Array1<Fl>, Array1<Fl>))
        requires fin3(v3(sample)), dim3(sample).0 >= 1, 2 <= dim3(sample).1, dim3(sample).1 / 2 <= i32::MAX
        ensures
            split_rhat_post(v3(sample), dim3(sample).0, dim3(sample).1, dim3(sample).2, a1(r.0)),   // [C11.split_rhat_is_sqrt_varplus_over_w_of_half_chains]
            a1(r.1).len() == dim3(sample).2,
    //@body id=split_rhat_mean_ess file=src/stats.rs name=split_rhat_mean_ess props=C11,C12
    //@sig fn split_rhat_mean_ess (sample : ArrayView3 < f32 >) -> (Array1 < f32 > , Array1 < f32 >)
    //@rules R-f64
    //@anchor s1 scope=fn pos=after match="^let splitted ="
    //@| let ghost h = a3(splitted);
    //@| proof {
    //@|     let x = v3(sample); let c = dim3(sample).0; let n = dim3(sample).1;
    //@|     assert(rect3(x, c, n, dim3(sample).2));
    //@|     assert forall |m: int| 0 <= m < h.len() implies fin2(#[trigger] h[m]) by {
    //@|         assert forall |t: int| 0 <= t < h[m].len() implies fin1(#[trigger] h[m][t]) by {
    //@|             if m < c { assert(h[m][t] == x[m][t]); assert(fin2(x[m])); } else { assert(h[m][t] == x[m - c][n - n / 2 + t]); assert(fin2(x[m - c])); }
    //@|         }
    //@|     }
    //@| }
    //@end

    /// the comparator `basic_stats` hands to sort_by, as a function of the two values (read off the closure)
    pub open spec fn sort_cmp_spec(a: Fl, b: Fl) -> Ordering { tc_spec(b, a) }
    /// std's requirement on sort_by: the comparator is a total order on every pair/triple of elements,
    /// NaN included (otherwise sort_by may panic)
    pub proof fn lemma_sort_cmp_total()
        ensures
            forall |a: Fl, b: Fl| #[trigger] sort_cmp_spec(b, a) == rev(sort_cmp_spec(a, b)),       // [C11.sort_precondition_total_order_incl_nan]
            forall |a: Fl, b: Fl, c: Fl| (#[trigger] sort_cmp_spec(a, b) != Ordering::Greater && #[trigger] sort_cmp_spec(b, c) != Ordering::Greater) ==> sort_cmp_spec(a, c) != Ordering::Greater,   // [C11.sort_precondition_total_order_incl_nan]
            forall |a: Fl, b: Fl, c: Fl| (#[trigger] sort_cmp_spec(a, b) == Ordering::Equal && #[trigger] sort_cmp_spec(b, c) == Ordering::Equal) ==> sort_cmp_spec(a, c) == Ordering::Equal,   // [C11.sort_precondition_total_order_incl_nan]
    {
    }
    pub proof fn lemma_sorted_desc(s: Seq<Fl>, d: Seq<Fl>)
        requires s.len() == d.len(), s.to_multiset() == d.to_multiset(),
            forall |i: int, j: int| 0 <= i < j < s.len() ==> #[trigger] sort_cmp_spec(s[i], s[j]) != Ordering::Greater,
        ensures desc_sorted_perm(s, d), fin1(d) ==> fin1(s)
    {
        if fin1(d) {
            assert forall |i: int| 0 <= i < s.len() implies val(#[trigger] s[i]) is Fin by {
                assert(s.to_multiset().count(s[i]) > 0) by { vstd::seq_lib::to_multiset_contains(s, s[i]); }
                vstd::seq_lib::to_multiset_contains(d, s[i]);
            }
            assert forall |i: int, j: int| 0 <= i < j < s.len() implies rv(#[trigger] s[i]) >= rv(#[trigger] s[j]) by {
                assert(sort_cmp_spec(s[i], s[j]) != Ordering::Greater);
                if rv(s[i]) < rv(s[j]) { ax_tc_consistent(s[j], s[i]); }
            }
        }
    }

    pub struct BasicStats {
        //@fields file=src/stats.rs name=BasicStats rules=R-f64
    }
    pub struct RunStats {
        //@fields file=src/stats.rs name=RunStats
    }

    /// s is `data` sorted in descending order (an order statistic view of the summary)
    pub open spec fn desc_sorted_perm(s: Seq<Fl>, data: Seq<Fl>) -> bool {
        &&& s.len() == data.len() && s.to_multiset() == data.to_multiset()
        &&& fin1(data) ==> forall |i: int, j: int| 0 <= i < j < s.len() ==> rv(#[trigger] s[i]) >= rv(#[trigger] s[j])
    }
    /// min / max / middle order statistic / mean of the data (when all entries are finite); nothing but
    /// totality is demanded when NaN is present
    pub open spec fn summary_post(data: Seq<Fl>, r: BasicStats) -> bool {
        exists |s: Seq<Fl>| #[trigger] desc_sorted_perm(s, data)
            && r.max == s[0] && r.min == s[s.len() - 1] && r.median == s[s.len() as int / 2]
            && (fin1(data) ==> r.mean == fl(rmean(s)))
    }

    pub fn basic_stats(name: &str, mut data: Array1<Fl>) -> (r: BasicStats)
        requires a1(data).len() >= 1
        ensures summary_post(a1(data), r)                       // [C11.summary_min_max_median_mean]
    //@body id=basic_stats file=src/stats.rs name=basic_stats props=C11,C10
    //@sig fn basic_stats (name : & str , mut data : Array1 < f32 >) -> BasicStats
    //@rules R-f64 R-sortby R-lit R-index
    //@index data:nd_index_a1
    //@closure 1 params="a: &Fl; b: &Fl" ret="(o: Ordering)"
    //@| ensures o == sort_cmp_spec(*a, *b)
    //@anchor d0 scope=fn pos=start
    //@| let ghost d0 = a1(data);
    //@anchor srt scope=fn pos=before match="^slice_sort_by"
    //@| proof { lemma_sort_cmp_total(); }
    //@anchor srt2 scope=fn pos=after match="^slice_sort_by"
    //@| proof {
    //@|     let s = a1(data);
    //@|     assert forall |i: int, j: int| 0 <= i < j < s.len() implies #[trigger] sort_cmp_spec(s[i], s[j]) != Ordering::Greater by {
    //@|         assert(sorted_pair(__vx_cmp1, s[i], s[j]));
    //@|     }
    //@| }
    //@anchor fin scope=fn pos=before match="^BasicStats \{"
    //@| proof {
    //@|     let s = a1(data);
    //@|     lemma_sorted_desc(s, d0);
    //@| }
    //@end

    /// the run summary every progress mode reports: the summaries of the split R-hat and ESS vectors of exactly this sample
    pub open spec fn runstats_post(x: Seq<Seq<Seq<Fl>>>, c: int, n: int, d: int, rhat: BasicStats, ess: BasicStats) -> bool {
        exists |rh: Seq<Fl>, es: Seq<Fl>| #![trigger summary_post(rh, rhat), summary_post(es, ess)] split_rhat_post(x, c, n, d, rh) && es.len() == d && summary_post(rh, rhat) && summary_post(es, ess)
    }
    impl RunStats {
        pub fn from_f32_view(sample: ArrayView3<Fl>) -> (r: Self)
            requires fin3(v3(sample)), dim3(sample).0 >= 1, 2 <= dim3(sample).1, dim3(sample).1 / 2 <= i32::MAX, dim3(sample).2 >= 1
            ensures runstats_post(v3(sample), dim3(sample).0, dim3(sample).1, dim3(sample).2, r.rhat, r.ess)      // [C10.run_summary_is_computed_from_exactly_the_given_sample]
        //@body id=runstats_from_f32_view file=src/stats.rs impl_self=RunStats name=from_f32_view props=C10,C11
        //@sig fn from_f32_view (sample : ArrayView3 < f32 >) -> Self
        //@rules R-f64
        //@anchor a0 scope=fn pos=after match="^let \\(rhat , ess\\) ="
        //@| let ghost rh = a1(rhat);
        //@| let ghost es = a1(ess);
        //@anchor a1 scope=fn pos=before match="^RunStats \\{"
        //@| proof {
        //@|     assert(split_rhat_post(v3(sample), dim3(sample).0, dim3(sample).1, dim3(sample).2, rh));
        //@|     assert(es.len() == dim3(sample).2);
        //@|     assert(summary_post(rh, rhat) && summary_post(es, ess));
        //@|     assert(runstats_post(v3(sample), dim3(sample).0, dim3(sample).1, dim3(sample).2, rhat, ess));
        //@| }
        //@end

        /// `impl<T> From<ArrayView3<'_, T>> for RunStats` (the summary of ChainRunner::run_progress for any element type):
        /// the summary of the sample converted element-wise with `to_f32`
        pub fn from<T: ToPrimitive>(sample: ArrayView3<T>) -> (r: Self)
            requires vdim3(sample).0 >= 1, 2 <= vdim3(sample).1, vdim3(sample).1 / 2 <= i32::MAX, vdim3(sample).2 >= 1,
                forall |i: int, j: int, k: int| 0 <= i < vdim3(sample).0 && 0 <= j < vdim3(sample).1 && 0 <= k < vdim3(sample).2
                    ==> (#[trigger] v3(sample)[i][j][k]).f32_of() is Some && val(v3(sample)[i][j][k].f32_of()->Some_0) is Fin,
            ensures runstats_post(conv3(v3(sample), vdim3(sample).0, vdim3(sample).1, vdim3(sample).2), vdim3(sample).0, vdim3(sample).1, vdim3(sample).2, r.rhat, r.ess)      // [C10.run_summary_for_any_element_type_is_that_of_the_to_f32_converted_sample]
        //@body id=runstats_from file=src/stats.rs impl_self=RunStats impl_trait=From name=from props=C10,C11
        //@sig fn from (sample : ArrayView3 < T >) -> Self
        //@rules R-f64
        //@closure 1 params="x: T" ret="(r: Fl)"
        //@| requires x.f32_of() is Some
        //@| ensures r == x.f32_of()->Some_0
        //@anchor m0 scope=fn pos=after match="\\. mapv \\("
        //@| let ghost (c, n, d) = vdim3(sample);
        //@| let ghost cx = conv3(v3(sample), c, n, d);
        //@| proof {
        //@|     assert forall |i: int| 0 <= i < c implies (#[trigger] a3($lhs)[i]) =~= cx[i] by {
        //@|         assert(rect2(a3($lhs)[i], n, d));
        //@|         assert forall |j: int| 0 <= j < n implies (#[trigger] a3($lhs)[i][j]) =~= cx[i][j] by {
        //@|             assert forall |k: int| 0 <= k < d implies (#[trigger] a3($lhs)[i][j][k]) == cx[i][j][k] by {}
        //@|         }
        //@|     }
        //@|     assert(a3($lhs) =~= cx);
        //@|     assert(fin3(cx)) by {
        //@|         assert forall |i: int| 0 <= i < cx.len() implies fin2(#[trigger] cx[i]) by {
        //@|             assert forall |j: int| 0 <= j < cx[i].len() implies fin1(#[trigger] cx[i][j]) by {
        //@|                 assert forall |k: int| 0 <= k < cx[i][j].len() implies val(#[trigger] cx[i][j][k]) is Fin by { assert(v3(sample)[i][j][k].f32_of() is Some); }
        //@|             }
        //@|         }
        //@|     }
        //@| }
        //@anchor a0 scope=fn pos=after match="^let \\(rhat , ess\\) ="
        //@| let ghost rh = a1(rhat);
        //@| let ghost es = a1(ess);
        //@anchor a1 scope=fn pos=before match="^RunStats \\{"
        //@| proof {
        //@|     assert(split_rhat_post(cx, c, n, d, rh));
        //@|     assert(es.len() == d);
        //@|     assert(summary_post(rh, rhat) && summary_post(es, ess));
        //@|     assert(runstats_post(cx, c, n, d, rhat, ess));
        //@| }
        //@end
    }
    /// the sample converted element by element with `ToPrimitive::to_f32`
    pub open spec fn conv3<T: ToPrimitive>(x: Seq<Seq<Seq<T>>>, c: int, n: int, d: int) -> Seq<Seq<Seq<Fl>>> {
        Seq::new(c as nat, |i: int| Seq::new(n as nat, |j: int| Seq::new(d as nat, |k: int| x[i][j][k].f32_of()->Some_0)))
    }
}
} // verus!
fn main() {}
