//@unit export — src/io/{csv,arrow,parquet}.rs: what the save functions hand to the csv / arrow / parquet writers (C17, writer side)
#![allow(unused_imports, unused_variables, dead_code, unused_mut, non_snake_case, unused_parens, unused_labels)]
use vstd::prelude::*;
verus! {
//@include prelude/ndarray.rs
//@include prelude/ndgen.rs
//@include prelude/io.rs
//@include prelude/arrowio.rs

// loops are verified in the context of their function (facts about values bound before a loop need no restating in
// its invariant: hoisting a sub-expression out of a loop must not break the proof)
#[verifier::loop_isolation(false)]
pub mod unit_export {
    use vstd::prelude::*;
    use vstd::std_specs::iter::IteratorSpec;
    use super::nd::*;
    use super::ndx::*;
    use super::iox::*;
    use super::arw::*;
    broadcast use super::ndx::ndx_axioms;

    // ---- the documented CSV table (from the statement) -----------------------------------------------
    /// header: "chain", "observation", "dim_0", ..
    pub open spec fn csv_header(nd: int) -> Seq<Text> {
        seq!["chain"@, "observation"@] + Seq::new(nd as nat, |j: int| fmt1_spec("dim_{}"@, disp_usize(j as usize)))
    }
    /// the row of cell (c, o): its two indices, then the rendering of each stored value in order
    pub open spec fn csv_row<T: DispV>(c: int, o: int, vals: Seq<T>) -> Seq<Text> {
        seq![disp_usize(c as usize), disp_usize(o as usize)] + Seq::new(vals.len(), |j: int| vals[j].disp())
    }
    /// rows of chain c for observations 0..k, in order
    pub open spec fn chain_rows<T: DispV>(d: Seq<Seq<Seq<T>>>, c: int, k: int) -> Seq<Seq<Text>> decreases k {
        if k <= 0 { Seq::empty() } else { chain_rows(d, c, k - 1).push(csv_row(c, k - 1, d[c][k - 1])) }
    }
    /// rows of chains 0..c, chain-major
    pub open spec fn all_rows<T: DispV>(d: Seq<Seq<Seq<T>>>, c: int, n_obs: int) -> Seq<Seq<Text>> decreases c {
        if c <= 0 { Seq::empty() } else { all_rows(d, c - 1, n_obs) + chain_rows(d, c - 1, n_obs) }
    }
    pub open spec fn csv_table<T: DispV>(d: Seq<Seq<Seq<T>>>, dims: (int, int, int)) -> Seq<Seq<Text>> {
        seq![csv_header(dims.2)] + all_rows(d, dims.0, dims.1)
    }

    pub fn save_csv<T: DispV>(data: &Array3<T>, filename: &str) -> (res: Result<(), BoxDynError>)
    //@body id=save_csv file=src/io/csv.rs name=save_csv props=C17
    //@sig fn save_csv < T : std :: fmt :: Display > (data : & Array3 < T > , filename : & str ,) -> Result < () , Box < dyn Error > >
    //@rules R-dynerr R-tostring R-fmtargs R-extendmap R-axisfor R-index
    //@index obs:*nd_at1
    //@anchor g0 scope=fn pos=after match="^let n_dims"
    //@| let ghost d = a3(*data);
    //@| let ghost dims = gdim3(*data);
    //@loop 1 iter=it
    //@| invariant
    //@|     it.iter.end == n_dims, n_dims == dims.2,
    //@|     texts(header@) =~= seq!["chain"@, "observation"@] + Seq::new(i as nat, |j: int| fmt1_spec("dim_{}"@, disp_usize(j as usize))),
    //@anchor l1a scope=loop:1 pos=start
    //@| let ghost h0 = header@;
    //@anchor l1b scope=loop:1 pos=end
    //@| proof {
    //@|     assert(header@ == h0.push(header@[h0.len() as int]));
    //@|     assert(texts(header@) =~= texts(h0).push(fmt1_spec("dim_{}"@, disp_usize(i))));
    //@|     assert(Seq::new((i + 1) as nat, |j: int| fmt1_spec("dim_{}"@, disp_usize(j as usize))) =~= Seq::new(i as nat, |j: int| fmt1_spec("dim_{}"@, disp_usize(j as usize))).push(fmt1_spec("dim_{}"@, disp_usize(i))));
    //@| }
    //@anchor h1 scope=fn pos=after match="^wtr \\. write_record \\(& header\\)"
    //@| proof { assert(texts(header@) =~= csv_header(dims.2)); assert(w_recs(wtr) =~= seq![csv_header(dims.2)] + all_rows(d, 0, dims.1)); }
    //@loop 2 iter=it2
    //@| invariant
    //@|     it2.iter.end == dims.0, d == a3(*data), dims == gdim3(*data),
    //@|     w_recs(wtr) == seq![csv_header(dims.2)] + all_rows(d, chain_idx as int, dims.1),
    //@loop 3 iter=it3
    //@| invariant
    //@|     it3.iter.end == dims.1, d == a3(*data), dims == gdim3(*data), chain_idx < dims.0, v2(chain) == d[chain_idx as int], vdim2(chain) == (dims.1, dims.2),
    //@|     w_recs(wtr) == seq![csv_header(dims.2)] + all_rows(d, chain_idx as int, dims.1) + chain_rows(d, chain_idx as int, obs_idx as int),
    //@loop 4 iter=it4
    //@| invariant
    //@|     it4.iter.end == v1(obs).len(),
    //@|     texts(row@) =~= seq![disp_usize(chain_idx), disp_usize(obs_idx)] + Seq::new(__vx_k1 as nat, |j: int| v1(obs)[j].disp()),
    //@anchor l4a scope=loop:4 pos=start
    //@| let ghost r0 = row@;
    //@anchor l4b scope=loop:4 pos=end
    //@| proof {
    //@|     assert(row@ == r0.push(row@[r0.len() as int]));
    //@|     assert(texts(row@) =~= texts(r0).push(v1(obs)[__vx_k1 as int].disp()));
    //@|     assert(Seq::new((__vx_k1 + 1) as nat, |j: int| v1(obs)[j].disp()) =~= Seq::new(__vx_k1 as nat, |j: int| v1(obs)[j].disp()).push(v1(obs)[__vx_k1 as int].disp()));
    //@| }
    //@anchor r1 scope=loop:3 pos=end
    //@| proof {
    //@|     assert(texts(row@) =~= csv_row(chain_idx as int, obs_idx as int, d[chain_idx as int][obs_idx as int]));
    //@|     assert(w_recs(wtr) =~= seq![csv_header(dims.2)] + all_rows(d, chain_idx as int, dims.1) + chain_rows(d, chain_idx as int, obs_idx + 1));
    //@| }
    //@anchor c1 scope=loop:2 pos=end
    //@| proof { assert(w_recs(wtr) =~= seq![csv_header(dims.2)] + all_rows(d, chain_idx + 1, dims.1)); }
    //@anchor fin scope=fn pos=before match="^Ok \\(\\(\\)\\)"
    //@| proof {
    //@|     // reaching the success return means: every record was accepted, in this order, and the writer was flushed
    //@|     assert(w_flushed(wtr) && w_recs(wtr) == csv_table(d, dims));      // [C17.csv_success_means_header_then_one_row_per_cell_chain_major]
    //@| }
    //@end

    /// the tensor's cells rendered in element type E, as nested sequences [a][b][j]
    pub open spec fn tcells<E>(v: TView, dims: (int, int, int)) -> Seq<Seq<Seq<E>>> {
        Seq::new(dims.0 as nat, |a: int| Seq::new(dims.1 as nat, |b: int| Seq::new(dims.2 as nat, |j: int| tcell::<E>(v, a, b, j))))
    }
    pub proof fn lemma_offset(a: int, b: int, n0: int, n1: int, n2: int)
        requires 0 <= a < n0, 0 <= b < n1, 0 <= n2
        ensures a * n1 * n2 + b * n2 == (a * n1 + b) * n2, 0 <= a * n1 * n2, 0 <= b * n2, (a * n1 + b) * n2 + n2 <= n0 * n1 * n2, a * n1 <= n0 * n1,
            a * n1 * n2 <= n0 * n1 * n2
    {
        assert(a * n1 * n2 + b * n2 == (a * n1 + b) * n2) by(nonlinear_arith);
        assert(0 <= a * n1 * n2) by(nonlinear_arith) requires 0 <= a, 0 <= n1, 0 <= n2;
        assert(0 <= b * n2) by(nonlinear_arith) requires 0 <= b, 0 <= n2;
        assert(a * n1 + b + 1 <= n0 * n1) by(nonlinear_arith) requires 0 <= a < n0, 0 <= b < n1;
        assert((a * n1 + b + 1) * n2 <= (n0 * n1) * n2) by(nonlinear_arith) requires a * n1 + b + 1 <= n0 * n1, 0 <= n2;
        assert((a * n1 + b) * n2 + n2 == (a * n1 + b + 1) * n2) by(nonlinear_arith);
        assert(a * n1 <= n0 * n1) by(nonlinear_arith) requires 0 <= a < n0, 0 <= n1;
        assert(a * n1 * n2 <= n0 * n1 * n2) by(nonlinear_arith) requires a * n1 <= n0 * n1, 0 <= n2;
    }

    pub fn save_csv_tensor<B: Backend>(tensor: Tensor<B, 3>, filename: &str) -> (res: Result<(), BoxDynError>)
        // the flat offset `chain * n_obs * n_dims + ..` is computed left to right: chains * observations must fit in usize
        // (implied by "the element count fits in usize" whenever there is at least one dimension)
        requires tdims3(tensor).2 >= 1 || tdims3(tensor).0 * tdims3(tensor).1 <= usize::MAX
    //@body id=save_csv_tensor file=src/io/csv.rs name=save_csv_tensor props=C17
    //@sig fn save_csv_tensor < B > (tensor : burn :: tensor :: Tensor < B , 3 > , filename : & str ,) -> Result < () , Box < dyn Error > > where B : Backend ,
    //@rules R-dynerr R-tostring R-fmtargs R-fmt R-extendmap R-subslice R-index
    //@closure 1 params="e: DataError" ret="(r: String)"
    //@anchor g0 scope=fn pos=after match="^let flat :"
    //@| let ghost dims = tdims3(tensor);
    //@| let ghost d = tcells::<f32>(tview(tensor), dims);
    //@| proof {
    //@|     broadcast use ax_tdims3;
    //@|     assert(dims.0 * dims.1 * dims.2 <= usize::MAX);
    //@|     if dims.2 >= 1 { assert(dims.0 * dims.1 <= dims.0 * dims.1 * dims.2) by(nonlinear_arith) requires dims.2 >= 1, dims.0 >= 0, dims.1 >= 0; }
    //@| }
    //@loop 1 iter=it
    //@| invariant
    //@|     it.iter.end == num_dims, num_dims == dims.2,
    //@|     texts(header@) =~= seq!["chain"@, "observation"@] + Seq::new(i as nat, |j: int| fmt1_spec("dim_{}"@, disp_usize(j as usize))),
    //@anchor l1a scope=loop:1 pos=start
    //@| let ghost h0 = header@;
    //@anchor l1b scope=loop:1 pos=end
    //@| proof {
    //@|     assert(header@ == h0.push(header@[h0.len() as int]));
    //@|     assert(texts(header@) =~= texts(h0).push(fmt1_spec("dim_{}"@, disp_usize(i))));
    //@|     assert(Seq::new((i + 1) as nat, |j: int| fmt1_spec("dim_{}"@, disp_usize(j as usize))) =~= Seq::new(i as nat, |j: int| fmt1_spec("dim_{}"@, disp_usize(j as usize))).push(fmt1_spec("dim_{}"@, disp_usize(i))));
    //@| }
    //@anchor h1 scope=fn pos=after match="^wtr \\. write_record \\(& header\\)"
    //@| proof { assert(texts(header@) =~= csv_header(dims.2)); assert(w_recs(wtr) =~= seq![csv_header(dims.2)] + all_rows(d, 0, dims.1)); }
    //@loop 2 iter=it2
    //@| invariant
    //@|     it2.iter.end == dims.0, num_chains == dims.0, num_obs == dims.1, num_dims == dims.2, dims.0 * dims.1 * dims.2 <= usize::MAX, dims.0 * dims.1 <= usize::MAX,
    //@|     dims == tdims3(tensor), d == tcells::<f32>(tview(tensor), dims), flat@.len() == dims.0 * dims.1 * dims.2,
    //@|     forall |a: int, b: int, j: int| 0 <= a < dims.0 && 0 <= b < dims.1 && 0 <= j < dims.2 ==> flat@[(a * dims.1 + b) * dims.2 + j] == #[trigger] tcell::<f32>(tview(tensor), a, b, j),
    //@|     w_recs(wtr) == seq![csv_header(dims.2)] + all_rows(d, chain_idx as int, dims.1),
    //@loop 3 iter=it3
    //@| invariant
    //@|     it3.iter.end == dims.1, num_chains == dims.0, num_obs == dims.1, num_dims == dims.2, dims.0 * dims.1 * dims.2 <= usize::MAX, dims.0 * dims.1 <= usize::MAX, chain_idx < dims.0,
    //@|     dims == tdims3(tensor), d == tcells::<f32>(tview(tensor), dims), flat@.len() == dims.0 * dims.1 * dims.2,
    //@|     forall |a: int, b: int, j: int| 0 <= a < dims.0 && 0 <= b < dims.1 && 0 <= j < dims.2 ==> flat@[(a * dims.1 + b) * dims.2 + j] == #[trigger] tcell::<f32>(tview(tensor), a, b, j),
    //@|     w_recs(wtr) == seq![csv_header(dims.2)] + all_rows(d, chain_idx as int, dims.1) + chain_rows(d, chain_idx as int, obs_idx as int),
    //@anchor o0 scope=loop:3 pos=before match="^let offset ="
    //@| proof { lemma_offset(chain_idx as int, obs_idx as int, dims.0, dims.1, dims.2); }
    //@anchor o1 scope=loop:3 pos=after match="^let row_slice ="
    //@| proof {
    //@|     assert(row_slice@.len() == dims.2);
    //@|     assert forall |j: int| 0 <= j < dims.2 implies row_slice@[j] == d[chain_idx as int][obs_idx as int][j] by {
    //@|         assert(row_slice@[j] == flat@[(chain_idx * dims.1 + obs_idx) * dims.2 + j]);
    //@|         assert(flat@[(chain_idx * dims.1 + obs_idx) * dims.2 + j] == tcell::<f32>(tview(tensor), chain_idx as int, obs_idx as int, j));
    //@|     }
    //@|     assert(row_slice@ =~= d[chain_idx as int][obs_idx as int]);
    //@| }
    //@loop 4 iter=it4
    //@| invariant
    //@|     it4.iter.end == row_slice@.len(),
    //@|     texts(row@) =~= seq![disp_usize(chain_idx), disp_usize(obs_idx)] + Seq::new(__vx_k1 as nat, |j: int| row_slice@[j].disp()),
    //@anchor l4a scope=loop:4 pos=start
    //@| let ghost r0 = row@;
    //@anchor l4b scope=loop:4 pos=end
    //@| proof {
    //@|     assert(row@ == r0.push(row@[r0.len() as int]));
    //@|     assert(texts(row@) =~= texts(r0).push(row_slice@[__vx_k1 as int].disp()));
    //@|     assert(Seq::new((__vx_k1 + 1) as nat, |j: int| row_slice@[j].disp()) =~= Seq::new(__vx_k1 as nat, |j: int| row_slice@[j].disp()).push(row_slice@[__vx_k1 as int].disp()));
    //@| }
    //@anchor r1 scope=loop:3 pos=end
    //@| proof {
    //@|     assert(texts(row@) =~= csv_row(chain_idx as int, obs_idx as int, d[chain_idx as int][obs_idx as int]));
    //@|     assert(w_recs(wtr) =~= seq![csv_header(dims.2)] + all_rows(d, chain_idx as int, dims.1) + chain_rows(d, chain_idx as int, obs_idx + 1));
    //@| }
    //@anchor c1 scope=loop:2 pos=end
    //@| proof { assert(w_recs(wtr) =~= seq![csv_header(dims.2)] + all_rows(d, chain_idx + 1, dims.1)); }
    //@anchor fin scope=fn pos=before match="^Ok \\(\\(\\)\\)"
    //@| proof {
    //@|     // success: header, then one record per (chain, observation) cell of the tensor (its values as f32), chain-major, flushed
    //@|     assert(w_flushed(wtr) && w_recs(wtr) == csv_table(d, dims));      // [C17.csv_tensor_success_means_header_then_one_row_per_cell_chain_major]
    //@| }
    //@end

    // ---- the documented Arrow / Parquet table (from the statement) ------------------------------------
    /// the (outer, inner) index pairs of all cells, outer-axis-major
    pub open spec fn cellseq(na: int, nb: int) -> Seq<(int, int)> decreases na {
        if na <= 0 { Seq::empty() } else { cellseq(na - 1, nb) + Seq::new(nb as nat, |k: int| (na - 1, k)) }
    }
    pub open spec fn idx_col(cs: Seq<(int, int)>, which: int) -> Seq<u32> {
        Seq::new(cs.len(), |r: int| (if which == 0 { cs[r].0 } else { cs[r].1 }) as u32)
    }
    /// column dim_j: the stored value of every cell, widened to f64
    pub open spec fn val_col<T: WidenF64>(d: Seq<Seq<Seq<T>>>, cs: Seq<(int, int)>, j: int) -> Seq<f64> {
        Seq::new(cs.len(), |r: int| d[cs[r].0][cs[r].1][j].widen())
    }
    pub open spec fn dim_field(j: int) -> FieldV { FieldV { name: fmt1_spec("dim_{}"@, disp_usize(j as usize)), ty: DataType::Float64, nullable: false } }
    pub open spec fn idx_field(name: Text) -> FieldV { FieldV { name: name, ty: DataType::UInt32, nullable: false } }
    pub open spec fn tbl_fields(first: Text, second: Text, nd: int) -> Seq<FieldV> {
        seq![idx_field(first), idx_field(second)] + Seq::new(nd as nat, |j: int| dim_field(j))
    }
    pub open spec fn tbl_cols<T: WidenF64>(d: Seq<Seq<Seq<T>>>, cs: Seq<(int, int)>, nd: int) -> Seq<ColV> {
        seq![ColV::U32(idx_col(cs, 0)), ColV::U32(idx_col(cs, 1))] + Seq::new(nd as nat, |j: int| ColV::F64(val_col(d, cs, j)))
    }
    /// schema (first, second: UInt32; dim_j: Float64; none nullable) and one row per cell, outer-axis-major
    pub open spec fn doc_table<T: WidenF64>(first: Text, second: Text, d: Seq<Seq<Seq<T>>>, dims: (int, int, int)) -> TableV {
        TableV { fields: tbl_fields(first, second, dims.2), cols: tbl_cols(d, cellseq(dims.0, dims.1), dims.2) }
    }
    pub open spec fn fields_v(v: Seq<Field>) -> Seq<FieldV> { Seq::new(v.len(), |i: int| field_v(v[i])) }
    /// builders hold the columns of the cells `cs`; for the dimension builders, those below `upto` already hold the cell `extra` too
    pub open spec fn dims_hold<T: WidenF64>(bs: Seq<Float64Builder>, d: Seq<Seq<Seq<T>>>, cs: Seq<(int, int)>, extra: (int, int), upto: int) -> bool {
        forall |j: int| 0 <= j < bs.len() ==> b_f64(#[trigger] bs[j]) == (if j < upto { val_col(d, cs.push(extra), j) } else { val_col(d, cs, j) })
    }

    pub fn save_arrow<T: WidenF64 + Copy>(data: &Array3<T>, filename: &str) -> (res: Result<(), BoxDynError>)
    //@body id=save_arrow file=src/io/arrow.rs name=save_arrow props=C17
    //@sig fn save_arrow < T : Into < f64 > + Copy > (data : & Array3 < T > , filename : & str ,) -> Result < () , Box < dyn Error > >
    //@rules R-dynerr R-fmtargs R-extendmap R-axisfor R-index R-mapcollect R-wild R-formut R-ascast R-into R-enum
    //@index observation:*nd_at1
    //@const asArrayRef:vx_array_ref
    //@outtype __vx_out1 Vec<Float64Builder>
    //@anchor g0 scope=fn pos=after match="^let \\(n_chains , n_dims\\)"
    //@| let ghost d = a3(*data);
    //@| let ghost dims = gdim3(*data);
    //@loop 1 iter=it
    //@| invariant
    //@|     it.iter.end == n_dims, n_dims == dims.2,
    //@|     fields_v(fields@) =~= seq![idx_field("chain"@), idx_field("observation"@)] + Seq::new(dim_idx as nat, |j: int| dim_field(j)),
    //@anchor l1a scope=loop:1 pos=start
    //@| let ghost f0 = fields@;
    //@anchor l1b scope=loop:1 pos=end
    //@| proof {
    //@|     assert(fields@ == f0.push(fields@[f0.len() as int]));
    //@|     assert(fields_v(fields@) =~= fields_v(f0).push(dim_field(dim_idx as int)));
    //@|     assert(Seq::new((dim_idx + 1) as nat, |j: int| dim_field(j)) =~= Seq::new(dim_idx as nat, |j: int| dim_field(j)).push(dim_field(dim_idx as int)));
    //@| }
    //@anchor s0 scope=fn pos=after match="^let schema ="
    //@| proof { assert(schema_v(arc_v(schema)) =~= tbl_fields("chain"@, "observation"@, dims.2)); }
    //@loop 2 iter=it2
    //@| invariant
    //@|     it2.iter.end == n_dims, __vx_out1@.len() == __vx_i1,
    //@|     forall |j: int| 0 <= j < __vx_i1 ==> b_f64(#[trigger] __vx_out1@[j]) == Seq::<f64>::empty(),
    //@anchor b0 scope=fn pos=before match="^if n_chains > 0"
    //@| proof {
    //@|     assert(dims_hold(dim_builders@, d, cellseq(0, dims.1), (0int, 0int), 0)) by {
    //@|         assert forall |j: int| 0 <= j < dim_builders@.len() implies b_f64(#[trigger] dim_builders@[j]) == val_col(d, cellseq(0, dims.1), j) by {
    //@|             assert(val_col(d, cellseq(0, dims.1), j) =~= Seq::<f64>::empty());
    //@|         }
    //@|     }
    //@|     assert(idx_col(cellseq(0, dims.1), 0) =~= Seq::<u32>::empty());
    //@|     assert(idx_col(cellseq(0, dims.1), 1) =~= Seq::<u32>::empty());
    //@| }
    //@loop 3 iter=it3
    //@| invariant
    //@|     it3.iter.end == dims.0, d == a3(*data), dims == gdim3(*data), n_dims == dims.2, dim_builders@.len() == n_dims,
    //@|     b_u32(chain_builder) == idx_col(cellseq(chain_idx as int, dims.1), 0),
    //@|     b_u32(observation_builder) == idx_col(cellseq(chain_idx as int, dims.1), 1),
    //@|     dims_hold(dim_builders@, d, cellseq(chain_idx as int, dims.1), (0int, 0int), 0),
    //@loop 4 iter=it4
    //@| invariant
    //@|     it4.iter.end == dims.1, d == a3(*data), dims == gdim3(*data), n_dims == dims.2, dim_builders@.len() == n_dims, chain_idx < dims.0,
    //@|     v2(chain) == d[chain_idx as int], vdim2(chain) == (dims.1, dims.2),
    //@|     b_u32(chain_builder) == idx_col(cellseq(chain_idx as int, dims.1) + Seq::new(observation_idx as nat, |k: int| (chain_idx as int, k)), 0),
    //@|     b_u32(observation_builder) == idx_col(cellseq(chain_idx as int, dims.1) + Seq::new(observation_idx as nat, |k: int| (chain_idx as int, k)), 1),
    //@|     dims_hold(dim_builders@, d, cellseq(chain_idx as int, dims.1) + Seq::new(observation_idx as nat, |k: int| (chain_idx as int, k)), (0int, 0int), 0),
    //@anchor o0 scope=loop:4 pos=after match="^observation_builder \\. append_value"
    //@| let ghost cs0 = cellseq(chain_idx as int, dims.1) + Seq::new(observation_idx as nat, |k: int| (chain_idx as int, k));
    //@| let ghost cell = (chain_idx as int, observation_idx as int);
    //@| proof {
    //@|     assert(idx_col(cs0.push(cell), 0) =~= idx_col(cs0, 0).push(chain_idx as u32));
    //@|     assert(idx_col(cs0.push(cell), 1) =~= idx_col(cs0, 1).push(observation_idx as u32));
    //@| }
    //@loop 5 iter=it5
    //@| invariant
    //@|     it5.iter.end == n_dims, n_dims == dims.2, dim_builders@.len() == n_dims, v1(observation).len() == n_dims,
    //@|     v1(observation) == d[chain_idx as int][observation_idx as int], cell == (chain_idx as int, observation_idx as int),
    //@|     dims_hold(dim_builders@, d, cs0, cell, dim_idx as int),
    //@anchor e0 scope=loop:5 pos=start
    //@| let ghost db0 = dim_builders@;
    //@anchor e1 scope=loop:5 pos=end
    //@| proof {
    //@|     assert(val_col(d, cs0.push(cell), dim_idx as int) =~= val_col(d, cs0, dim_idx as int).push(d[cell.0][cell.1][dim_idx as int].widen()));
    //@|     assert forall |j: int| 0 <= j < dim_builders@.len() implies b_f64(#[trigger] dim_builders@[j]) == (if j < dim_idx + 1 { val_col(d, cs0.push(cell), j) } else { val_col(d, cs0, j) }) by {
    //@|         if j != dim_idx { assert(dim_builders@[j] == db0[j]); }
    //@|     }
    //@| }
    //@anchor o1 scope=loop:4 pos=end
    //@| proof {
    //@|     assert(cs0.push(cell) =~= cellseq(chain_idx as int, dims.1) + Seq::new((observation_idx + 1) as nat, |k: int| (chain_idx as int, k)));
    //@|     assert(dims_hold(dim_builders@, d, cs0.push(cell), (0int, 0int), 0));
    //@| }
    //@anchor c1 scope=loop:3 pos=end
    //@| proof {
    //@|     assert(cellseq(chain_idx as int, dims.1) + Seq::new(dims.1 as nat, |k: int| (chain_idx as int, k)) =~= cellseq(chain_idx + 1, dims.1));
    //@| }
    //@anchor f0 scope=fn pos=before match="^let chain_array ="
    //@| let ghost cs = cellseq(dims.0, dims.1);
    //@| let ghost dbs = dim_builders@;
    //@| proof {
    //@|     assert(b_u32(chain_builder) == idx_col(cs, 0) && b_u32(observation_builder) == idx_col(cs, 1));
    //@|     assert(dims_hold(dbs, d, cs, (0int, 0int), 0));
    //@| }
    //@loop 6 iter=it6
    //@| invariant
    //@|     it6.history@ + it6.iter.remaining() == dbs, dbs.len() == dims.2, dims_hold(dbs, d, cs, (0int, 0int), 0),
    //@|     dim_arrays@.len() == it6.history@.len(),
    //@|     forall |j: int| 0 <= j < dim_arrays@.len() ==> col_v(#[trigger] dim_arrays@[j]) == ColV::F64(val_col(d, cs, j)),
    //@anchor m0 scope=loop:6 pos=start
    //@| let ghost k6 = it6.history@.len() as int;
    //@| proof { assert(__vx_m1 == dbs[k6]); assert(b_f64(dbs[k6]) == val_col(d, cs, k6)); }
    //@anchor a0 scope=fn pos=after match="^let mut arrays ="
    //@| let ghost das = dim_arrays@;
    //@anchor m1 scope=loop:7 pos=start
    //@| let ghost k7 = it7.history@.len() as int;
    //@| proof { assert(__vx_x1 == das[k7]); }
    //@loop 7 iter=it7
    //@| invariant
    //@|     it7.history@ + it7.iter.remaining() == das, das.len() == dims.2,
    //@|     arrays@.len() == 2 + it7.history@.len(),
    //@|     col_v(arrays@[0]) == ColV::U32(idx_col(cs, 0)), col_v(arrays@[1]) == ColV::U32(idx_col(cs, 1)),
    //@|     forall |j: int| 0 <= j < it7.history@.len() ==> (#[trigger] arrays@[2 + j]) == das[j],
    //@|     forall |j: int| 0 <= j < das.len() ==> col_v(#[trigger] das[j]) == ColV::F64(val_col(d, cs, j)),
    //@anchor a1 scope=fn pos=before match="^let record_batch ="
    //@| proof {
    //@|     assert(arrays@.len() == 2 + dims.2);
    //@|     assert forall |i: int| 0 <= i < arrays@.len() implies cols_of(arrays@)[i] == tbl_cols(d, cs, dims.2)[i] by {
    //@|         if i >= 2 { assert(arrays@[2 + (i - 2)] == das[i - 2]); }
    //@|     }
    //@|     assert(cols_of(arrays@) =~= tbl_cols(d, cs, dims.2));
    //@| }
    //@anchor fin scope=fn pos=before match="^Ok \\(\\(\\)\\)"
    //@| proof {
    //@|     // reaching the success return means: a writer for the documented schema accepted exactly one batch, the documented table, and finished the file
    //@|     assert(fw_finished(writer) && fw_schema(writer) == tbl_fields("chain"@, "observation"@, dims.2)
    //@|         && fw_batches(writer) == seq![doc_table("chain"@, "observation"@, d, dims)]);      // [C17.arrow_success_means_documented_schema_and_one_row_per_cell]
    //@| }
    //@end

    pub fn save_parquet<T: WidenF64 + Copy>(data: &Array3<T>, filename: &str) -> (res: Result<(), BoxDynError>)
    //@body id=save_parquet file=src/io/parquet.rs name=save_parquet props=C17
    //@sig fn save_parquet < T : Into < f64 > + Copy > (data : & Array3 < T > , filename : & str ,) -> Result < () , Box < dyn Error > >
    //@rules R-dynerr R-fmtargs R-extendmap R-axisfor R-index R-mapcollect R-wild R-formut R-ascast R-into R-enum
    //@index observation:*nd_at1
    //@const asArrayRef:vx_array_ref
    //@outtype __vx_out1 Vec<Float64Builder>
    //@anchor g0 scope=fn pos=after match="^let n_dims ="
    //@| let ghost d = a3(*data);
    //@| let ghost dims = gdim3(*data);
    //@loop 1 iter=it
    //@| invariant
    //@|     it.iter.end == n_dims, n_dims == dims.2,
    //@|     fields_v(fields@) =~= seq![idx_field("chain"@), idx_field("observation"@)] + Seq::new(dim_idx as nat, |j: int| dim_field(j)),
    //@anchor l1a scope=loop:1 pos=start
    //@| let ghost f0 = fields@;
    //@anchor l1b scope=loop:1 pos=end
    //@| proof {
    //@|     assert(fields@ == f0.push(fields@[f0.len() as int]));
    //@|     assert(fields_v(fields@) =~= fields_v(f0).push(dim_field(dim_idx as int)));
    //@|     assert(Seq::new((dim_idx + 1) as nat, |j: int| dim_field(j)) =~= Seq::new(dim_idx as nat, |j: int| dim_field(j)).push(dim_field(dim_idx as int)));
    //@| }
    //@anchor s0 scope=fn pos=after match="^let schema ="
    //@| proof { assert(schema_v(arc_v(schema)) =~= tbl_fields("chain"@, "observation"@, dims.2)); }
    //@loop 2 iter=it2
    //@| invariant
    //@|     it2.iter.end == n_dims, __vx_out1@.len() == __vx_i1,
    //@|     forall |j: int| 0 <= j < __vx_i1 ==> b_f64(#[trigger] __vx_out1@[j]) == Seq::<f64>::empty(),
    //@anchor b0 scope=fn pos=before match=": for chain_idx in 0 \\.\\. data"
    //@| proof {
    //@|     assert(dims_hold(dim_builders@, d, cellseq(0, dims.1), (0int, 0int), 0)) by {
    //@|         assert forall |j: int| 0 <= j < dim_builders@.len() implies b_f64(#[trigger] dim_builders@[j]) == val_col(d, cellseq(0, dims.1), j) by {
    //@|             assert(val_col(d, cellseq(0, dims.1), j) =~= Seq::<f64>::empty());
    //@|         }
    //@|     }
    //@|     assert(idx_col(cellseq(0, dims.1), 0) =~= Seq::<u32>::empty());
    //@|     assert(idx_col(cellseq(0, dims.1), 1) =~= Seq::<u32>::empty());
    //@| }
    //@loop 3 iter=it3
    //@| invariant
    //@|     it3.iter.end == dims.0, d == a3(*data), dims == gdim3(*data), n_dims == dims.2, dim_builders@.len() == n_dims,
    //@|     b_u32(chain_builder) == idx_col(cellseq(chain_idx as int, dims.1), 0),
    //@|     b_u32(observation_builder) == idx_col(cellseq(chain_idx as int, dims.1), 1),
    //@|     dims_hold(dim_builders@, d, cellseq(chain_idx as int, dims.1), (0int, 0int), 0),
    //@loop 4 iter=it4
    //@| invariant
    //@|     it4.iter.end == dims.1, d == a3(*data), dims == gdim3(*data), n_dims == dims.2, dim_builders@.len() == n_dims, chain_idx < dims.0,
    //@|     v2(chain) == d[chain_idx as int], vdim2(chain) == (dims.1, dims.2),
    //@|     b_u32(chain_builder) == idx_col(cellseq(chain_idx as int, dims.1) + Seq::new(observation_idx as nat, |k: int| (chain_idx as int, k)), 0),
    //@|     b_u32(observation_builder) == idx_col(cellseq(chain_idx as int, dims.1) + Seq::new(observation_idx as nat, |k: int| (chain_idx as int, k)), 1),
    //@|     dims_hold(dim_builders@, d, cellseq(chain_idx as int, dims.1) + Seq::new(observation_idx as nat, |k: int| (chain_idx as int, k)), (0int, 0int), 0),
    //@anchor o0 scope=loop:4 pos=after match="^observation_builder \\. append_value"
    //@| let ghost cs0 = cellseq(chain_idx as int, dims.1) + Seq::new(observation_idx as nat, |k: int| (chain_idx as int, k));
    //@| let ghost cell = (chain_idx as int, observation_idx as int);
    //@| proof {
    //@|     assert(idx_col(cs0.push(cell), 0) =~= idx_col(cs0, 0).push(chain_idx as u32));
    //@|     assert(idx_col(cs0.push(cell), 1) =~= idx_col(cs0, 1).push(observation_idx as u32));
    //@| }
    //@loop 5 iter=it5
    //@| invariant
    //@|     it5.iter.end == n_dims, n_dims == dims.2, dim_builders@.len() == n_dims, v1(observation).len() == n_dims,
    //@|     v1(observation) == d[chain_idx as int][observation_idx as int], cell == (chain_idx as int, observation_idx as int),
    //@|     dims_hold(dim_builders@, d, cs0, cell, dim_idx as int),
    //@anchor e0 scope=loop:5 pos=start
    //@| let ghost db0 = dim_builders@;
    //@anchor e1 scope=loop:5 pos=end
    //@| proof {
    //@|     assert(val_col(d, cs0.push(cell), dim_idx as int) =~= val_col(d, cs0, dim_idx as int).push(d[cell.0][cell.1][dim_idx as int].widen()));
    //@|     assert forall |j: int| 0 <= j < dim_builders@.len() implies b_f64(#[trigger] dim_builders@[j]) == (if j < dim_idx + 1 { val_col(d, cs0.push(cell), j) } else { val_col(d, cs0, j) }) by {
    //@|         if j != dim_idx { assert(dim_builders@[j] == db0[j]); }
    //@|     }
    //@| }
    //@anchor o1 scope=loop:4 pos=end
    //@| proof {
    //@|     assert(cs0.push(cell) =~= cellseq(chain_idx as int, dims.1) + Seq::new((observation_idx + 1) as nat, |k: int| (chain_idx as int, k)));
    //@|     assert(dims_hold(dim_builders@, d, cs0.push(cell), (0int, 0int), 0));
    //@| }
    //@anchor c1 scope=loop:3 pos=end
    //@| proof {
    //@|     assert(cellseq(chain_idx as int, dims.1) + Seq::new(dims.1 as nat, |k: int| (chain_idx as int, k)) =~= cellseq(chain_idx + 1, dims.1));
    //@| }
    //@anchor f0 scope=fn pos=before match="^let chain_array ="
    //@| let ghost cs = cellseq(dims.0, dims.1);
    //@| let ghost dbs = dim_builders@;
    //@| proof {
    //@|     assert(b_u32(chain_builder) == idx_col(cs, 0) && b_u32(observation_builder) == idx_col(cs, 1));
    //@|     assert(dims_hold(dbs, d, cs, (0int, 0int), 0));
    //@| }
    //@loop 6 iter=it6
    //@| invariant
    //@|     it6.history@ + it6.iter.remaining() == dbs, dbs.len() == dims.2, dims_hold(dbs, d, cs, (0int, 0int), 0),
    //@|     dim_arrays@.len() == it6.history@.len(),
    //@|     forall |j: int| 0 <= j < dim_arrays@.len() ==> col_v(#[trigger] dim_arrays@[j]) == ColV::F64(val_col(d, cs, j)),
    //@anchor m0 scope=loop:6 pos=start
    //@| let ghost k6 = it6.history@.len() as int;
    //@| proof { assert(__vx_m1 == dbs[k6]); assert(b_f64(dbs[k6]) == val_col(d, cs, k6)); }
    //@anchor a0 scope=fn pos=after match="^let mut arrays ="
    //@| let ghost das = dim_arrays@;
    //@anchor m1 scope=loop:7 pos=start
    //@| let ghost k7 = it7.history@.len() as int;
    //@| proof { assert(__vx_x1 == das[k7]); }
    //@loop 7 iter=it7
    //@| invariant
    //@|     it7.history@ + it7.iter.remaining() == das, das.len() == dims.2,
    //@|     arrays@.len() == 2 + it7.history@.len(),
    //@|     col_v(arrays@[0]) == ColV::U32(idx_col(cs, 0)), col_v(arrays@[1]) == ColV::U32(idx_col(cs, 1)),
    //@|     forall |j: int| 0 <= j < it7.history@.len() ==> (#[trigger] arrays@[2 + j]) == das[j],
    //@|     forall |j: int| 0 <= j < das.len() ==> col_v(#[trigger] das[j]) == ColV::F64(val_col(d, cs, j)),
    //@anchor a1 scope=fn pos=before match="^let record_batch ="
    //@| proof {
    //@|     assert(arrays@.len() == 2 + dims.2);
    //@|     assert forall |i: int| 0 <= i < arrays@.len() implies cols_of(arrays@)[i] == tbl_cols(d, cs, dims.2)[i] by {
    //@|         if i >= 2 { assert(arrays@[2 + (i - 2)] == das[i - 2]); }
    //@|     }
    //@|     assert(cols_of(arrays@) =~= tbl_cols(d, cs, dims.2));
    //@| }
    //@anchor fin scope=fn pos=before match="^writer \\. close \\(\\)"
    //@| proof {
    //@|     // the writer that is closed (success is returned only if close() succeeds) has the documented schema and holds exactly the documented table
    //@|     assert(aw_schema(writer) == tbl_fields("chain"@, "observation"@, dims.2)
    //@|         && aw_batches(writer) == seq![doc_table("chain"@, "observation"@, d, dims)]);      // [C17.parquet_success_means_documented_schema_and_one_row_per_cell]
    //@| }
    //@end

    pub fn save_parquet_tensor<B: Backend, K, T: WidenF64 + Copy>(tensor: &Tensor<B, 3, K>, filename: &str) -> (res: Result<(), BoxDynError>)
        requires tdims3(*tensor).2 >= 1 || tdims3(*tensor).0 * tdims3(*tensor).1 <= usize::MAX
    //@body id=save_parquet_tensor file=src/io/parquet.rs name=save_parquet_tensor props=C17
    //@sig fn save_parquet_tensor < B , K , T > (tensor : & Tensor < B , 3 , K > , filename : & str ,) -> Result < () , Box < dyn Error > > where B : Backend , K : burn :: tensor :: TensorKind < B > , T : Into < f64 > + burn :: tensor :: Element , K : burn :: tensor :: BasicOps < B > ,
    //@rules R-dynerr R-fmtargs R-fmt R-extendmap R-subslice R-index R-mapcollect R-wild R-formut R-ascast R-into R-enum
    //@const asArrayRef:vx_array_ref
    //@outtype __vx_out1 Vec<Float64Builder>
    //@closure 1 params="e: DataError" ret="(r: String)"
    //@anchor g0 scope=fn pos=after match="^let flat :"
    //@| let ghost dims = tdims3(*tensor);
    //@| let ghost d = tcells::<T>(tview(*tensor), dims);
    //@| proof {
    //@|     broadcast use ax_tdims3;
    //@|     assert(dims.0 * dims.1 * dims.2 <= usize::MAX);
    //@|     if dims.2 >= 1 { assert(dims.0 * dims.1 <= dims.0 * dims.1 * dims.2) by(nonlinear_arith) requires dims.2 >= 1, dims.0 >= 0, dims.1 >= 0; }
    //@| }
    //@loop 1 iter=it
    //@| invariant
    //@|     it.iter.end == num_dims, num_dims == dims.2,
    //@|     fields_v(fields@) =~= seq![idx_field("observation"@), idx_field("chain"@)] + Seq::new(dim_idx as nat, |j: int| dim_field(j)),
    //@anchor l1a scope=loop:1 pos=start
    //@| let ghost f0 = fields@;
    //@anchor l1b scope=loop:1 pos=end
    //@| proof {
    //@|     assert(fields@ == f0.push(fields@[f0.len() as int]));
    //@|     assert(fields_v(fields@) =~= fields_v(f0).push(dim_field(dim_idx as int)));
    //@|     assert(Seq::new((dim_idx + 1) as nat, |j: int| dim_field(j)) =~= Seq::new(dim_idx as nat, |j: int| dim_field(j)).push(dim_field(dim_idx as int)));
    //@| }
    //@anchor s0 scope=fn pos=after match="^let schema ="
    //@| proof { assert(schema_v(arc_v(schema)) =~= tbl_fields("observation"@, "chain"@, dims.2)); }
    //@loop 2 iter=it2
    //@| invariant
    //@|     it2.iter.end == num_dims, __vx_out1@.len() == __vx_i1,
    //@|     forall |j: int| 0 <= j < __vx_i1 ==> b_f64(#[trigger] __vx_out1@[j]) == Seq::<f64>::empty(),
    //@anchor b0 scope=fn pos=before match=": for observation in 0 \\.\\. num_observations"
    //@| proof {
    //@|     assert(dims_hold(dim_builders@, d, cellseq(0, dims.1), (0int, 0int), 0)) by {
    //@|         assert forall |j: int| 0 <= j < dim_builders@.len() implies b_f64(#[trigger] dim_builders@[j]) == val_col(d, cellseq(0, dims.1), j) by {
    //@|             assert(val_col(d, cellseq(0, dims.1), j) =~= Seq::<f64>::empty());
    //@|         }
    //@|     }
    //@|     assert(idx_col(cellseq(0, dims.1), 0) =~= Seq::<u32>::empty());
    //@|     assert(idx_col(cellseq(0, dims.1), 1) =~= Seq::<u32>::empty());
    //@| }
    //@loop 3 iter=it3
    //@| invariant
    //@|     it3.iter.end == dims.0, num_observations == dims.0, num_chains == dims.1, num_dims == dims.2, dim_builders@.len() == num_dims,
    //@|     dims.0 * dims.1 * dims.2 <= usize::MAX, dims.0 * dims.1 <= usize::MAX,
    //@|     dims == tdims3(*tensor), d == tcells::<T>(tview(*tensor), dims), flat@.len() == dims.0 * dims.1 * dims.2,
    //@|     forall |a: int, b: int, j: int| 0 <= a < dims.0 && 0 <= b < dims.1 && 0 <= j < dims.2 ==> flat@[(a * dims.1 + b) * dims.2 + j] == #[trigger] tcell::<T>(tview(*tensor), a, b, j),
    //@|     b_u32(observation_builder) == idx_col(cellseq(observation as int, dims.1), 0),
    //@|     b_u32(chain_builder) == idx_col(cellseq(observation as int, dims.1), 1),
    //@|     dims_hold(dim_builders@, d, cellseq(observation as int, dims.1), (0int, 0int), 0),
    //@loop 4 iter=it4
    //@| invariant
    //@|     it4.iter.end == dims.1, num_observations == dims.0, num_chains == dims.1, num_dims == dims.2, dim_builders@.len() == num_dims, observation < dims.0,
    //@|     dims.0 * dims.1 * dims.2 <= usize::MAX, dims.0 * dims.1 <= usize::MAX,
    //@|     dims == tdims3(*tensor), d == tcells::<T>(tview(*tensor), dims), flat@.len() == dims.0 * dims.1 * dims.2,
    //@|     forall |a: int, b: int, j: int| 0 <= a < dims.0 && 0 <= b < dims.1 && 0 <= j < dims.2 ==> flat@[(a * dims.1 + b) * dims.2 + j] == #[trigger] tcell::<T>(tview(*tensor), a, b, j),
    //@|     b_u32(observation_builder) == idx_col(cellseq(observation as int, dims.1) + Seq::new(chain as nat, |k: int| (observation as int, k)), 0),
    //@|     b_u32(chain_builder) == idx_col(cellseq(observation as int, dims.1) + Seq::new(chain as nat, |k: int| (observation as int, k)), 1),
    //@|     dims_hold(dim_builders@, d, cellseq(observation as int, dims.1) + Seq::new(chain as nat, |k: int| (observation as int, k)), (0int, 0int), 0),
    //@anchor o0 scope=loop:4 pos=before match="^let offset ="
    //@| let ghost cs0 = cellseq(observation as int, dims.1) + Seq::new(chain as nat, |k: int| (observation as int, k));
    //@| let ghost cell = (observation as int, chain as int);
    //@| proof {
    //@|     assert(idx_col(cs0.push(cell), 0) =~= idx_col(cs0, 0).push(observation as u32));
    //@|     assert(idx_col(cs0.push(cell), 1) =~= idx_col(cs0, 1).push(chain as u32));
    //@|     lemma_offset(observation as int, chain as int, dims.0, dims.1, dims.2);
    //@| }
    //@loop 5 iter=it5
    //@| invariant
    //@|     it5.iter.end == num_dims, num_dims == dims.2, dim_builders@.len() == num_dims, __vx_recv1@.len() == num_dims,
    //@|     cell == (observation as int, chain as int), observation < dims.0, chain < dims.1,
    //@|     forall |j: int| 0 <= j < dims.2 ==> (#[trigger] __vx_recv1@[j]) == d[cell.0][cell.1][j],
    //@|     dims_hold(dim_builders@, d, cs0, cell, dim_idx as int),
    //@anchor e00 scope=loop:4 pos=before match="^'vxl_\\d+ : for dim_idx in 0"
    //@| proof {
    //@|     assert forall |j: int| 0 <= j < dims.2 implies (#[trigger] __vx_recv1@[j]) == d[cell.0][cell.1][j] by {
    //@|         assert(__vx_recv1@[j] == flat@[(observation * dims.1 + chain) * dims.2 + j]);
    //@|         assert(flat@[(observation * dims.1 + chain) * dims.2 + j] == tcell::<T>(tview(*tensor), observation as int, chain as int, j));
    //@|     }
    //@| }
    //@anchor e0 scope=loop:5 pos=start
    //@| let ghost db0 = dim_builders@;
    //@anchor e1 scope=loop:5 pos=end
    //@| proof {
    //@|     assert(val_col(d, cs0.push(cell), dim_idx as int) =~= val_col(d, cs0, dim_idx as int).push(d[cell.0][cell.1][dim_idx as int].widen()));
    //@|     assert forall |j: int| 0 <= j < dim_builders@.len() implies b_f64(#[trigger] dim_builders@[j]) == (if j < dim_idx + 1 { val_col(d, cs0.push(cell), j) } else { val_col(d, cs0, j) }) by {
    //@|         if j != dim_idx { assert(dim_builders@[j] == db0[j]); }
    //@|     }
    //@| }
    //@anchor o1 scope=loop:4 pos=end
    //@| proof {
    //@|     assert(cs0.push(cell) =~= cellseq(observation as int, dims.1) + Seq::new((chain + 1) as nat, |k: int| (observation as int, k)));
    //@|     assert(dims_hold(dim_builders@, d, cs0.push(cell), (0int, 0int), 0));
    //@| }
    //@anchor c1 scope=loop:3 pos=end
    //@| proof {
    //@|     assert(cellseq(observation as int, dims.1) + Seq::new(dims.1 as nat, |k: int| (observation as int, k)) =~= cellseq(observation + 1, dims.1));
    //@| }
    //@anchor f0 scope=fn pos=before match="^let observation_array ="
    //@| let ghost cs = cellseq(dims.0, dims.1);
    //@| let ghost dbs = dim_builders@;
    //@anchor a0 scope=fn pos=after match="^let mut arrays ="
    //@| proof { assert(arrays@.len() == 2); }
    //@loop 6 iter=it6
    //@| invariant
    //@|     it6.history@ + it6.iter.remaining() == dbs, dbs.len() == dims.2, dims_hold(dbs, d, cs, (0int, 0int), 0),
    //@|     arrays@.len() == 2 + it6.history@.len(),
    //@|     col_v(arrays@[0]) == ColV::U32(idx_col(cs, 0)), col_v(arrays@[1]) == ColV::U32(idx_col(cs, 1)),
    //@|     forall |j: int| 0 <= j < it6.history@.len() ==> col_v(#[trigger] arrays@[2 + j]) == ColV::F64(val_col(d, cs, j)),
    //@anchor m0 scope=loop:6 pos=start
    //@| let ghost k6 = it6.history@.len() as int;
    //@| let ghost arr0 = arrays@;
    //@| proof { assert(__vx_m1 == dbs[k6]); assert(b_f64(dbs[k6]) == val_col(d, cs, k6)); }
    //@anchor m1 scope=loop:6 pos=end
    //@| proof {
    //@|     assert(arrays@ == arr0.push(arrays@[arr0.len() as int]));
    //@|     assert forall |j: int| 0 <= j < k6 + 1 implies col_v(#[trigger] arrays@[2 + j]) == ColV::F64(val_col(d, cs, j)) by { if j < k6 { assert(arrays@[2 + j] == arr0[2 + j]); } }
    //@| }
    //@anchor a1 scope=fn pos=before match="^let record_batch ="
    //@| proof {
    //@|     assert(arrays@.len() == 2 + dims.2);
    //@|     assert forall |i: int| 0 <= i < arrays@.len() implies cols_of(arrays@)[i] == tbl_cols(d, cs, dims.2)[i] by {
    //@|         if i >= 2 { assert(col_v(arrays@[2 + (i - 2)]) == ColV::F64(val_col(d, cs, i - 2))); }
    //@|     }
    //@|     assert(cols_of(arrays@) =~= tbl_cols(d, cs, dims.2));
    //@| }
    //@anchor fin scope=fn pos=before match="^writer \\. close \\(\\)"
    //@| proof {
    //@|     // the writer that is closed has the documented schema (observation, chain, dim_*) and holds exactly one row per (observation, chain) cell, observation-major
    //@|     assert(aw_schema(writer) == tbl_fields("observation"@, "chain"@, dims.2)
    //@|         && aw_batches(writer) == seq![doc_table("observation"@, "chain"@, d, dims)]);      // [C17.parquet_tensor_success_means_documented_schema_and_one_row_per_cell_observation_major]
    //@| }
    //@end
}
} // verus!
fn main() {}
