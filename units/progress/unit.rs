//@unit progress — src/stats.rs: MultiChainTracker::stats (tensor -> f32 view conversion) (C10)
#![allow(unused_imports, unused_variables, dead_code, unused_mut, non_snake_case, unused_parens, unused_labels)]
use vstd::prelude::*;
verus! {
// loops are verified in the context of their function (facts about values bound before a loop need no restating in
// its invariant: hoisting a sub-expression out of a loop must not break the proof)
#[verifier::loop_isolation(false)]
pub mod unit_progress {
    use vstd::prelude::*;

    // ---- element types and backends: what `to_data()` / `as_slice::<E>()` do with them (burn docs) ----
    /// a primitive float element type; `f32`/`f64` are used as type markers only (no arithmetic in this unit)
    pub trait Element: Sized { spec fn is_f32() -> bool; }
    impl Element for f32 { open spec fn is_f32() -> bool { true } }
    impl Element for f64 { open spec fn is_f32() -> bool { false } }
    /// `Backend::FloatElem` is f32 or f64 (NdArray<f32> / NdArray<f64>, Autodiff<..> thereof)
    pub trait Backend: Sized { spec fn float_is_f32() -> bool; }
    #[verifier::external_body]
    #[verifier::accept_recursive_types(B)]
    pub struct Tensor<B, const D: usize> { _b: core::marker::PhantomData<B> }
    /// `TensorData`: values tagged with their element type
    #[verifier::external_body]
    pub struct TensorData { _p: u8 }
    pub uninterp spec fn td_is_f32(t: TensorData) -> bool;
    pub uninterp spec fn td_len(t: TensorData) -> int;
    /// the values held (an abstract sort: nothing in this unit computes with them); `to32` is the f64 -> f32 rendering
    #[verifier::external_body]
    pub struct Vals { _p: u8 }
    pub uninterp spec fn td_vals(t: TensorData) -> Vals;
    pub uninterp spec fn tensor_vals<B, const D: usize>(t: Tensor<B, D>) -> Vals;
    pub uninterp spec fn slice_vals<E>(s: Seq<E>) -> Vals;
    pub uninterp spec fn to32(v: Vals) -> Vals;
    /// what a run summary is computed from: the tensor's values rendered in f32, and its shape
    pub open spec fn sample32<B: Backend>(t: Tensor<B, 3>) -> (Vals, Seq<usize>) {
        (if B::float_is_f32() { tensor_vals(t) } else { to32(tensor_vals(t)) }, tdims(t))
    }
    pub struct DataError;
    impl core::fmt::Debug for DataError { #[verifier::external_body] fn fmt(&self, f: &mut core::fmt::Formatter<'_>) -> core::fmt::Result { Ok(()) } }
    pub uninterp spec fn tdims<B, const D: usize>(t: Tensor<B, D>) -> Seq<usize>;
    impl<B: Backend, const D: usize> Tensor<B, D> {
        /// `to_data()`: the values in the backend's float element type
        #[verifier::external_body]
        pub fn to_data(&self) -> (r: TensorData)
            ensures td_is_f32(r) == B::float_is_f32(), D == 3 ==> td_len(r) == tdims(*self)[0] * tdims(*self)[1] * tdims(*self)[2],
                td_vals(r) == tensor_vals(*self)
        { unimplemented!() }
        #[verifier::external_body]
        pub fn dims(&self) -> (r: [usize; D]) ensures r@ == tdims(*self) { unimplemented!() }
    }
    impl TensorData {
        /// `as_slice::<E>()`: Err(TypeMismatch) unless E is the stored element type
        #[verifier::external_body]
        pub fn as_slice<E: Element>(&self) -> (r: Result<&[E], DataError>)
            ensures (r is Ok) == (E::is_f32() == td_is_f32(*self)), r is Ok ==> r->Ok_0@.len() == td_len(*self) && slice_vals(r->Ok_0@) == td_vals(*self)
        { unimplemented!() }
        /// `convert::<E>()`: the same values converted to element type E
        #[verifier::external_body]
        pub fn convert<E: Element>(self) -> (r: TensorData)
            ensures td_is_f32(r) == E::is_f32(), td_len(r) == td_len(self),
                td_vals(r) == (if E::is_f32() == td_is_f32(self) { td_vals(self) } else if E::is_f32() { to32(td_vals(self)) } else { arbitrary() })
        { unimplemented!() }
    }
    pub struct ShapeError;
    pub struct BoxDynError;
    impl From<ShapeError> for BoxDynError { #[verifier::external_body] fn from(e: ShapeError) -> BoxDynError { BoxDynError } }
    #[verifier::external_body]
    #[verifier::accept_recursive_types(X)]
    pub struct ArrayView3<'a, X> { _t: core::marker::PhantomData<&'a X> }
    pub uninterp spec fn view_of<'a, X>(v: ArrayView3<'a, X>) -> (Vals, Seq<usize>);
    impl<'a, X> ArrayView3<'a, X> {
        /// Err iff the slice has fewer than d0*d1*d2 elements
        #[verifier::external_body]
        pub fn from_shape(dims: [usize; 3], s: &'a [X]) -> (r: Result<ArrayView3<'a, X>, ShapeError>)
            ensures (r is Ok) == (s@.len() >= dims@[0] * dims@[1] * dims@[2]), r is Ok ==> view_of(r->Ok_0) == (slice_vals(s@), dims@)
        { unimplemented!() }
    }
    #[verifier::external_body]
    pub struct RunStats { _p: u8 }
    impl RunStats {
        /// ASSUMED here (its parts are proved in unit `stats`): total on a well-formed f32 view
        #[verifier::external_body]
        pub fn from_f32_view(sample: ArrayView3<f32>) -> (r: RunStats) ensures r == runstats_of(view_of(sample)) { unimplemented!() }
    }
    /// `RunStats::from_f32_view` is a function of the view (its parts are under contract in unit stats)
    pub uninterp spec fn runstats_of(v: (Vals, Seq<usize>)) -> RunStats;
    pub struct MultiChainTracker { pub n: usize }

    impl MultiChainTracker {
        pub fn stats<B: Backend>(&self, sample: Tensor<B, 3>) -> (r: Result<RunStats, BoxDynError>)
            ensures r is Ok,         // [C10.multichain_stats_conversion_succeeds_for_every_backend_float_type]
                r->Ok_0 == runstats_of(sample32(sample)),     // [C10.multichain_stats_is_a_function_of_the_sample_not_of_the_tracker]
        //@body id=mct_stats file=src/stats.rs impl_self=MultiChainTracker name=stats props=C10
        //@sig fn stats < B : Backend > (& self , sample : Tensor < B , 3 >) -> Result < RunStats , Box < dyn Error > >
        //@rules R-dynerr
        //@end
    }
}
} // verus!
fn main() {}
