"""Per-property configuration: which units decide it, what is not covered, what is assumed."""

COMMON_ASSUMPTIONS = [
    "machine floating point treated as extended reals: IEEE-754 special values exact, finite arithmetic exact (no rounding, no overflow/underflow) — prelude/float.rs",
    "function bodies are re-extracted from /repo by vx; the rewrite rules that fired are listed under coverage.extraction.rewrites and are assumed semantics-preserving desugarings",
    "every external_body stub / axiom / uninterpreted function listed in coverage.trusted_base is an assumed contract on a dependency (std, rand, burn, ndarray, rayon) or on user-supplied trait implementations",
    "Verus, its VIR encoding and z3 are trusted",
]

PROPS = {
    "C01": {
        "units": ["mh"],
        "design_ref": "DESIGN.md §8 C01",
        "technique": "Verus deductive proof of a contract on the extracted MHMarkovChain::step, generic over Target/Proposal/state type",
        "level_text": "Unbounded deductive proof (Verus/z3) that the real body of MHMarkovChain::step, re-extracted on every run, satisfies the acceptance rule of the statement for every Target, Proposal, state type, current state, candidate and every extended-real value (±inf, NaN, u = 0) of the four log-densities and of ln u; detailed balance as a real-arithmetic lemma.",
        "level_note": "Assumes: floats are extended reals (no rounding); user Target/Proposal obey the trait laws (logp is a function of its arguments and is not changed by sample); SmallRng is a deterministic function of its state; u uniform on [0,1) for the detailed-balance reading. The Kani companion (thorough) is bit-precise on f32 for the extracted text.",
        "explanation": "MHMarkovChain::step is verified once, generically; postcondition mh_step_post is the acceptance rule written from the property statement",
        "not_covered": ["floating-point rounding in the four additions/subtractions (the Verus model is exact)", "that u is uniformly distributed", "stationarity on infinite state spaces (only the finite detailed-balance identity is a lemma)"],
        "assumptions": ["Target::unnorm_logp returns self.lp(position); Proposal::logp returns self.lq(from,to); Proposal::sample leaves lq unchanged"],
    },
    "C05": {
        "units": ["gibbs"],
        "design_ref": "DESIGN.md §8 C05",
        "technique": "Verus deductive proof of a relational sweep contract on the extracted GibbsMarkovChain::step, generic over Conditional/state type, with ghost call history built in the loop",
        "level_text": "Unbounded deductive proof (Verus/z3), generic over every Conditional implementation, state type and dimension, that one step makes exactly one conditional call per coordinate, each on the current state with all earlier answers written, writes each answer to its coordinate only and changes nothing else; the witness (sequence of conditional values, states, answers, visiting order) is built as ghost state in the loop of the real body.",
        "level_note": "Assumes only that a Conditional::sample call is some relation between (conditional before, index, state passed, conditional after, result). Invariance of the joint under full conditionals is the textbook corollary and is not mechanised.",
        "explanation": "GibbsMarkovChain::step after rule R-foreach; postcondition gibbs_step_post is existential over the call history and the visiting order",
        "not_covered": ["'hence leaves the joint distribution invariant' (probabilistic corollary, not mechanised)"],
        "assumptions": ["Conditional::sample is an arbitrary relation sample_rel(pre, index, given, post, ret) — no functional or stateless assumption"],
    },
    "C07": {
        "units": ["mh", "gibbs", "core"],
        "design_ref": "DESIGN.md §8 C07",
        "technique": "Verus deductive proof of seed-derivation contracts (total for every u64 seed, per-chain generator state = seeded(f(seed,i))) and of step/run contracts that define the new sampler value as a function of the old one over a functional PRNG model",
        "level_text": "Unbounded deductive proof (Verus/z3), for every u64 seed (wrapping offsets included) and every chain count, that seeding is total (no overflow obligation fails), that chain i's generator state is exactly seeded(f(seed, i)) and nothing else changes, that the seeded initialisers are functions of their arguments, and that each step consumes randomness only from generators the sampler owns (no ambient source on the run path), which makes the output a function of (inputs, seed).",
        "level_note": "Thread-count/schedule independence is *reduced* to the assumed rayon contract of rule R-par plus Rust's exclusive &mut per chain; real interleavings are not modelled. 'Different seeds give different output' is reduced to injectivity of the seed derivation; that different generator seeds give different streams is PRNG quality (assumed). Gibbs: only for conditionals that are deterministic given their own state.",
        "explanation": "seed/set_seed bodies are verified with automatic overflow obligations; determinism is functional dependence in the step/run postconditions",
        "not_covered": ["actual thread interleavings", "other samplers running concurrently in the process (follows from 'no ambient randomness on the run path', not separately modelled)", "different seeds => different output beyond injectivity of the derived seeds"],
        "assumptions": ["SmallRng::seed_from_u64(s) yields state seeded(s); every draw is a function of the state", "Proposal::set_seed(s) yields stream seeded(s) and keeps the density"],
    },
    "C08": {
        "units": ["mh"],
        "design_ref": "DESIGN.md §8 C08",
        "technique": "Verus deductive proof of pairwise-distinct stream identifiers as postconditions of the extracted constructors/seeders (ghost stream = generator state; Clone law makes shared streams visible)",
        "level_text": "Unbounded deductive proof (Verus/z3) for every seed and chain count: after MetropolisHastings::new and ::seed no two chains hold the same proposal stream or acceptance stream, and no proposal stream equals any acceptance stream of the sampler.",
        "level_note": "Assumes: seeded(a) != seeded(b) for a != b (PRNG seeding is injective); user Clone yields an equal value (so a cloned proposal provably shares its stream); Proposal::set_seed(s) yields stream seeded(s). For unseeded construction the acceptance generators come from OS entropy, whose pairwise distinctness is probabilistic and is not claimed.",
        "explanation": "mh_streams_distinct(chains) is a postcondition of seed(); proposal-stream distinctness a postcondition of new()",
        "not_covered": ["distinctness of two OS-entropy seeds (probabilistic)", "HMC row streams and NUTS chains until their units are listed under functions_under_contract"],
        "assumptions": ["ax_seeded_injective", "VClone law r == *self for user proposals/targets"],
    },
    "C09": {
        "units": ["core", "mh", "gibbs"],
        "design_ref": "DESIGN.md §8 C09",
        "technique": "Verus deductive proof of history-existential contracts on run_chain, ChainRunner::run and the sampler constructors (extracted bodies, loop invariants with ghost histories)",
        "level_text": "Unbounded deductive proof (Verus/z3) for every n_collect, n_discard, dimension, chain count and every MarkovChain/HasChains implementation: run_chain performs exactly n_collect+n_discard transitions, row k is the state after n_discard+k+1 of them, the chain is left at the last one; ChainRunner::run returns row c from chain c in order; constructors start chain c at initial_states[c]; runs compose (continuation lemma).",
        "level_note": "Assumes: rayon's indexed parallel map is an in-order map whose closure instances touch only their own chain (rule R-par); ndarray zeros/row assignment/stack/from_shape contracts (prelude/ndarray.rs); MarkovChain::step keeps the state length. HMC::run / NUTS::run are covered by their own units when listed under functions_under_contract.",
        "explanation": "run_post is existential over the sequence of chain values linked by the trait's step relation",
        "not_covered": ["real thread interleavings inside rayon (assumed contract)"],
        "assumptions": ["MarkovChain::step is an arbitrary relation step_rel(pre, post) that keeps the state length and returns the new state", "HasChains::chains_mut returns the sampler's chain vector"],
    },
    "C11": {
        "units": ["stats"],
        "design_ref": "DESIGN.md §8 C11",
        "technique": "Verus deductive proof in real arithmetic that the extracted splitcat / withinvar / rhat / split_rhat_mean_ess compute sqrt(var+/W) of the half-chains (spec functions written from the statement), and that basic_stats meets std's total-order precondition of sort_by for every input incl. NaN",
        "level_text": "Unbounded deductive proof (Verus/z3) for every number of chains, draws and parameters (all-finite draws): splitcat yields the two halves of every chain, withinvar yields W (mean half-chain variance) and var+ = (n-1)/n W + B/n per parameter, the reported R-hat is sqrt(var+/W) of exactly those; basic_stats' comparator is a total order on all floats including NaN (so sort_by cannot fail) and for finite data the summary fields are the extremes / middle order statistic / mean of the sorted data.",
        "level_note": "Real arithmetic: rounding and f32 conditioning are not modelled. ndarray reductions (mean_axis, mean, sum, pow2, slicing, concatenate) are assumed contracts (prelude/ndfloat.rs); rayon = in-order map (R-par). The corollaries (lower bound sqrt((n-1)/n), monotonicity in separation, affine/permutation invariance) are consequences of the formula and are not separately mechanised; `std` of the summary is only checked for totality.",
        "explanation": "withinvar is verified against spec functions within_w / between_over_n / var_plus over nested sequences; nested R-par/R-mapcollect/R-fold/R-mapsum loops with invariants",
        "not_covered": ["f32 rounding/conditioning", "monotonicity/invariance corollaries (not mechanised)", "ESS values inside the summary (C12)"],
        "assumptions": ["ndarray reduction/slicing contracts of prelude/ndfloat.rs", "slice::sort_by returns a permutation ordered by the comparator when the comparator is a total order (std docs)"],
    },
    "C13": {
        "units": ["trackers"],
        "design_ref": "DESIGN.md §8 C13",
        "technique": "Verus deductive proof with a quantified ghost update history: representation invariant wf(tracker, fed) preserved by the extracted ChainTracker::step, stats() and collect_rhat/withinvar_from_cs proved against batch formulas in real arithmetic",
        "level_text": "Unbounded deductive proof (Verus/z3) for every update sequence, number of parameters and chains: ChainTracker::new establishes and ::step preserves the invariant 'n, running mean and running mean of squares are those of exactly the fed states' (for every possible history fed), stats() then reports count, mean and unbiased variance of the fed states, the acceptance rate is an EMA with weight 0.01 of 'state differs' indicators and stays in [0,1], and collect_rhat is sqrt(var+/W) with the between-chain variance divided by (chains - 1) for every number of parameters.",
        "level_note": "Real arithmetic on finite data (f32 conditioning not modelled). ndarray element-wise operators, reductions, stack/broadcast and Zip::fold over rows are assumed contracts (prelude/ndtrack.rs). Element conversion to_f32 is assumed to be a total function for primitive numerics. MultiChainTracker (the HMC progress tracker) is not yet under contract: 'identical to what the multi-chain tracker reports' is not decided.",
        "explanation": "the fed sequence is a universally quantified ghost parameter of the postconditions (forall fed. wf(old, fed) ==> wf(new, fed.push(x)))",
        "not_covered": ["MultiChainTracker::{step,rhat,within_and_var} and its equality with collect_rhat", "f32 conditioning"],
        "assumptions": ["ToPrimitive::to_f32 is a function of the value", "ndarray contracts of prelude/ndtrack.rs"],
    },
    "C15": {
        "units": ["densities"],
        "design_ref": "DESIGN.md §8 C15",
        "technique": "Verus deductive proof in real arithmetic (uninterpreted ln with axioms) that the extracted built-in density functions equal their closed forms; sampler/seeding contracts over the functional PRNG model",
        "level_text": "Unbounded deductive proof (Verus/z3) for every dimension, mean, point and standard deviation: IsotropicGaussian::logp(from,to) is the normalised log-density -sum (to-from)^2/(2 std^2) - (d/2) ln(2 pi std^2) of the distribution its sample draws from (sample returns from_i + std*z_i with z the next standard-normal draws of its own generator), is symmetric (lemma), set_seed determines the stream; IsotropicGaussian as a target is -1/2 sum x^2/std^2; DiffableGaussian2D::new computes the exact inverse covariance, log-determinant and normalising constant -ln(2 pi) - 1/2 ln det.",
        "level_note": "Real arithmetic; ln is uninterpreted with the stated axioms. The tensor-based evaluations (DiffableGaussian2D batched/single, Rosenbrock forms, Gaussian2D via ndarray dot products) and the gradient plumbing are listed under functions_under_contract only once their units exist; that burn's autodiff value is the analytic gradient, f32-level accuracy, and that Normal draws are Gaussian are not decidable here.",
        "explanation": "loops after R-zip / R-iterref / R-samplezip with partial-sum invariants",
        "not_covered": ["true-gradient clause (autodiff correctness is an assumed contract of burn)", "agreement to f32-level accuracy", "Gaussian2D/DiffableGaussian2D/Rosenbrock evaluations until listed", "normality of the draws"],
        "assumptions": ["Normal::sample(rng) = mean + std_dev * (one StandardNormal draw)", "Zip::next draws from the first iterator before testing the second (one trailing draw)"],
    },
    "C16": {
        "units": ["categorical"],
        "design_ref": "DESIGN.md §8 C16",
        "technique": "Verus deductive proof in real arithmetic of contracts on the extracted Categorical::new / sample / logp (unbounded length, every uniform variate incl. exactly 0); Kani bounded companion on IEEE f32",
        "level_text": "Unbounded deductive proof (Verus/z3) over every weight vector length and every value of the uniform variate in [0,1) (including exactly 0): new normalises to probabilities that sum to one, logp is ln p_i / -inf, sample returns an in-range index k with cum_{k-1} <= r <= cum_k and p_k > 0.",
        "level_note": "Real arithmetic (no rounding): the rounding-induced fall-through to the last index is only visible to the bounded Kani companion (thorough tier, f32, length <= 3, labelled bounded). r in [0,1) is the assumed contract of rand's StandardUniform. Distribution of the result follows from inverse_cdf when r is uniform (not mechanised).",
        "explanation": "loop with break verified through invariant_except_break + loop ensures; sum-to-one by an induction lemma",
        "not_covered": ["uniformity of r", "IEEE rounding of the cumulative sums (bounded companion only)"],
        "assumptions": ["rng.random::<T>() returns a finite value in [0,1)"],
    },
    "C18": {
        "units": ["core"],
        "design_ref": "DESIGN.md §8 C18",
        "technique": "Verus deductive proof that the extracted _init/init_with_seed/init_det compute a spec function of (n, d, seed) over a functional PRNG model; prefix/shape/finiteness lemmas",
        "level_text": "Unbounded deductive proof (Verus/z3) for all n, d, seed: the seeded helpers return exactly init_spec(seeded(seed), n, d) (n rows of length d, entry (i,j) the (i*d+j)-th standard-normal draw), init_det is init_with_seed(.,.,42), rows of a larger request are a prefix-extension of a smaller one, entries finite; init() has the right shape.",
        "level_note": "Assumes SmallRng is a deterministic function of its state and StandardNormal yields finite values (rand/rand_distr contracts); that the draws are i.i.d. N(0,1) is not decidable here. init() uses OS entropy and is (correctly) not claimed pure.",
        "explanation": "nested R-mapcollect loops with invariants over the generator state index i*d+j",
        "not_covered": ["independent standard-normal distribution of the draws (rand_distr's contract)"],
        "assumptions": ["StandardNormal.sample advances the generator by one 'normal' draw", "T::from_f64 is total on f32/f64"],
    },
}

UNIT_PROPS = {
    "mh": ["C01", "C07", "C08", "C09", "C14"],
    "gibbs": ["C05", "C07", "C09"],
    "core": ["C09", "C10", "C18", "C07"],
    "categorical": ["C16"],
    "stats": ["C11", "C12", "C10"],
    "trackers": ["C13"],
    "densities": ["C15", "C07", "C08"],
}

HOOK_COMMITS = ["9c48c67", "214a974", "5238a4e", "87ca85d", "d757fbc"]

NOT_APPLICABLE = {
    "C06": "distributional / asymptotic statement (law of large numbers with calibrated error): no contract a deductive verifier can discharge expresses it; see DESIGN.md §8 C06",
}
