"""Per-property configuration: which units decide it, what is not covered, what is assumed."""

COMMON_ASSUMPTIONS = [
    "machine floating point treated as extended reals: IEEE-754 special values exact, finite arithmetic exact (no rounding, no overflow/underflow) — prelude/float.rs",
    "function bodies are re-extracted from /repo by vx; the rewrite rules that fired are listed under coverage.extraction.rewrites and are assumed semantics-preserving desugarings",
    "every external_body stub / axiom / uninterpreted function listed in coverage.trusted_base is an assumed contract on a dependency (std, rand, burn, ndarray, rayon) or on user-supplied trait implementations",
    "Verus, its VIR encoding and z3 are trusted",
]

PROPS = {
    "C01": {
        "units": ["mh"],
        "design_ref": "DESIGN.md §8 C01",
        "technique": "Verus deductive proof of a contract on the extracted MHMarkovChain::step, generic over Target/Proposal/state type",
        "level_text": "Unbounded deductive proof (Verus/z3) that the real body of MHMarkovChain::step, re-extracted on every run, satisfies the acceptance rule of the statement for every Target, Proposal, state type, current state, candidate and every extended-real value (±inf, NaN, u = 0) of the four log-densities and of ln u; detailed balance as a real-arithmetic lemma.",
        "level_note": "Assumes: floats are extended reals (no rounding); user Target/Proposal obey the trait laws (logp is a function of its arguments and is not changed by sample); SmallRng is a deterministic function of its state; u uniform on [0,1) for the detailed-balance reading. The Kani companion (thorough) is bit-precise on f32 for the extracted text.",
        "explanation": "MHMarkovChain::step is verified once, generically; postcondition mh_step_post is the acceptance rule written from the property statement",
        "not_covered": ["floating-point rounding in the four additions/subtractions (the Verus model is exact)", "that u is uniformly distributed", "stationarity on infinite state spaces (only the finite detailed-balance identity is a lemma)"],
        "assumptions": ["Target::unnorm_logp returns self.lp(position); Proposal::logp returns self.lq(from,to); Proposal::sample leaves lq unchanged"],
    },
}

UNIT_PROPS = {
    "mh": ["C01", "C07", "C08", "C09", "C14"],
}

NOT_APPLICABLE = {
    "C06": "distributional / asymptotic statement (law of large numbers with calibrated error): no contract a deductive verifier can discharge expresses it; see DESIGN.md §8 C06",
}
