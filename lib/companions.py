"""Executable oracles (replay / fallback), Kani companions (DESIGN.md §5 steps 4-5).

The deciding step of every check is the Verus run.  This module adds
  * witness search: when an obligation fails, the property's executable oracle (a bounded adversarial
    enumeration in /repo/tests/verif_replay.rs, cargo feature `verif`) is run on the real code; a failing
    case is the concrete input recorded in the replay file;
  * fallback: when the deductive check is *undecided* (lost anchor / unsupported construct after a
    refactoring), the same oracle decides what it can: a failing case is a violation with a concrete
    input; a passing oracle leaves the run undecided (exit 2) — it never turns it green.
"""
import json
import os
import re
import subprocess
import time

VERIF = os.path.dirname(os.path.dirname(os.path.abspath(__file__)))
REPO = os.environ.get("VERIF_REPO", "/repo")

ORACLES = {
    "C01": ["oracle_c01"],
    "C05": ["oracle_c05"],
    "C07": ["oracle_c07", "c07_"],
    "C02": ["oracle_c02"],
    "C03": ["oracle_c03"],
    "C04": ["oracle_c03_c04", "oracle_c04"],
    "C14": ["oracle_c14", "oracle_c03_c04", "oracle_c04_step_size_survives", "oracle_c01", "oracle_c02_field"],
    # oracle_c02_hmc_step_is_L...: predicts each row's own acceptance draw from a copy of the sampler's generator, so
    # rows sharing one acceptance draw (C08: distinct acceptance draws per chain) fail it
    "C08": ["oracle_c08", "c08_", "oracle_c02_hmc_step_is_L"],
    "C09": ["oracle_c09", "oracle_c07_c09", "oracle_c03_c04_blackbox"],
    "C10": ["oracle_c10", "c10_"],
    "C11": ["oracle_c11", "c11_"],
    "C12": ["oracle_c12", "oracle_c11_c12"],
    "C13": ["c13_", "oracle_c13"],
    "C15": ["c15_", "oracle_c15"],
    "C16": ["oracle_c16", "c16_"],
    "C17": ["oracle_c17"],
    "C18": ["oracle_c18"],
}
# oracles living in another test target / needing further cargo features: property -> (test target, extra features)
ORACLE_TARGETS = {
    "C17": ("verif_replay_io", ",csv,arrow,parquet"),
}


def run_oracles(prop, timeout=1500):
    """-> dict(ran, cmd, wall_s, tests, failed:[{test, witness, message}], error)
    The oracles are first built with the private-state accessors (feature verif-hooks); when the crate no longer
    compiles with them (a change of representation), the tests that use only the public API are still run
    (feature verif) and the loss of the hook-based tests is recorded."""
    r = _run_oracles(prop, "verif-hooks", timeout)
    if not r.get("ran") and "does not compile" in r.get("reason", ""):
        r2 = _run_oracles(prop, "verif", timeout)
        r2["hooks_disabled"] = r["reason"]
        return r2
    return r


def _run_oracles(prop, feature, timeout):
    filters = ORACLES.get(prop)
    if not filters:
        return {"ran": False, "reason": "no executable oracle for this property"}
    target, extra = ORACLE_TARGETS.get(prop, ("verif_replay", ""))
    if not os.path.exists(os.path.join(REPO, "Cargo.toml")) or not os.path.exists(os.path.join(REPO, "tests", target + ".rs")):
        return {"ran": False, "reason": f"{REPO} is not a cargo project with tests/{target}.rs"}
    cmd = ["cargo", "test", "--offline", "--features", feature + extra, "--test", target, "--"] + filters + ["--nocapture", "--test-threads", "4"]
    t0 = time.time()
    env = dict(os.environ, CARGO_NET_OFFLINE="true", RUST_BACKTRACE="0")
    try:
        r = subprocess.run(cmd, cwd=REPO, capture_output=True, text=True, timeout=timeout, env=env)
    except subprocess.TimeoutExpired:
        return {"ran": False, "reason": "oracle run timed out", "cmd": " ".join(cmd)}
    out = r.stdout + "\n" + r.stderr
    res = {"ran": True, "cmd": "cd %s && %s" % (REPO, " ".join(cmd)), "wall_s": round(time.time() - t0, 1), "failed": [], "tests": []}
    if "error: could not compile" in out or re.search(r"^error(\[E\d+\])?:", out, re.M) and "test result" not in out:
        res["ran"] = False
        res["reason"] = ("the crate or the oracle file does not compile with --features %s: " % feature) + "\n".join(l for l in out.split("\n") if l.startswith("error"))[:600]
        return res
    witnesses = re.findall(r"^WITNESS (.*)$", out, re.M)
    for m in re.finditer(r"^test (\S+) \.\.\. (\w+)", out, re.M):
        res["tests"].append({"test": m.group(1), "result": m.group(2)})
    failed = [t["test"] for t in res["tests"] if t["result"] == "FAILED"]
    for t in failed:
        short = t.split("::")[-1]
        w = None
        for cand in witnesses:
            key = short.split("_")[1] if short.startswith("oracle_") else None
            if key and ('"oracle":"%s' % key) in cand:
                w = cand
                break
        msg = ""
        m = re.search(r"thread '%s'[^\n]*panicked at ([^\n]*)\n([^\n]*)" % re.escape(t), out)
        if m:
            msg = (m.group(1) + " " + m.group(2)).strip()
        res["failed"].append({"test": t, "witness": w, "message": msg[:600]})
    if not res["tests"]:
        res["ran"] = False
        res["reason"] = "no oracle test matched " + str(filters)
    return res


def run_assumed(timeout=900):
    """spot checks of the preludes' ASSUMED contracts against the real crates (tests/verif_replay.rs, mod assumed_contracts)"""
    saved = ORACLES.get("__assumed__")
    ORACLES["__assumed__"] = ["assumed_"]
    try:
        r = _run_oracles("__assumed__", "verif", timeout)
    finally:
        if saved is None:
            ORACLES.pop("__assumed__", None)
    return r


def witness_search(prop, violation):
    """concrete failing input for a failed obligation, or None"""
    r = run_oracles(prop)
    if r.get("ran") and r["failed"]:
        f = r["failed"][0]
        return {"found_by": "executable oracle " + f["test"], "input": f["witness"] or f["message"], "cmd": r["cmd"], "all_failed": [x["test"] for x in r["failed"]]}
    return None


def run(c, prop, tier, seed):
    """bounded companions; kind 'kani': the function bodies are re-extracted by vx (no rewriting rules) into a harness
    crate and checked by Kani/CBMC bit-precisely within the stated bound"""
    import vxdriver as vx
    if c.get("kind") != "kani":
        raise NotImplementedError(c["name"])
    t0 = time.time()
    bdir = os.path.join(vx.BUILD, "kani_" + c["name"])
    os.makedirs(os.path.join(bdir, "src"), exist_ok=True)
    req = {"repo": REPO, "items": [dict(it, kind="fn", rules=[]) for it in c["items"]]}
    rq = os.path.join(bdir, "req.json")
    json.dump(req, open(rq, "w"))
    r = subprocess.run([vx.VX, "extract", rq], capture_output=True, text=True)
    if r.returncode != 0:
        raise vx.Undecided("kani companion: vx extract failed: " + r.stderr[:300])
    items = {it["id"]: it for it in json.loads(r.stdout)["items"]}
    text = open(os.path.join(vx.VERIF, c["dir"], "lib.rs.tmpl")).read()
    for it in c["items"]:
        got = items.get(it["id"])
        if not got or not got.get("ok"):
            raise vx.Undecided(f"kani companion: lost anchor: {it['id']}: {got.get('error') if got else 'missing'}")
        mark = "/*@body %s*/" % it["id"]
        if mark not in text:
            raise vx.Undecided(f"kani companion: template has no marker for {it['id']}")
        text = text.replace(mark, got["body"])
    open(os.path.join(bdir, "src", "lib.rs"), "w").write(text)
    open(os.path.join(bdir, "Cargo.toml"), "w").write('[package]\nname = "kani_%s"\nversion = "0.1.0"\nedition = "2021"\n[dependencies]\n[workspace]\n' % c["name"])
    env = dict(os.environ, CARGO_NET_OFFLINE="true")
    res = {"name": c["name"], "backend": "kani 0.68 / cbmc (bit-precise, BOUNDED)", "bound": c.get("bound", ""), "harnesses": [], "violations": [],
           "functions": [f"{it['file']}::{it.get('impl_self', '')}::{it['name']}" for it in c["items"]], "labelled": "bounded: never counted as proved"}
    # build once (serial), then the harnesses run side by side (each is one CBMC process; the largest needs about 6 GB)
    subprocess.run(["cargo", "kani", "--only-codegen"], cwd=bdir, capture_output=True, text=True, env=env, timeout=c.get("timeout", 1800))

    def one(h):
        cmd = ["cargo", "kani", "--harness", h]
        try:
            k = subprocess.run(cmd, cwd=bdir, capture_output=True, text=True, env=env, timeout=c.get("timeout", 1800))
        except subprocess.TimeoutExpired:
            return h, cmd, None
        return h, cmd, k.stdout + "\n" + k.stderr

    import concurrent.futures
    with concurrent.futures.ThreadPoolExecutor(max_workers=c.get("jobs", 4)) as ex:
        outs = list(ex.map(one, c["harnesses"]))
    for h, cmd, out in outs:
        if out is None:
            raise vx.Undecided(f"kani companion {h}: timeout")
        if "VERIFICATION:- SUCCESSFUL" in out:
            m = re.search(r"\*\* (\d+) of (\d+) failed", out)
            res["harnesses"].append({"harness": h, "result": "successful", "checks": int(m.group(2)) if m else None, "cmd": "cd %s && %s" % (bdir, " ".join(cmd))})
        elif "VERIFICATION:- FAILED" in out:
            failed = re.findall(r"Failed Checks: ([^\n]*)", out)
            # concrete values for the failing trace
            cp = subprocess.run(cmd + ["-Z", "concrete-playback", "--concrete-playback=print"], cwd=bdir, capture_output=True, text=True, env=env, timeout=c.get("timeout", 1800))
            mcp = re.search(r"Concrete playback unit test[^\n]*\n(.*?)(?:\nINFO|\Z)", cp.stdout + cp.stderr, re.S)
            play = mcp.group(1)[:3000] if mcp else None
            res["harnesses"].append({"harness": h, "result": "failed", "failed_checks": failed})
            res["violations"].append({"unit": "kani", "obligation": f"{prop}.kani.{h}", "site": "kani::" + h, "site_file": c["items"][0]["file"], "message": "; ".join(failed)[:400],
                                      "spans": [], "rendered": out[-3000:], "backend": "kani",
                                      "witness": {"found_by": "kani concrete playback of " + h, "input": play, "cmd": "cd %s && %s" % (bdir, " ".join(cmd))} if play else None})
        else:
            raise vx.Undecided(f"kani companion {h}: no verdict: " + out[-400:])
    res["wall_s"] = round(time.time() - t0, 1)
    return res


def replay(prop, path):
    doc = json.load(open(path))
    print(json.dumps({k: doc.get(k) for k in ("property", "obligation", "site", "failing_input_found", "failing_input")}, indent=1))
    r = run_oracles(prop)
    if r.get("ran"):
        for t in r["tests"]:
            print("replay:", t["test"], t["result"])
        for f in r["failed"]:
            print("replay WITNESS:", f["witness"] or f["message"])
        return 1 if r["failed"] else 0
    print("replay: oracle could not be run:", r.get("reason"))
    print(doc.get("verifier_output", ""))
    return 1
