"""Kani companions, witness searches and replays (DESIGN.md §5 step 4-5). Filled in per property."""
import json
import os
import subprocess

VERIF = os.path.dirname(os.path.dirname(os.path.abspath(__file__)))


def run(c, prop, tier, seed):
    raise NotImplementedError(c["name"])


def witness_search(prop, violation):
    """Try to find a concrete failing input on the real code for a failed obligation. None if not found."""
    return None


def replay(prop, path):
    doc = json.load(open(path))
    print(json.dumps({k: doc.get(k) for k in ("property", "obligation", "site", "failing_input_found", "failing_input")}, indent=1))
    if not doc.get("failing_input_found"):
        print("replay: no concrete input recorded; the failed obligation and the verifier output are in the file")
        print(doc.get("verifier_output", ""))
        return 1
    return 1
