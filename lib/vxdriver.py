#!/usr/bin/env python3
"""Assembly of Verus unit files from /repo's current sources + running Verus.

A unit is a template `units/<unit>/unit.rs`: hand-written spec text (traits with assumed
contracts, spec functions, lemmas, contract headers) with directives at the places where a
function *body* is to be taken from /repo.  The bodies come from `vx` (see vx/src), which
parses the current working tree, applies only catalogue rules and inserts markers; this
module splices loop clauses, closure contracts and proof blocks at those markers.

Directives (all start with `//@`):
  //@include <path relative to /verif>
  //@fields file=<src> name=<Struct> [drop=a,b]
  //@body id=<id> file=<src> name=<fn> [impl_self=..] [impl_trait=..] [in_trait=..] [props=C01,C07]
       [slice_from="regex" slice_to="regex" slice_result=var]  (statement slice: only that run of top-level statements is extracted)
  //@sig <normalised source signature>          (drift check)
  //@rules R-a R-b ...
  //@loop <N> [iter=<name>]                     followed by //@| clause lines
  //@closure <N> params="a: T; b: U" ret="(r: X)"   followed by //@| clause lines
  //@index var:fn var2:fn2                      R-index: `var[i]` on a foreign container becomes `fn(&var, i)`
  //@rename <name> match="regex with one group"   R-alpha: the local bound by the matching `let` is called <name> in the unit (renamed if the source differs)
  //@const NAME:fn                              R-const: the module constant NAME becomes the call `fn()` (its value is extracted with kind=const)
  //@binop var-:fn var/:fn2                     R-binop: `var - e` / `&var - e` becomes `fn(var, e)` (operator stub)
  //@outtype <var> <Type>                       type ascription for a rule-introduced `let mut <var> = Vec::new();`
  //@anchor <name> scope=fn|loop:N pos=before|after|start|end [match="regex"] [nth=k]  + //@| lines
  //@end
"""
import json
import os
import re
import shlex
import subprocess
import sys
import time

VERIF = os.path.dirname(os.path.dirname(os.path.abspath(__file__)))
REPO = os.environ.get("VERIF_REPO", "/repo")
BUILD = os.environ.get("VERIF_BUILD", os.path.join(VERIF, "build"))
VX = os.path.join(VERIF, "vx", "target", "release", "vx")

TAG_RE = re.compile(r"\[(C\d\d)\.([A-Za-z0-9_.\-]+)\]")


class Undecided(Exception):
    """Tool limit / lost anchor / unsupported construct: exit 2, never an alarm."""


def parse_kv(s):
    out = {}
    pos = []
    for tok in shlex.split(s):
        if "=" in tok and re.match(r"^[A-Za-z_]+=", tok):
            k, v = tok.split("=", 1)
            out[k] = v
        else:
            pos.append(tok)
    return pos, out


class BodyDirective:
    def __init__(self, indent, kv, line_no):
        self.indent = indent
        self.kv = kv
        self.line_no = line_no
        self.sig = None
        self.rules = []
        self.loops = {}      # N -> {"iter": name or None, "text": [lines]}
        self.closures = {}   # N -> {"params": [...], "ret": str, "text": [lines]}
        self.anchors = []    # {"name","scope","pos","match","nth","text":[lines]}
        self.index_map = {}  # R-index: variable -> indexing function
        self.binop_map = {}  # R-binop: "<var><op>" -> function
        self.const_map = {}  # R-const: constant -> function
        self.outtypes = {}   # name of a rule-introduced collection variable -> its type (ascription only)
        self.renames = []    # R-alpha: {"to", "match"}


def parse_template(path):
    """Returns a list of segments: ("text", line, (file, lineno)) | ("include", path) |
    ("fields", kv, lineno) | ("body", BodyDirective)"""
    segs = []
    cur = None
    sub = None
    with open(path) as f:
        lines = f.read().split("\n")
    for no, line in enumerate(lines, 1):
        st = line.strip()
        if st.startswith("//@"):
            d = st[3:]
            if d.startswith("|"):
                if sub is None:
                    raise Undecided(f"{path}:{no}: continuation line without a sub-directive")
                sub["text"].append(d[1:].rstrip())
                continue
            word = d.split(None, 1)[0] if d.split() else ""
            rest = d[len(word):].strip()
            if word == "include":
                segs.append(("include", rest))
            elif word == "fields":
                _, kv = parse_kv(rest)
                segs.append(("fields", kv, no, line[: len(line) - len(line.lstrip())]))
            elif word == "body":
                _, kv = parse_kv(rest)
                cur = BodyDirective(line[: len(line) - len(line.lstrip())], kv, no)
                sub = None
            elif word == "sig":
                cur.sig = rest
            elif word == "rules":
                cur.rules = rest.split()
            elif word == "loop":
                pos, kv = parse_kv(rest)
                sub = {"iter": kv.get("iter"), "text": []}
                cur.loops[int(pos[0])] = sub
            elif word == "closure":
                pos, kv = parse_kv(rest)
                sub = {"params": [p.strip() for p in kv.get("params", "").split(";") if p.strip()], "ret": kv.get("ret"), "bind": kv.get("bind"), "text": []}
                cur.closures[int(pos[0])] = sub
            elif word == "anchor":
                pos, kv = parse_kv(rest)
                sub = {"name": pos[0], "scope": kv.get("scope", "fn"), "pos": kv.get("pos", "after"), "match": kv.get("match", ""), "nth": int(kv.get("nth", "0")), "text": []}
                cur.anchors.append(sub)
            elif word == "index":
                for tok in rest.split():
                    k, v = tok.split(":")
                    cur.index_map[k] = v
            elif word == "const":
                for tok in rest.split():
                    k, v = tok.split(":")
                    cur.const_map[k] = v
            elif word == "binop":
                for tok in rest.split():
                    k, v = tok.rsplit(":", 1)
                    cur.binop_map[k] = v
            elif word == "outtype":
                nm, ty = rest.split(None, 1)
                cur.outtypes[nm] = ty.strip()
            elif word == "rename":
                pos, kv = parse_kv(rest)
                cur.renames.append({"to": pos[0], "match": kv.get("match", "")})
            elif word == "end":
                segs.append(("body", cur))
                cur = None
                sub = None
            elif word in ("unit", "props", "note"):
                segs.append(("text", line, (path, no)))
            else:
                raise Undecided(f"{path}:{no}: unknown directive {word}")
        else:
            if cur is not None:
                raise Undecided(f"{path}:{no}: text inside a //@body block (missing //@end?)")
            segs.append(("text", line, (path, no)))
    if cur is not None:
        raise Undecided(f"{path}: unterminated //@body")
    return segs


# ---------------------------------------------------------------------------------------
# text scanning helpers (pretty-printed Rust without comments)

def scan_to_open_brace(text, pos):
    """index of the first `{` at paren/bracket depth 0 at or after pos (skipping strings)."""
    depth = 0
    i = pos
    n = len(text)
    while i < n:
        c = text[i]
        if c == '"':
            i += 1
            while i < n and text[i] != '"':
                if text[i] == "\\":
                    i += 1
                i += 1
        elif c == "'":
            # char literal or lifetime
            if i + 2 < n and text[i + 1] == "\\":
                j = text.find("'", i + 2)
                i = j
            elif i + 2 < n and text[i + 2] == "'":
                i += 2
        elif c in "([":
            depth += 1
        elif c in ")]":
            depth -= 1
        elif c == "{" and depth == 0:
            return i
        elif c == "{":
            depth += 1
        elif c == "}":
            depth -= 1
        i += 1
    return -1


def match_brace(text, pos):
    """index of the `}` matching the `{` at pos (skipping strings)."""
    depth = 0
    i = pos
    n = len(text)
    while i < n:
        c = text[i]
        if c == '"':
            i += 1
            while i < n and text[i] != '"':
                if text[i] == "\\":
                    i += 1
                i += 1
        elif c == "{":
            depth += 1
        elif c == "}":
            depth -= 1
            if depth == 0:
                return i
        i += 1
    return -1


def find_in_kw(header):
    """position of the ` in ` keyword at depth 0 in a `for PAT in EXPR` header."""
    depth = 0
    i = 0
    while i < len(header):
        c = header[i]
        if c in "([{":
            depth += 1
        elif c in ")]}":
            depth -= 1
        elif depth == 0 and header.startswith(" in ", i):
            return i
        i += 1
    return -1


def line_indent_at(text, pos):
    ls = text.rfind("\n", 0, pos) + 1
    m = re.match(r"[ \t]*", text[ls:])
    return m.group(0)


def splice_body(body, bd, n_loops, n_closures):
    text = body
    # loops
    for k in range(1, n_loops + 1):
        lab = "'vxl_%d: " % k
        p = text.find(lab)
        if p < 0:
            raise Undecided(f"internal: loop label {k} missing in printed body of {bd.kv.get('id')}")
        spec = bd.loops.get(k)
        after = p + len(lab)
        if spec is None:
            text = text[:p] + text[after:]
            continue
        is_for = text.startswith("for ", after)
        in_pos = -1
        if is_for:
            # ` in ` at depth 0 after the pattern
            q = find_in_kw(text[after:])
            if q < 0:
                raise Undecided(f"loop {k}: cannot find `in`")
            in_pos = after + q
            e0 = in_pos + 4
            while text[e0] in " \n\t":
                e0 += 1
            scan_from = e0
            if text[e0] == "{":
                # the iterator expression starts with a block: skip it (balanced) before looking for the body
                close = match_brace(text, e0)
                scan_from = close + 1
            b = scan_to_open_brace(text, scan_from)
        else:
            b = scan_to_open_brace(text, after)
        if b < 0:
            raise Undecided(f"internal: no body brace for loop {k}")
        if spec["iter"]:
            if not is_for:
                raise Undecided(f"loop {k} of {bd.kv.get('id')}: iter= given but the loop is not a `for` loop (anchor drift)")
        ind = line_indent_at(text, p)
        clauses = "".join("\n" + ind + "    " + l.strip() if l.strip() else "" for l in spec["text"])
        header = text[after:b].rstrip()
        if is_for and spec["iter"]:
            rel = in_pos - after
            header = header[:rel] + " in " + spec["iter"] + ": " + header[rel + 4:]
        text = text[:p] + header + clauses + "\n" + ind + text[b:]
    for k in bd.loops:
        if k > n_loops:
            raise Undecided(f"lost anchor: loop {k} of {bd.kv.get('id')} (function has {n_loops} loops)")
    # closures
    for k, spec in bd.closures.items():
        mark = "-> __VxCRet_%d" % k
        p = text.find(mark)
        if p < 0:
            raise Undecided(f"lost anchor: closure {k} of {bd.kv.get('id')}")
        ind = line_indent_at(text, p)
        clauses = "".join("\n" + ind + "    " + l.strip() for l in spec["text"] if l.strip())
        text = text[:p] + "-> " + (spec["ret"] or "(r: ())") + clauses + "\n" + ind + text[p + len(mark):].lstrip(" ")
    # anchors
    for a in bd.anchors:
        mm = re.search(r"__vx_anchor!\(%s(?:, (\w+))?\);" % re.escape(a["name"]), text)
        if not mm:
            raise Undecided(f"lost anchor: {a['name']} of {bd.kv.get('id')}")
        p, mark = mm.start(), mm.group(0)
        ind = line_indent_at(text, p)
        repl = ("\n" + ind).join(l for l in a["text"])
        if "$lhs" in repl:
            if not mm.group(1):
                raise Undecided(f"lost anchor: {a['name']} of {bd.kv.get('id')} uses $lhs but is not next to a `let <name> =`")
            repl = repl.replace("$lhs", mm.group(1))
        text = text[:p] + repl + text[p + len(mark):]
    # type ascriptions for rule-introduced collection variables (no executable effect)
    for nm, ty in bd.outtypes.items():
        pat = "let mut %s = " % nm
        if text.count(pat) != 1:
            raise Undecided(f"lost anchor: outtype {nm} of {bd.kv.get('id')}")
        text = text.replace(pat, "let mut %s: %s = " % (nm, ty))
    if "__vx_anchor!" in text or "__VxCRet_" in text or "'vxl_" in text:
        raise Undecided(f"internal: unresolved marker in {bd.kv.get('id')}")
    return text


# ---------------------------------------------------------------------------------------

def run_vx(items):
    os.makedirs(BUILD, exist_ok=True)
    req = {"repo": REPO, "items": items}
    import uuid
    rp = os.path.join(BUILD, "vx_req_%s.json" % uuid.uuid4().hex)
    with open(rp, "w") as f:
        json.dump(req, f)
    if not os.path.exists(VX):
        raise Undecided("vx binary missing: run setup_cmd (bin/setup)")
    r = subprocess.run([VX, "extract", rp], capture_output=True, text=True)
    os.unlink(rp)
    if r.returncode != 0:
        raise Undecided("vx failed: " + r.stderr[-2000:])
    return json.loads(r.stdout)["items"]


class Assembled:
    def __init__(self):
        self.lines = []        # output lines
        self.origin = []       # per line: dict(kind=..., ...)
        self.functions = []    # extracted functions: dict(id,file,line_start,line_end,src_hash,rewrites,dropped,props,out_start,out_end,contract_lines)
        self.structs = []
        self.tags = {}         # out line no (1-based) -> [(prop,label)]

    def add(self, line, origin):
        self.lines.append(line)
        self.origin.append(origin)
        for m in TAG_RE.finditer(line):
            self.tags.setdefault(len(self.lines), []).append((m.group(1), m.group(2)))

    def text(self):
        return "\n".join(self.lines) + "\n"


def assemble(unit, canary=False):
    upath = os.path.join(VERIF, "units", unit, "unit.rs")
    if not os.path.exists(upath):
        raise Undecided(f"unit {unit} has no template")
    segs = parse_template(upath)
    # expand includes (one level is enough; includes may themselves include)
    def expand(segs, depth=0):
        out = []
        for s in segs:
            if s[0] == "include":
                ip = os.path.join(VERIF, s[1])
                if depth > 4:
                    raise Undecided("include depth")
                out.extend(expand(parse_template(ip), depth + 1))
            else:
                out.append(s)
        return out
    segs = expand(segs)
    # collect vx requests
    items = []
    for s in segs:
        if s[0] == "body":
            bd = s[1]
            kv = bd.kv
            it = {"id": kv["id"], "file": kv["file"], "kind": "fn", "name": kv["name"], "rules": bd.rules,
                  "closures": {str(k): ({"params": v["params"], "bind": v["bind"]} if v.get("bind") else {"params": v["params"]}) for k, v in bd.closures.items()},
                  "anchors": [{"name": a["name"], "scope": a["scope"], "pos": a["pos"], "match": a["match"], "nth": a["nth"]} for a in bd.anchors]}
            if canary:
                # reachability canary: `assert(false)` at the end of the body (after all other end-anchors);
                # it must FAIL, otherwise the preconditions/assumed contracts are contradictory
                it["anchors"].append({"name": "__canary", "scope": "fn", "pos": "end", "match": "", "nth": 0})
            it["index_map"] = bd.index_map
            it["binop_map"] = bd.binop_map
            it["const_map"] = bd.const_map
            if bd.renames:
                it["renames"] = bd.renames
            if kv.get("kind"):
                it["kind"] = kv["kind"]
            for k in ("impl_self", "impl_trait", "in_trait", "slice_from", "slice_to", "slice_result"):
                if k in kv:
                    it[k] = kv[k]
            items.append(it)
        elif s[0] == "fields":
            kv = s[1]
            items.append({"id": "struct:" + kv["name"], "file": kv["file"], "kind": "struct", "name": kv["name"],
                          "drop_fields": [x for x in kv.get("drop", "").split(",") if x],
                          "rules": [x for x in kv.get("rules", "").split(",") if x]})
    resp = {r["id"]: r for r in run_vx(items)} if items else {}
    asm = Assembled()
    for s in segs:
        if s[0] == "text":
            asm.add(s[1], {"kind": "template", "file": os.path.relpath(s[2][0], VERIF), "line": s[2][1]})
        elif s[0] == "fields":
            kv, no, ind = s[1], s[2], s[3]
            r = resp["struct:" + kv["name"]]
            if not r["ok"]:
                raise Undecided(f"unit {unit}: struct {kv['name']}: {r['error']}")
            for fl in r["fields"]:
                asm.add(ind + fl, {"kind": "extracted-fields", "struct": kv["name"], "file": r["file"], "line": r["line_start"]})
            asm.structs.append({"name": kv["name"], "file": r["file"], "line": r["line_start"], "src_hash": r["src_hash"], "dropped": r["dropped"]})
        elif s[0] == "body":
            bd = s[1]
            r = resp[bd.kv["id"]]
            if not r["ok"]:
                raise Undecided(f"unit {unit}: fn {bd.kv['id']}: {r['error']}")
            if bd.sig is not None and bd.sig.strip() != r["orig_sig"].strip():
                raise Undecided(f"unit {unit}: fn {bd.kv['id']}: signature drift: source has `{r['orig_sig']}`, unit expects `{bd.sig}`")
            if canary:
                bd.anchors.append({"name": "__canary", "scope": "fn", "pos": "end", "match": "", "nth": 0, "text": ["proof { assert(false); } // [canary]"]})
            body = splice_body(r["body"], bd, r["n_loops"], r["n_closures"])
            props = [p for p in bd.kv.get("props", "").split(",") if p]
            # find the contract header lines (walk back from here to the `fn` line)
            j = len(asm.lines) - 1
            hdr_name = bd.kv.get("as", bd.kv["name"])
            while j >= 0 and not re.search(r"\bfn\s+" + re.escape(hdr_name) + r"\b", asm.lines[j]):
                j -= 1
            if j < 0:
                raise Undecided(f"unit {unit}: no `fn {bd.kv['name']}` header before //@body {bd.kv['id']}")
            header_start = j
            out_start = len(asm.lines) + 1
            asm.add(bd.indent + "{", {"kind": "extracted", "fn": bd.kv["id"]})
            for bl in body.split("\n"):
                asm.add((bd.indent + bl) if bl.strip() else "", {"kind": "extracted", "fn": bd.kv["id"], "file": r["file"], "src_lines": [r["line_start"], r["line_end"]]})
            asm.add(bd.indent + "}", {"kind": "extracted", "fn": bd.kv["id"]})
            asm.functions.append({"id": bd.kv["id"], "name": bd.kv["name"], "file": r["file"], "line_start": r["line_start"], "line_end": r["line_end"],
                                  "src_hash": r["src_hash"], "orig_sig": r["orig_sig"], "rewrites": r["rewrites"], "dropped": r["dropped"], "props": props,
                                  "header_start": header_start + 1, "out_start": out_start, "out_end": len(asm.lines),
                                  "n_loops": r["n_loops"], "n_closures": r["n_closures"]})
    return asm


# ---------------------------------------------------------------------------------------

VERIF_FAIL_PATTERNS = [
    "postcondition not satisfied", "precondition not satisfied", "assertion failed", "invariant not satisfied",
    "possible arithmetic underflow/overflow", "possible division by zero", "decreases not satisfied", "could not prove termination",
    "recommendation not met", "unreachable", "possible bit shift underflow/overflow", "constructor precondition", "failed to prove",
    "may fail", "assertion failure", "not satisfied",
]
TOOL_LIMIT_PATTERNS = ["Resource limit (rlimit) exceeded", "rlimit", "timeout", "while loop: Resource limit", "panicked", "internal error", "not supported", "unsupported", "The verifier does not yet support"]


def run_verus(path, rlimit=None, extra=None, timeout=900):
    cmd = ["verus", path, "--output-json", "--time", "--multiple-errors", "40", "--error-format=json"]
    if rlimit:
        cmd += ["--rlimit", str(rlimit)]
    if extra:
        cmd += extra
    t0 = time.time()
    try:
        r = subprocess.run(cmd, capture_output=True, text=True, timeout=timeout, cwd=os.path.dirname(path))
    except subprocess.TimeoutExpired:
        raise Undecided(f"verus timed out after {timeout}s on {path}")
    wall = time.time() - t0
    try:
        js = json.loads(r.stdout)
    except Exception:
        raise Undecided("verus produced no JSON: " + (r.stderr[-1500:] or r.stdout[-500:]))
    diags = []
    for line in r.stderr.split("\n"):
        line = line.strip()
        if line.startswith("{"):
            try:
                d = json.loads(line)
            except Exception:
                continue
            if d.get("$message_type") == "diagnostic":
                diags.append(d)
    return {"cmd": " ".join(cmd), "rc": r.returncode, "json": js, "diags": diags, "stderr": r.stderr, "wall_s": wall}


def classify(res):
    """-> (status, failures, notes). status: 'ok' | 'fail' | 'undecided'"""
    vr = res["json"].get("verification-results", {})
    errors = [d for d in res["diags"] if d.get("level") == "error" and not d.get("message", "").startswith("aborting due to")]
    if vr.get("encountered-vir-error"):
        return "undecided", [], ["VIR error: " + "; ".join(d["message"] for d in errors)[:1500]]
    if vr.get("success") and vr.get("errors", 0) == 0 and not errors:
        return "ok", [], []
    if vr.get("errors", 0) == 0:
        # rustc-level error (type error, syntax, unsupported feature)
        return "undecided", [], ["compile error: " + " | ".join(d.get("message", "") for d in errors)[:2000]]
    fails = []
    notes = []
    for d in errors:
        msg = d.get("message", "")
        if any(p.lower() in msg.lower() for p in ["resource limit", "rlimit", "timed out", "panicked", "internal error"]):
            return "undecided", [], ["tool limit: " + msg]
        if any(p in msg for p in VERIF_FAIL_PATTERNS):
            fails.append(d)
        else:
            return "undecided", [], ["unclassified verus error: " + msg]
    if not fails:
        return "undecided", [], ["verus reported errors but no diagnostic was captured"]
    return "fail", fails, notes


def function_breakdown(res, modname=None):
    out = []
    smt = res["json"].get("times-ms", {}).get("smt", {})
    for m in smt.get("smt-run-module-times", []):
        for f in m.get("function-breakdown", []):
            out.append({"function": f["function"], "mode": f.get("mode:", f.get("mode")), "time_us": f.get("time-micros"), "rlimit": f.get("rlimit"), "success": f.get("success")})
    return out


def locate(asm, diag):
    """Map a failed-obligation diagnostic to (tags, site function, kind, span description)."""
    spans = diag.get("spans", [])
    spans_sorted = sorted(spans, key=lambda s: (not s.get("is_primary"),))
    tags = []
    site = None
    descr = []
    for s in spans_sorted:
        # labels are read off the clause / assertion / call the diagnostic points at; a span that covers a whole
        # body ("at the end of the function body") is context, not a clause
        if s["line_end"] - s["line_start"] <= 5:
            for ln in range(s["line_start"], s["line_end"] + 1):
                for t in asm.tags.get(ln, []):
                    if t not in tags:
                        tags.append(t)
        for fn in asm.functions:
            if fn["header_start"] <= s["line_start"] <= fn["out_end"]:
                if site is None or (fn["out_start"] <= s["line_start"]):
                    site = fn
        o = asm.origin[s["line_start"] - 1] if 0 < s["line_start"] <= len(asm.origin) else {}
        txt = s["text"][0]["text"].strip() if s.get("text") else ""
        descr.append({"line": s["line_start"], "label": s.get("label"), "primary": s.get("is_primary"), "origin": o, "text": txt[:200]})
    return tags, site, descr


def scan_trusted(text):
    """Mechanical scan of the generated file for every assumption-introducing construct."""
    out = []
    lines = text.split("\n")
    for i, l in enumerate(lines):
        st = l.strip()
        if st.startswith("//"):
            continue
        for kw in ("external_body", "assume_specification", "exec_allows_no_decreases_clause", "external_fn_specification", "external_type_specification"):
            if kw in st:
                # name the item that follows
                name = ""
                for j in range(i, min(i + 6, len(lines))):
                    m = re.search(r"\b(fn|struct|enum|type)\s+([A-Za-z_0-9]+)", lines[j])
                    if m:
                        name = m.group(1) + " " + m.group(2)
                        break
                out.append(f"{kw}: {name}")
        m = re.search(r"\baxiom\s+fn\s+([A-Za-z_0-9]+)", st)
        if m:
            out.append("axiom: " + m.group(1))
        m = re.search(r"\buninterp\s+spec\s+fn\s+([A-Za-z_0-9]+)", st)
        if m:
            out.append("uninterpreted: " + m.group(1))
        if re.search(r"\b(assume|admit)\s*\(", st):
            out.append("ASSUME/ADMIT in proof text: " + st[:120])
    # de-duplicate preserving order
    seen = set()
    res = []
    for x in out:
        if x not in seen:
            seen.add(x)
            res.append(x)
    return res


def check_unit(unit, rlimit=None, seed=None, with_canary=True):
    """Build + verify a unit. Returns a dict; raises Undecided for tool limits."""
    os.makedirs(BUILD, exist_ok=True)
    t0 = time.time()
    asm = assemble(unit)
    path = os.path.join(BUILD, unit + ".rs")
    text = asm.text()
    with open(path, "w") as f:
        f.write(text)
    with open(os.path.join(BUILD, unit + ".map.json"), "w") as f:
        json.dump({"functions": asm.functions, "structs": asm.structs, "tags": {str(k): v for k, v in asm.tags.items()}, "origin": asm.origin}, f)
    extra = []
    if seed is not None:
        extra += ["--smt-option", "smt.random_seed=%d" % (int(seed) % 1000000)]
    # the unit must still contain every function and labelled obligation it was frozen with
    # (bin/freeze writes units/<unit>/expected.json); a silently lost contract is "undecided", not green
    exp_path = os.path.join(VERIF, "units", unit, "expected.json")
    if os.path.exists(exp_path) and not os.environ.get("VERIF_NO_EXPECTED"):
        exp = json.load(open(exp_path))
        have_f = {f["id"] for f in asm.functions}
        have_t = {f"{p}.{l}" for tl in asm.tags.values() for (p, l) in tl}
        miss = [x for x in exp.get("functions", []) if x not in have_f] + [x for x in exp.get("labels", []) if x not in have_t]
        if miss:
            raise Undecided(f"unit {unit}: frozen functions/labels missing from the assembled unit: {miss}")
    res = run_verus(path, rlimit=rlimit, extra=extra)
    status, fails, notes = classify(res)
    # a resource-limit hit is retried with larger budgets before the run is declared undecided
    # (a failing obligation often needs more search than a passing one)
    budget = rlimit or 10
    while status == "undecided" and any("tool limit" in n and ("rlimit" in n.lower() or "resource limit" in n.lower()) for n in notes) and budget < 80:
        budget *= 8
        res = run_verus(path, rlimit=budget, extra=extra, timeout=600)
        status, fails, notes = classify(res)
    if status == "undecided":
        raise Undecided(f"unit {unit}: " + "; ".join(notes))
    failures = []
    for d in fails:
        tags, site, descr = locate(asm, d)
        failures.append({"message": d["message"], "tags": tags, "site": site["id"] if site else None, "site_file": (site["file"] + ":" + str(site["line_start"])) if site else None,
                         "site_props": site["props"] if site else [], "spans": descr, "rendered": d.get("rendered", "")})
    fb = function_breakdown(res)
    out = {"unit": unit, "path": path, "asm": asm, "status": status, "failures": failures, "breakdown": fb, "cmd": res["cmd"], "verus_wall_s": res["wall_s"],
           "verified": res["json"]["verification-results"].get("verified"), "errors": res["json"]["verification-results"].get("errors"),
           "smt_ms": res["json"].get("times-ms", {}).get("smt", {}).get("smt-run"), "trusted": scan_trusted(text),
           "verus_version": res["json"].get("verus", {}).get("version")}
    # vacuity canary (guards green results only: a run that already reports failed obligations is not green)
    if with_canary and status == "ok":
        casm = assemble(unit, canary=True)
        cpath = os.path.join(BUILD, unit + "_canary.rs")
        with open(cpath, "w") as f:
            f.write(casm.text())
        cres = run_verus(cpath, rlimit=rlimit)
        # in the canary run a resource-limit hit while trying to prove `false` means "false was not proved": that is
        # the expected outcome for that function (recorded as such), not a tool failure
        vr = cres["json"].get("verification-results", {})
        errors = [d for d in cres["diags"] if d.get("level") == "error" and not d.get("message", "").startswith("aborting due to")]
        if vr.get("encountered-vir-error") or (vr.get("errors", 0) == 0 and not vr.get("success")):
            raise Undecided(f"unit {unit} canary: does not compile: " + " | ".join(d.get("message", "") for d in errors)[:600])
        failed_fns = set()
        rlimit_fns = set()
        for d in errors:
            msg = d.get("message", "")
            is_rl = "resource limit" in msg.lower() or "rlimit" in msg.lower()
            is_canary = False
            for sp in d.get("spans", []):
                for t in sp.get("text", []):
                    if "[canary]" in t.get("text", ""):
                        is_canary = True
            if not (is_rl or ("assertion failed" in msg and is_canary)):
                continue
            _, site, _ = locate(casm, d)
            if site:
                failed_fns.add(site["id"])
                if is_rl:
                    rlimit_fns.add(site["id"])
        missing = [f["id"] for f in casm.functions if f["id"] not in failed_fns]
        out["canary"] = {"functions": len(casm.functions), "failed_as_expected": sorted(failed_fns), "not_proved_within_rlimit": sorted(rlimit_fns), "vacuous": missing}
        if missing:
            raise Undecided(f"unit {unit}: vacuity canary PASSED for {missing}: contradictory assumptions or unreachable body; run is not trusted")
    out["wall_s"] = time.time() - t0
    return out
